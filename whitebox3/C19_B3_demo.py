"""C19 / B3 (equivalent refactoring): Network.get_E_span picks the lowest and the highest state with sorted(...)[0]
(ascending, and descending with reverse=True; sorted() is stable in both directions, so the first of several equal
states is taken exactly as np.argmin/np.argmax do).
Compares the tree's Network.get_E_span bit for bit with a literal copy of the original algorithm (f5552c6) on random
reaction sequences: 1-8 steps with and without transition states, coefficients 1-3, random energies INCLUDING repeated
values (ties, adjacent and not), units None / kJ/mol / eV, several temperatures, whole paths, partial paths and
reversed paths. Exit 0 when everything is identical (on the original tree and on the refactored one)."""
import sys
import numpy as np
from pmutt import constants as c
from pmutt.reaction import Reaction
from pmutt.reaction.network import Network, get_state_quantity, state_to_set


class Sp:
    def __init__(self, name, h, s):
        self.name, self.h, self.s, self.elements = name, h, s, {'X': 1}
        self.phase = 'S'

    def get_GoRT(self, T=298.15, **kwargs):
        return self.h / T - self.s

    def get_G(self, units, T=298.15, **kwargs):
        return self.get_GoRT(T=T) * T * c.R('{}/K'.format(units))


def ref_span(net, path, units=None, **kwargs):
    G = []
    for state in path:
        species = net.graph.nodes[state]['species']
        stoich = net.graph.nodes[state]['stoich']
        if units is None:
            G.append(get_state_quantity(species=species, stoich=stoich, method_name='get_GoRT', **kwargs))
        else:
            G.append(get_state_quantity(species=species, stoich=stoich, method_name='get_G', units=units, **kwargs))
    min_i = np.argmin(G)
    max_i = np.argmax(G)
    energy_span = G[max_i] - G[min_i]
    if max_i < min_i:
        energy_span += G[-1] - G[0]
    return energy_span


rng = np.random.RandomState(193)
bad = n_cases = 0
for trial in range(400):
    n_steps = int(rng.randint(1, 9))
    with_ts = [bool(rng.randint(0, 2)) for _ in range(n_steps)]
    # energies drawn from a small pool: repeated values are frequent
    pool = [float(v) for v in rng.choice([-30000., -12000., -5000., 0., 4000., 9000., 15000., 22000.], 4)]
    names = ['I%d' % k for k in range(n_steps + 1)]
    sp, strs, states = {}, [], []
    coeff = {nm: int(rng.randint(1, 4)) for nm in names}
    for nm in names:
        sp[nm] = Sp(nm, rng.choice(pool) / coeff[nm], 0.)
    for k in range(n_steps):
        a, b = names[k], names[k + 1]
        left, right = '%d%s' % (coeff[a], a), '%d%s' % (coeff[b], b)
        if not states:
            states.append(([a], [coeff[a]]))
        if with_ts[k]:
            ts = 'TS%d' % k
            sp[ts] = Sp(ts, float(rng.choice(pool + [30000., 30000.])), 0.)
            strs.append('%s = %s = %s' % (left, ts, right))
            states.append(([ts], [1]))
        else:
            strs.append('%s = %s' % (left, right))
        states.append(([b], [coeff[b]]))
    rxns = [Reaction.from_string(s, sp) for s in strs]
    net = Network(rxns)
    full = [state_to_set([sp[n_] for n_ in ns], [float(v) for v in st]) for ns, st in states]
    assert all(node in net.graph.nodes for node in full), strs
    lo = int(rng.randint(0, len(full) - 1))
    paths = [full, full[::-1], full[lo:], full[:lo + 2]]
    for path in paths:
        for units in (None, 'kJ/mol', 'eV'):
            for T in (300., 1000.):
                got = net.get_E_span(path=list(path), units=units, T=T)
                want = ref_span(net, list(path), units=units, T=T)
                n_cases += 1
                if not (np.shape(got) == () and float(got) == float(want)):
                    bad += 1
                    if bad <= 5:
                        print('DIFFERENT steps=%s units=%s T=%g: span %r, original algorithm %r' % (strs, units, T, got, want))
print('%d cases compared, %d different' % (n_cases, bad))
sys.exit(1 if bad else 0)
