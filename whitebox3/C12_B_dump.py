"""Prints a digest (and optionally the full listing) of everything C12 observes, for the tree on PYTHONPATH:
convert_unit for every ordered pair of units (same type: values for a spread of numbers and arrays; different type:
the exception), every key of the R/kb/h/c tables, P0/T0/m_e/m_p/V0 for every unit, all spectroscopic helpers, the
element tables and get_molecular_weight.  Run it on two trees and compare the output: identical digests = identical
observable behaviour on this spread.  usage: python C12_B_dump.py [--full | --expect <sha256>]  (with --expect: exit 1 unless the digest is the given one)"""
import hashlib
import sys
import numpy as np
import pmutt
import pmutt.constants as k

out = []


def show(v):
    if isinstance(v, np.ndarray):
        return 'array(%s,%s,%s)' % (v.dtype, v.shape, [float(x).hex() if v.dtype.kind == 'f' else int(x) for x in v.ravel()])
    if isinstance(v, float):
        return '%s:%s' % (type(v).__name__, float(v).hex())
    return '%s:%r' % (type(v).__name__, v)


def rec(label, f, *a, **kw):
    try:
        out.append('%s = %s' % (label, show(f(*a, **kw))))
    except Exception as e:
        # an exception is recorded under the builtin class it is an instance of (what ``except`` clauses and
        # ``assertRaises`` of callers observe) and its message
        base = [c_.__name__ for c_ in type(e).__mro__ if c_.__module__ == 'builtins'][0]
        out.append('%s raises %s: %s' % (label, base, e))


units = list(k.type_dict) + ['particle', 'yr', 'no such unit']
nums = [None, 0., 1., -2.5, 298.15, 1e-23, 6.02e23, 7, np.array([1., 2.5, -3.]), np.array([300, 400]),
        np.array([[1., 2.], [3., 4.]]), np.float64(2.5), np.int64(3), np.array(4.5), np.array([], dtype=float),
        np.array([1.5, 2.5], dtype=np.float32)]
for a in units:
    for b in units:
        same = k.type_dict.get(a) is not None and k.type_dict.get(a) == k.type_dict.get(b)
        for x in (nums if same else nums[:3] + nums[8:9]):
            arg = None if x is None else (x.copy() if isinstance(x, np.ndarray) else x)
            rec('convert_unit(%s,%r,%r)' % (show(x) if x is not None else None, a, b), k.convert_unit, num=arg, initial=a, final=b)
            if isinstance(x, np.ndarray) and not np.array_equal(arg, x):
                out.append('   argument modified')
for fn, keys in (('R', ['J/mol/K', 'kJ/mol/K', 'L kPa/mol/K', 'cm3 kPa/mol/K', 'm3 Pa/mol/K', 'cm3 MPa/mol/K',
                        'm3 bar/mol/K', 'L bar/mol/K', 'L torr/mol/K', 'cal/mol/K', 'kcal/mol/K', 'L atm/mol/K',
                        'cm3 atm/mol/K', 'eV/K', 'Eh/K', 'Ha/K']),
                 ('kb', ['J/K', 'kJ/K', 'eV/K', 'cal/K', 'kcal/K', 'Eh/K', 'Ha/K']),
                 ('h', ['J s', 'kJ s', 'eV s', 'Eh s', 'Ha s']), ('c', ['m/s', 'cm/s'])):
    for key in keys + ['nope', 'J']:
        rec('%s(%r)' % (fn, key), getattr(k, fn), key)
        if fn == 'h':
            rec('h(%r,bar=True)' % key, k.h, key, bar=True)
for fn in ('P0', 'T0', 'm_e', 'm_p', 'V0'):
    for u in units:
        rec('%s(%r)' % (fn, u), getattr(k, fn), u)
rng = np.random.default_rng(12)
xs = [1., -1., 0.5, 1e-30, 1e30, 1234.56789, 298.15, 7, float(np.pi)] + list(10. ** rng.uniform(-30, 30, 60))
xs += [np.array([100., 1500.5, 3000.]), rng.uniform(-1e4, 1e4, (2, 3)), np.arange(1, 6)]
for name in sorted(n for n in dir(k) if '_to_' in n and not n.startswith('_')):
    for x in xs:
        rec('%s(%s)' % (name, show(x)), getattr(k, name), x)
for tab in ('atomic_weight', 'S_elements', 'symmetry_dict', 'prefixes', 'type_dict'):
    out.append('%s = %r' % (tab, list(getattr(k, tab).items())))
out.append('Na=%r e=%r' % (k.Na, k.e))
for comp in ({'C': 1, 'H': 4, 'O': 1}, {6: 2, 1: 6, 8: 1}, 'CH3OH', 'C10H22', 'Pt100H205C10', 'CH3CH2OH', 'HfO2',
             {'Uut': 2}, 'Uuo', {'Xx': 1}, {}):
    rec('get_molecular_weight(%r)' % (comp,), pmutt.get_molecular_weight, comp)
    if isinstance(comp, str):
        rec('parse_formula(%r)' % comp, pmutt.parse_formula, comp)
text = '\n'.join(out)
if '--full' in sys.argv:
    print(text)
digest = hashlib.sha256(text.encode()).hexdigest()
print('%d observations, sha256 %s' % (len(out), digest))
if '--expect' in sys.argv:
    want = sys.argv[sys.argv.index('--expect') + 1]
    if digest != want:
        print('DIFFERENT from the original tree (%s)' % want)
        sys.exit(1)
