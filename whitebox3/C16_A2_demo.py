"""C16_A2 demo: a pressure scan at one temperature on one Equilibrium object.

Takes pMuTT from PYTHONPATH.  For every (T, P) the returned composition must be the Gibbs minimum AT THAT PRESSURE: for
the species with x > 1e-6 the chemical potentials mu_i = g_i(T) + ln(x_i P 1.01325 / n) must lie in the span of the
element columns (i.e. deltaG/RT + ln Q = 0 for every reaction among them).  WRONG (exit 1): the distance is larger than
1e-3 and nothing was signalled."""
import os
import sys
import warnings

import numpy as np

import pmutt
from pmutt.equilibrium import Equilibrium
from pmutt.io.thermdat import read_thermdat

THERMDAT = os.path.join(os.path.dirname(pmutt.__file__), 'tests', 'equilibrium', 'thermdat_equilibrium_unittest.txt')


def residual(eq, r, T, P):
    x = r.moles
    n = x.sum()
    g = np.array([eq.model[s].get_GoRT(T=T) for s in eq.species])
    keep = x / n > 1e-6
    mu = g[keep] + np.log(x[keep] * P * 1.01325 / n)
    A = eq.mol_elem[keep]
    lam = np.linalg.lstsq(A, mu, rcond=None)[0]
    return np.abs(mu - A.dot(lam)).max()


def main():
    model = read_thermdat(THERMDAT, 'dict')
    eq = Equilibrium(model, {'CH4': 1.0, 'H2O': 2.0, 'CO': 0.0, 'H2': 0.0, 'CO2': 0.0})     # steam reforming
    wrong = 0
    for T, P in [(1000., 1.), (1000., 10.), (1000., 50.), (1000., 0.05), (800., 50.), (800., 1.)]:
        with warnings.catch_warnings(record=True) as w:
            warnings.simplefilter('always')
            with np.errstate(all='ignore'):
                r = eq.get_net_comp(T=T, P=P)
        signalled = any('did not converge' in str(x.message) for x in w)
        d = residual(eq, r, T, P)
        bad = d > 1e-3 and not signalled
        wrong += bad
        print('%sT=%g K P=%g atm: moles CH4 %.5f H2O %.5f CO %.5f H2 %.5f CO2 %.5f, result says P=%g; max |deltaG/RT + ln Q| '
              '= %.2g, signalled=%s' % ('WRONG: ' if bad else '', T, P, *r.moles, r.P, d, signalled))
    print('%d of 6 compositions are not the equilibrium at the pressure asked for' % wrong)
    return 1 if wrong else 0


if __name__ == '__main__':
    sys.exit(main())
