"""C11_A5: DebyeVib keeps its quadratures in self.__dict__['_integrals'] (written through __dict__); the generic
to_dict writes the memo and the constructor refuses it.  A history: the object is used, then round-tripped.
Exit 1 / WRONG when the used object cannot be round-tripped, exit 0 otherwise."""
import json
import sys

from pmutt.io.json import pmuttEncoder, json_to_pmutt
from pmutt.statmech import StatMech, EmptyMode
from pmutt.statmech.vib import DebyeVib
from pmutt.statmech.elec import GroundStateElec

bad = []
fresh = DebyeVib(debye_temperature=215., interaction_energy=1.)
dec = json.loads(json.dumps(fresh, cls=pmuttEncoder), object_hook=json_to_pmutt)
print('fresh DebyeVib round-trips: %s' % (type(dec) is DebyeVib))

used = DebyeVib(debye_temperature=215., interaction_energy=1.)
ref = used.get_HoRT(T=300.)
gold = StatMech(name='Au(bulk)', vib_model=used, elec_model=GroundStateElec(potentialenergy=-3.27),
                elements={'Au': 1})
for label, obj, get in (('DebyeVib after get_HoRT(T=300)', used, lambda o: o.get_HoRT(T=300.)),
                        ('StatMech holding it', gold, lambda o: o.vib_model.get_HoRT(T=300.))):
    try:
        d = json.loads(json.dumps(obj, cls=pmuttEncoder), object_hook=json_to_pmutt)
    except TypeError as e:
        print('%s: round trip raises TypeError: %s' % (label, e))
        bad.append(label)
        continue
    print('%s: round-trips, HoRT(300 K) %r -> %r' % (label, ref, get(d)))
    if get(d) != ref:
        bad.append(label)
if bad:
    print('WRONG: an object that has been used cannot be decoded any more: %s' % '; '.join(bad))
    sys.exit(1)
print('OK: a used DebyeVib round-trips')
