"""C04_A4: get_delta_H / get_delta_G of a reaction no longer accept an array of temperatures although the
dimensionless twins do (the value with units must be the dimensionless value times R*T, element by element).
Run with PYTHONPATH=<tree>; exit 1 + WRONG on the changed tree, exit 0 on the pristine tree."""
import sys
import warnings
import numpy as np
warnings.simplefilter('ignore')
from pmutt import constants as c
from pmutt.empirical.nasa import Nasa
from pmutt.reaction import Reaction, ChemkinReaction

H2 = Nasa(name='H2', elements={'H': 2}, phase='G', T_low=200., T_mid=1000., T_high=3500.,
          a_low=[2.34433112E+00, 7.98052075E-03, -1.94781510E-05, 2.01572094E-08, -7.37611761E-12, -9.17935173E+02, 6.83010238E-01],
          a_high=[3.33727920E+00, -4.94024731E-05, 4.99456778E-07, -1.79566394E-10, 2.00255376E-14, -9.50158922E+02, -3.20502331E+00])
O2 = Nasa(name='O2', elements={'O': 2}, phase='G', T_low=200., T_mid=1000., T_high=3500.,
          a_low=[3.78245636E+00, -2.99673416E-03, 9.84730201E-06, -9.68129509E-09, 3.24372837E-12, -1.06394356E+03, 3.65767573E+00],
          a_high=[3.28253784E+00, 1.48308754E-03, -7.57966669E-07, 2.09470555E-10, -2.16717794E-14, -1.08845772E+03, 5.45323129E+00])
H2O = Nasa(name='H2O', elements={'H': 2, 'O': 1}, phase='G', T_low=200., T_mid=1000., T_high=3500.,
           a_low=[4.19864056E+00, -2.03643410E-03, 6.52040211E-06, -5.48797062E-09, 1.77197817E-12, -3.02937267E+04, -8.49032208E-01],
           a_high=[3.03399249E+00, 2.17691804E-03, -1.64072518E-07, -9.70419870E-11, 1.68200992E-14, -3.00042971E+04, 4.96677010E+00])
sides = dict(reactants=[H2, O2], reactants_stoich=[1., 0.5], products=[H2O], products_stoich=[1.])
bad = n = 0
for cls in (Reaction, ChemkinReaction):
    rxn = cls(**sides)
    for T in (500., np.array([300., 600., 1200.]), [400., 800.]):
        for name, twin in (('get_delta_H', 'get_delta_HoRT'), ('get_delta_G', 'get_delta_GoRT'),
                           ('get_delta_S', 'get_delta_SoR')):
            for rev in (False, True):
                energy = name != 'get_delta_S'
                kw = {'P': 2.} if name != 'get_delta_H' else {}
                want = getattr(rxn, twin)(T=T, rev=rev, **kw) * c.R('kJ/mol/K') * (np.array(T) if energy else 1.)
                n += 1
                try:
                    got = getattr(rxn, name)(units='kJ/mol' if energy else 'kJ/mol/K', T=T, rev=rev, **kw)
                    ok = np.shape(got) == np.shape(want) and np.allclose(got, want, rtol=1e-12, atol=0.)
                except Exception as e:       # noqa
                    got, ok = '%s: %s' % (type(e).__name__, e), False
                if not ok:
                    bad += 1
                    if not rev:
                        print('WRONG %s.%s(units, T=%s) -> %s ; %s * R * T = %s' % (cls.__name__, name, T, got, twin, want))
print('%d of %d comparisons differ' % (bad, n))
sys.exit(1 if bad else 0)
