"""C11_A2: Nasa9.to_dict hands json a map object instead of a list.
Exit 1 / WRONG when a Nasa9 cannot be encoded, exit 0 when it round-trips.  Tree taken from PYTHONPATH."""
import json
import sys

import numpy as np

from pmutt.io.json import pmuttEncoder, json_to_pmutt
from pmutt.empirical.nasa import Nasa9, SingleNasa9
from pmutt.reaction import Reaction

a1 = np.array([-3.94796083e+04, 5.75573102e+02, 9.31782653e-01, 7.22271286e-03, -7.34255737e-06, 4.95504349e-09,
               -1.33693325e-12, -3.30397431e+04, 1.72420539e+01])
a2 = np.array([1.03497210e+06, -2.41269856e+03, 4.64611078e+00, 2.29199831e-03, -6.83683048e-07, 9.42646893e-11,
               -4.82238053e-15, -1.38428651e+04, -7.97814851e+00])
h2o = Nasa9(name='H2O', elements={'H': 2, 'O': 1}, phase='g',
            nasas=[SingleNasa9(T_low=200., T_high=1000., a=a1), SingleNasa9(T_low=1000., T_high=6000., a=a2)])
bad = []
for label, obj in (('Nasa9', h2o),
                   ('Reaction holding a Nasa9', Reaction(reactants=[h2o], reactants_stoich=[1.], products=[h2o],
                                                         products_stoich=[1.]))):
    try:
        text = json.dumps(obj, cls=pmuttEncoder)
    except TypeError as e:
        print('%s: json.dumps raises TypeError: %s' % (label, e))
        bad.append(label)
        continue
    dec = json.loads(text, object_hook=json_to_pmutt)
    sp = dec if label == 'Nasa9' else dec.reactants[0]
    print('%s: encodes; decoded %s, CpoR(500 K) %r -> %r, second text identical: %s'
          % (label, type(dec).__name__, h2o.get_CpoR(T=500.), sp.get_CpoR(T=500.),
             json.dumps(dec, cls=pmuttEncoder) == text))
    if type(dec) is not type(obj) or h2o.get_CpoR(T=500.) != sp.get_CpoR(T=500.):
        bad.append(label)
if bad:
    print('WRONG: cannot be written with the library\'s encoder: %s' % ', '.join(bad))
    sys.exit(1)
print('OK: Nasa9 round-trips')
