"""C14_A1: _parse_reaction trims the delimiters it is given ("Leading and trailing spaces will be trimmed").
A blank-padded '.' (' . ', the RING delimiter written with blanks so that it cannot be taken for a decimal point)
becomes '.', which cuts the printed decimal coefficients in two.
exit 1 / WRONG with the change, exit 0 without. The tree is taken from PYTHONPATH."""
import sys
from pmutt.reaction import Reaction, ChemkinReaction


class Sp:
    def __init__(self, name):
        self.name = name
        self.phase = 'G'

    def __repr__(self):
        return self.name


sp = {n: Sp(n) for n in ('H2', 'O2', 'H2O', 'H2O_TS', 'CH3*', 'A(g)')}
bad = 0


def roundtrip(cls, rxn, sd, rd, **kw):
    global bad
    text = rxn.to_string(species_delimiter=sd, reaction_delimiter=rd, **kw)
    want = (rxn.reactants, rxn.reactants_stoich, rxn.products, rxn.products_stoich, rxn.transition_state)
    try:
        back = cls.from_string(text, sp, species_delimiter=sd, reaction_delimiter=rd)
        got = (back.reactants, back.reactants_stoich, back.products, back.products_stoich, back.transition_state)
    except Exception as e:
        got = '%s: %s' % (type(e).__name__, e)
    ok = got == want
    print('%-5s %r parsed with %r / %r -> %s' % ('ok' if ok else 'WRONG', text, sd, rd, got))
    bad += not ok


r1 = Reaction([sp['H2'], sp['O2']], [1., 0.5], [sp['H2O']], [1.], [sp['H2O_TS']], [1.])
r2 = Reaction([sp['CH3*'], sp['A(g)']], [2.5, 12.25], [sp['H2O'], sp['H2']], [0.75, 3.], None, None)
for rxn in (r1, r2):
    roundtrip(Reaction, rxn, ' . ', ' >> ')
    roundtrip(Reaction, rxn, ' . ', '>>', stoich_space=True)
    roundtrip(Reaction, rxn, ' . ', ' = ', stoich_format='.3f')
    # controls: correct with and without the change
    roundtrip(Reaction, rxn, ' + ', ' <=> ')
    roundtrip(Reaction, rxn, '+', '=')
roundtrip(ChemkinReaction, ChemkinReaction(reactants=[sp['H2'], sp['O2']], reactants_stoich=[1., 0.5],
                                           products=[sp['H2O']], products_stoich=[1.]), ' . ', ' >> ')
# a string as a user writes it
try:
    r = Reaction.from_string('0.5 H2 . 0.25 O2 >> 0.5 H2O', sp, species_delimiter=' . ', reaction_delimiter=' >> ')
    got = (r.reactants, r.reactants_stoich, r.products, r.products_stoich)
except Exception as e:
    got = '%s: %s' % (type(e).__name__, e)
ok = got == ([sp['H2'], sp['O2']], [0.5, 0.25], [sp['H2O']], [0.5])
print('%-5s %r -> %s' % ('ok' if ok else 'WRONG', '0.5 H2 . 0.25 O2 >> 0.5 H2O', got))
bad += not ok
sys.exit(1 if bad else 0)
