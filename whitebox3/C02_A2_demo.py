"""C02_A2 demo: a NASA-9 species must evaluate T with the segment whose bounds (as the user gave them) contain T and must
refuse a T outside every segment.  exit 1 / WRONG with the change, exit 0 without."""
import sys
import numpy as np
from pmutt.empirical.nasa import Nasa9, SingleNasa9, get_nasa9_CpoR, get_nasa9_HoRT, get_nasa9_SoR

# CO2, NASA-9 (McBride 2002), break moved to 1000.0004 K, range 200.0004 - 6000 K
a0 = np.array([4.943650540E+04, -6.264116010E+02, 5.301725240E+00, 2.503813816E-03, -2.127308728E-07,
               -7.689988780E-10, 2.849677801E-13, -4.528198460E+04, -7.048279440E+00])
a1 = np.array([1.176962419E+05, -1.788791477E+03, 8.291523190E+00, -9.223156780E-05, 4.863676880E-09,
               -1.891053312E-12, 6.330036590E-16, -3.908350590E+04, -2.652669281E+01])
# make the two segments visibly different at the break (any coefficient sets are allowed by the property)
a1 = a1 * 1.01
T_low, T_mid, T_high = 200.0004, 1000.0004, 6000.
sp = Nasa9(name='CO2', nasas=[SingleNasa9(T_low=T_low, T_high=T_mid, a=a0), SingleNasa9(T_low=T_mid, T_high=T_high, a=a1)])
bad = False
T = 1000.0002          # T_low < T < T_mid: inside the first segment only
for q, ev in (('get_CpoR', get_nasa9_CpoR), ('get_HoRT', get_nasa9_HoRT), ('get_SoR', get_nasa9_SoR)):
    got = getattr(sp, q)(T=T)
    want, other = float(ev(a=a0, T=T)), float(ev(a=a1, T=T))
    ok = abs(got - want) <= 1e-12 * abs(want)
    print('%s(T=%.4f) = %.9f   segment 200.0004-1000.0004 K gives %.9f, segment 1000.0004-6000 K gives %.9f   %s'
          % (q, T, got, want, other, 'ok' if ok else 'WRONG (segment whose bounds do not contain T)'))
    bad |= not ok
arr = np.asarray(sp.get_CpoR(T=np.array([999., 1000.0002, 1001.])))
want = np.array([float(get_nasa9_CpoR(a=a0, T=999.)), float(get_nasa9_CpoR(a=a0, T=1000.0002)), float(get_nasa9_CpoR(a=a1, T=1001.))])
ok = np.allclose(arr, want, rtol=1e-12, atol=0)
print('get_CpoR([999, 1000.0002, 1001]) =', arr, 'expected', want, 'ok' if ok else 'WRONG')
bad |= not ok
T_out = 200.0002       # below T_low = 200.0004 K: outside every segment
try:
    v = sp.get_HoRT(T=T_out)
    print('get_HoRT(T=%.4f) = %.6f   WRONG: outside every segment (T_low = %.4f K), must be refused' % (T_out, v, T_low))
    bad = True
except ValueError as e:
    print('get_HoRT(T=%.4f) refused: ok' % T_out)
print('bounds the species reports:', [(s.T_low, s.T_high) for s in sp.nasas])
sys.exit(1 if bad else 0)
