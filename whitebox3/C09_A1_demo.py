"""C09 / A1: one BEP relation serves several reactions (that is what a BEP is for; pmutt.omkm.reaction.BEP even keeps
the lists synthesis_reactions / cleavage_reactions).  For every reaction that uses it, forward minus reverse barrier
must be the reaction enthalpy OF THAT REACTION, and the barrier taken from the relation must be the one obtained
through the reaction's transition-state enthalpy.
Exit 1 / WRONG when a reaction gets the barrier of another reaction that was evaluated before at the same conditions."""
import sys
import numpy as np
from pmutt.statmech import StatMech, presets
from pmutt.reaction import Reaction
from pmutt.reaction.bep import BEP
from pmutt.omkm.reaction import BEP as OmkmBEP


def adsorbate(name, E, *wavenumbers):
    return StatMech(name=name, potentialenergy=E, vib_wavenumbers=list(wavenumbers), **presets['harmonic'])


bad = 0
for cls in (BEP, OmkmBEP):
    for desc in ('delta_H', 'rev_delta_H', 'delta_E', 'rev_delta_E'):
        bep = cls(slope=0.4, intercept=20., name='bep', descriptor=desc)
        sp = {'A': adsorbate('A', -1.2, 450., 1200., 3100.), 'B': adsorbate('B', -0.4, 300., 900.),
              'C': adsorbate('C', -1.1, 250., 700., 1500., 2900.), 'D': adsorbate('D', -0.9, 350., 800.),
              'E': adsorbate('E', -0.35, 500., 1700.), 'bep': bep}
        # three steps of one mechanism, all described by the same linear relation
        steps = [Reaction.from_string(s, sp) for s in ('A + B = bep = 2C', 'A + D = bep = C + E', 'C + E = bep = B + D')]
        for T in (400., 650.):
            for rxn in steps:
                q = 'H' if desc.endswith('H') else 'E'
                want = getattr(rxn, 'get_delta_' + q)(units='kcal/mol', T=T)
                Ef = bep.get_E_act(units='kcal/mol', reaction=rxn, rev=False, T=T)
                Er = bep.get_E_act(units='kcal/mol', reaction=rxn, rev=True, T=T)
                via = rxn.get_delta_H(units='kcal/mol', T=T, act=True)
                ok = np.isclose(Ef - Er, want, rtol=1e-10, atol=1e-10) and np.isclose(via, Ef, rtol=1e-10, atol=1e-10)
                bad += not ok
                print('%-8s %-11s T=%g %-22s E_fwd - E_rev = %10.5f kcal/mol, delta %s of this reaction = %10.5f; '
                      'E_fwd = %9.5f, through the TS enthalpy %9.5f%s'
                      % (cls.__module__.split('.')[1], desc, T, rxn.to_string(), Ef - Er, q, want, Ef, via,
                         '' if ok else '   <-- WRONG'))
if bad:
    print('WRONG: %d reactions got the barrier of another reaction that shares the BEP relation' % bad)
    sys.exit(1)
print('ok')
