"""C09 / A4: get_A of the reactions a user actually has: parsed from a string (`from_string` stores the stoichiometric
coefficients as floats: '2RU(S)' -> 2.0) or built with float coefficients.  Every surface step must get
A = (kB/h) / (effective site density)^(n_surf - 1).
Exit 1 / WRONG when get_A produces no factor (raises) or another value."""
import sys
import numpy as np
from pmutt import constants as c
from pmutt.empirical.nasa import Nasa
from pmutt.chemkin import CatSite
from pmutt.reaction import ChemkinReaction
from pmutt.omkm.reaction import SurfaceReaction
from pmutt.omkm.phase import InteractingInterface
from pmutt.cantera.phase import IdealGas


def nasa(name, H, S, phase='G', cat_site=None, cp=3.5):
    a = np.array([cp, 0., 0., 0., 0., H, S])
    return Nasa(name=name, T_low=100., T_mid=1000., T_high=3000., a_low=a, a_high=a, phase=phase, cat_site=cat_site)


def chemkin_species():
    site = CatSite(name='RU(S)', site_density=2.5e-9, density=12.1, bulk_specie='RU(B)')
    return {'H2': nasa('H2', 0., 10.), 'RU(S)': nasa('RU(S)', 0., 0., 'S', site, cp=0.),
            'H(S)': nasa('H(S)', -3000., 1., 'S', site, cp=1.), 'O(S)': nasa('O(S)', -9000., 2., 'S', site, cp=1.5),
            'OH(S)': nasa('OH(S)', -11000., 3., 'S', site, cp=2.)}


def omkm_species():
    sp = chemkin_species()
    gas = IdealGas(name='gas', species=[sp['H2']])
    surf = InteractingInterface(name='terrace', species=[v for k, v in sp.items() if k != 'H2'], site_density=2.5e-9)
    for k, v in sp.items():
        v.phase = gas if k == 'H2' else surf
    return sp


T = 500.
kb_h = c.kb('J/K') / c.h('J s')
molec = c.convert_unit(initial='mol', final='molec')
bad = 0
for step, n_surf in (('H2 + 2RU(S) = 2H(S)', 2), ('H(S) + O(S) = OH(S) + RU(S)', 2), ('2H(S) + O(S) = H2 + O(S) + 2RU(S)', 3)):
    for cname, make, conv in (('ChemkinReaction', lambda: ChemkinReaction.from_string(step, chemkin_species()), 1.),
                              ('SurfaceReaction', lambda: SurfaceReaction.from_string(step, omkm_species()), molec)):
        rxn = make()
        for op, eff in (('sum', n_surf * 2.5e-9), ('min', 2.5e-9)):
            want = kb_h / (eff * conv) ** (n_surf - 1)
            try:
                got = rxn.get_A(T=T, sden_operation=op)
                ok = bool(np.isclose(got, want, rtol=1e-10))
                txt = '%.6e' % got
            except Exception as e:                              # no factor at all
                ok, txt = False, 'raises %s: %s' % (type(e).__name__, e)
            bad += not ok
            print('%-16s %-36s coefficients %s op=%-4s get_A = %s   expected %.6e%s'
                  % (cname, step, rxn.reactants_stoich, op, txt, want, '' if ok else '   <-- WRONG'))
if bad:
    print('WRONG: %d pre-exponential factors are not (kB/h) / site density^(n_surf - 1)' % bad)
    sys.exit(1)
print('ok')
