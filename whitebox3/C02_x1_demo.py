"""C02_x1 (leftover of whitebox/C02 #3, the remark "np.array(T) is missed as well"): the result buffer of Nasa.get_HoRT is a
copy of the caller's temperature container; with integer temperatures the values are truncated.
exit 1 / WRONG with the change, exit 0 without."""
import sys
import numpy as np
from pmutt.empirical.nasa import Nasa

a_low = np.array([4.19864056E+00, -2.03643410E-03, 6.52040211E-06, -5.48797062E-09, 1.77197817E-12, -3.02937267E+04, -8.49032208E-01])
a_high = np.array([3.03399249E+00, 2.17691804E-03, -1.64072518E-07, -9.70419870E-11, 1.68200992E-14, -3.00042971E+04, 4.96677010E+00])
sp = Nasa(name='H2O', T_low=200., T_mid=1000., T_high=3500., a_low=a_low, a_high=a_high)
T = np.arange(300, 1500, 400)
bad = False
for q in ('get_HoRT', 'get_GoRT'):
    arr = np.asarray(getattr(sp, q)(T=T), dtype=float)
    each = np.array([getattr(sp, q)(T=float(t)) for t in T])
    ok = np.allclose(arr, each, rtol=1e-12, atol=0)
    print(q, 'array', arr, 'one by one', each, 'ok' if ok else 'WRONG')
    bad |= not ok
sys.exit(1 if bad else 0)
