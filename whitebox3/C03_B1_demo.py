"""C03_B1: Shomate._fit_CpoR hands curve_fit t = T/1000 and a model function of t.  Equivalence check: the Cp fit of
the tree under PYTHONPATH is compared, coefficient by coefficient with ==, with the ORIGINAL code (embedded below,
copied from f5552c6) on a spread of inputs; the whole Shomate.from_data result likewise.  Exit 0 = bit-identical."""
import sys
import warnings
import numpy as np
from scipy.optimize import curve_fit
from pmutt import constants as c
from pmutt.statmech import StatMech, presets
from pmutt.empirical import shomate as sh

warnings.simplefilter('ignore')


def orig_fit_CpoR(T, CpoR, units):
    if all([np.isclose(x, 0.) for x in CpoR]) \
       or any([np.isnan(x) for x in CpoR]):
        return np.zeros(8)
    else:
        adj_shomate_CpoR = lambda T, A, B, C, D, E: sh._shomate_CpoR(
            T=T, A=A, B=B, C=C, D=D, E=E, units=units)
        [a, _] = curve_fit(adj_shomate_CpoR, T, np.array(CpoR))
        a = np.append(a, [0., 0., 0.])
        return a


def orig_from_data(T, CpoR, T_ref, HoRT_ref, SoR_ref, units):
    a = orig_fit_CpoR(T=T, CpoR=CpoR, units=units)
    a = sh._fit_HoRT(T_ref=T_ref, HoRT_ref=HoRT_ref, a=a, units=units)
    a = sh._fit_SoR(T_ref=T_ref, SoR_ref=SoR_ref, a=a, units=units)
    return min(T), max(T), a


rng = np.random.RandomState(3)
UNITS = ('J/mol/K', 'kJ/mol/K', 'cal/mol/K', 'kcal/mol/K', 'eV/K', 'Eh/K', 'L atm/mol/K', 'cm3 kPa/mol/K')
n_cases = n_diff = 0
for k in range(160):
    T_low = rng.uniform(100., 1500.)
    T_high = rng.uniform(T_low + 200., 3000.)
    n_T = rng.randint(15, 201)
    T = np.linspace(T_low, T_high, n_T)
    kind = k % 8
    if kind in (0, 1, 2):
        wn = rng.uniform(10., 4500., size=rng.randint(1, 13))
        CpoR = np.array([StatMech(vib_wavenumbers=wn, potentialenergy=-1., **presets['harmonic']).get_CpoR(T=t) for t in T])
    elif kind == 3:
        a_gen = np.append(rng.uniform(-30., 60., size=5) * [1., 1., 1., 0.3, 0.05], [0., 0., 0.])
        CpoR = sh.get_shomate_CpoR(a=a_gen, T=T, units='J/mol/K')
    elif kind == 4:
        CpoR = np.full(n_T, rng.uniform(1., 12.))
    elif kind == 5:
        CpoR = np.zeros(n_T)
    elif kind == 6:
        CpoR = 3.5 + 1e-3 * T + rng.normal(scale=0.05, size=n_T)
    else:
        CpoR = np.array([StatMech(vib_wavenumbers=[rng.uniform(1500., 4000.)], potentialenergy=0.,
                                  **presets['harmonic']).get_CpoR(T=t) for t in T])
        CpoR[0] = 0.                                          # frozen out at the cold end
    forms = [(T, CpoR)]
    if k % 5 == 0:
        forms.append((list(T), list(CpoR)))                   # lists are accepted by the original too
    if k % 7 == 0:
        Ti = np.arange(300, 300 + 25 * n_T, 25)               # integer temperatures
        forms.append((Ti, CpoR))
    for T_in, Cp_in in forms:
        units = UNITS[rng.randint(len(UNITS))]
        T_ref = rng.uniform(min(T_in), max(T_in))
        H_ref, S_ref = rng.uniform(-200., 50.), rng.uniform(0., 40.)
        want = orig_from_data(T_in, Cp_in, T_ref, H_ref, S_ref, units)
        sp = sh.Shomate.from_data(name='sp', T=T_in, CpoR=Cp_in, T_ref=T_ref, HoRT_ref=H_ref, SoR_ref=S_ref, units=units)
        got_fit = sh._fit_CpoR(T=T_in, CpoR=Cp_in, units=units)
        same = (np.array_equal(got_fit, orig_fit_CpoR(T_in, Cp_in, units)) and np.array_equal(sp.a, want[2])
                and sp.T_low == want[0] and sp.T_high == want[1] and sp.units == units)
        n_cases += 1
        if not same:
            n_diff += 1
            print('DIFFERENT: case %d units=%s\n  tree     %r\n  original %r' % (k, units, sp.a, want[2]))
print('%d cases, %d differences' % (n_cases, n_diff))
sys.exit(1 if n_diff else 0)
