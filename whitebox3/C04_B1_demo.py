"""C04_B1: the table of atomic weights is written once (by atomic number) and the entries by element symbol are
derived from it.  Equivalence: the table has the same keys in the same order, the same values and the same value
types as before; molar masses and per-mass quantities are bit-identical.  The digest below was recorded on the
pristine tree (f5552c6).  Run with PYTHONPATH=<tree>; exit 0 on both trees."""
import hashlib
import sys
import warnings
import numpy as np
warnings.simplefilter('ignore')
import pmutt
from pmutt import constants as c
from pmutt.empirical.nasa import Nasa
from pmutt.statmech import StatMech, presets

EXPECTED = 'c037ebb1dc9a71a8'
out = []
aw = c.atomic_weight
out.append(repr([(k, type(k).__name__, v.hex() if isinstance(v, float) else v, type(v).__name__) for k, v in aw.items()]))
out.append(repr(sorted(c.S_elements.items(), key=repr)))
comps = [{'H': 2, 'O': 1}, {'C': 1, 'H': 4}, {1: 2, 8: 1}, {'Pt': 1, 'Cl': 2, 'N': 2, 'H': 6}, {'Pm': 1, 61: 2},
         {'Ca': 1, 'Ti': 1, 'O': 3}, {'U': 1, 'O': 2.5}, {'Uuo': 1, 118: 1}, 'CH3CH2CH3', 'CaTiO3', 'PmCl3']
for comp in comps:
    mw = pmutt.get_molecular_weight(comp)
    out.append('%r %s %s' % (comp, type(mw).__name__, float(mw).hex()))
for bad in ({'Xx': 1}, {'h': 2}, {0: 1}, {'hydrogen': 2}):
    try:
        pmutt.get_molecular_weight(bad)
        out.append('no error %r' % bad)
    except Exception as e:      # noqa
        out.append('%r %s %r' % (bad, type(e).__name__, e.args))
H2O = Nasa(name='H2O', elements={'H': 2, 'O': 1}, phase='G', T_low=200., T_mid=1000., T_high=3500.,
           a_low=[4.19864056E+00, -2.03643410E-03, 6.52040211E-06, -5.48797062E-09, 1.77197817E-12, -3.02937267E+04, -8.49032208E-01],
           a_high=[3.03399249E+00, 2.17691804E-03, -1.64072518E-07, -9.70419870E-11, 1.68200992E-14, -3.00042971E+04, 4.96677010E+00])
ads = StatMech(name='PmO*', elements={'Pm': 1, 'O': 1}, potentialenergy=-3.2, vib_wavenumbers=[800., 300., 250.],
               **presets['harmonic'])
for T in (300., 1500., np.array([250., 999., 1000., 2000.])):
    for u in ('J/g/K', 'kJ/kg/K', 'cal/g/K', 'J/mol/K'):
        out.append(np.asarray(H2O.get_Cp(T=T, units=u)).tobytes().hex())
        out.append(np.asarray(H2O.get_S(T=T, units=u, S_elements=True)).tobytes().hex())
    for u in ('kJ/kg', 'J/g', 'kcal/kg', 'kJ/mol'):
        out.append(np.asarray(H2O.get_G(T=T, units=u)).tobytes().hex())
for T in (300., 700.):
    for u in ('J/g', 'kJ/kg', 'eV'):
        out.append(float(ads.get_H(units=u, T=T)).hex())
        out.append(float(ads.get_G(units=u, T=T)).hex())
digest = hashlib.sha256('\n'.join(out).encode()).hexdigest()[:16]
print('digest', digest, '(%d values)' % len(out))
if EXPECTED != 'PLACEHOLDER' and digest != EXPECTED:
    print('DIFFERENT from the pristine tree (%s)' % EXPECTED)
    sys.exit(1)
sys.exit(0)
