"""C04_A5: ConstantMode gets dimensional getters of its own (get_U/H/F/G through convert_unit) that are not the
dimensionless getters times R*T: wrong by 8e-5 (relative) in the molar units and an exception in the per-molecule
and L-atm units of the gas-constant table.  Run with PYTHONPATH=<tree>; exit 1 + WRONG on the changed tree, exit 0 on
the pristine tree."""
import sys
import warnings
import numpy as np
warnings.simplefilter('ignore')
from pmutt import constants as c
from pmutt.statmech import ConstantMode, StatMech

mode = ConstantMode(U=-1.50, H=-1.40, F=-2.00, G=-1.90, S=1.0e-3, Cv=2.0e-4, Cp=3.0e-4)
bad = n = 0
for q in ('U', 'H', 'F', 'G'):
    for T in (298.15, 500., 1000.):
        for units in ('kJ/mol', 'J/mol', 'kcal/mol', 'cal/mol', 'eV', 'Ha', 'L atm/mol', 'cm3 kPa/mol'):
            want = getattr(mode, 'get_%soRT' % q)(T=T) * c.R(units + '/K') * T
            n += 1
            try:
                got = getattr(mode, 'get_' + q)(units=units, T=T)
                ok = np.isclose(got, want, rtol=1e-9, atol=0.)
            except Exception as e:      # noqa
                got, ok = '%s: %s' % (type(e).__name__, str(e)[:60]), False
            if not ok:
                bad += 1
                if T == 500. and q == 'H':
                    print('WRONG ConstantMode.get_%s(%r, T=%g) = %s ; get_%soRT * R * T = %.8f' % (q, units, T, got, q, want))
# the same mode inside a species: the species' getter goes through get_HoRT and stays right; the two levels disagree
sp = StatMech(name='X', elec_model=mode)
a = sp.get_H(units='kJ/mol', T=500.)
b = mode.get_H(units='kJ/mol', T=500.)
print('StatMech(elec_model=mode).get_H = %.6f, mode.get_H = %.6f kJ/mol' % (a, b))
print('%d of %d comparisons differ' % (bad, n))
sys.exit(1 if bad else 0)
