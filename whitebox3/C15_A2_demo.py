"""C15_A2: empty cells are recognised with `cell_data is None` instead of pd.isnull(cell_data).  pandas never hands an
empty cell over as None - it is float('nan') - so every empty cell now lands in the record (ordinary keys with value
nan, nan inside the wavenumber list and the composition, NASA arrays of a row that has none).
exit 1 / WRONG with the change, exit 0 without.  Tree from PYTHONPATH."""
import math
import os
import sys
import tempfile
import warnings

import openpyxl

from pmutt.io.excel import read_excel

warnings.simplefilter('ignore')
header = ['name', 'phase', 'element.H', 'element.O', 'potentialenergy', 'vib_wavenumber', 'vib_wavenumber',
          'vib_wavenumber', 'list.sites', 'dict.misc.alpha']
comment = ['species', '', '', '', 'eV', 'cm-1', 'cm-1', 'cm-1', '', '']
rows = [['H2O', 'G', 2, 1, -14.22, 3657.05, 1594.75, 3755.93, 'top', 1.5],
        ['O2', None, None, 2, -9.86, None, 1580.19, None, None, None],
        ['Pt(S)', 'S', None, None, None, None, None, None, None, None]]
expected = [{'name': 'H2O', 'phase': 'G', 'elements': {'H': 2, 'O': 1}, 'potentialenergy': -14.22,
             'vib_wavenumbers': [3657.05, 1594.75, 3755.93], 'sites': ['top'], 'misc': {'alpha': 1.5}},
            {'name': 'O2', 'elements': {'O': 2}, 'potentialenergy': -9.86, 'vib_wavenumbers': [1580.19]},
            {'name': 'Pt(S)', 'phase': 'S'}]


def has_nan(x):
    if isinstance(x, dict):
        return any(has_nan(v) for v in x.values())
    if isinstance(x, (list, tuple)):
        return any(has_nan(v) for v in x)
    return isinstance(x, float) and math.isnan(x)


with tempfile.TemporaryDirectory() as tmp:
    path = os.path.join(tmp, 'book.xlsx')
    wb = openpyxl.Workbook()
    ws = wb.active
    for r in [header, comment] + rows:
        ws.append(r)
    wb.save(path)
    got = read_excel(path)
ok = got == expected and not any(has_nan(g) for g in got)
for g, e in zip(got, expected):
    print('got     ', g)
    print('expected', e)
print('OK' if ok else 'WRONG: empty cells appear in the records (nan values)')
sys.exit(0 if ok else 1)
