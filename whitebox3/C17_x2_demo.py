"""C17_A1: insert() rebinds intervals/slopes to tuples; a later pop() (documented edit) fails.
exit 1 + WRONG with the change, exit 0 on the unchanged tree (tree taken from PYTHONPATH)."""
import sys
from pmutt.mixture.cov import PiecewiseCovEffect

bad = []
R = 1.9872036e-3

m = PiecewiseCovEffect('A', 'B', [0., 0.5], [1., 3.])       # 2 initial breakpoints
m.insert(0.25, 2.)                                          # op 1: insert between
u = m.get_UoRT(x=0.3, T=400.) * R * 400.
print('after insert(0.25, 2.): intervals=%r slopes=%r U(0.3)=%.6f (right 0.35)' % (m.intervals, m.slopes, u))
if not isinstance(m.intervals, list) or not isinstance(m.slopes, list):
    bad.append('WRONG: after insert the breakpoint/slope lists are %s/%s, not lists'
               % (type(m.intervals).__name__, type(m.slopes).__name__))
try:
    m.pop(1)                                                # op 2: remove the breakpoint just inserted
except Exception as e:                                      # noqa
    bad.append('WRONG: construct, insert(0.25, 2.), pop(1) raises %s: %s' % (type(e).__name__, e))
else:
    u = m.get_UoRT(x=0.7, T=400.) * R * 400.
    print('after pop(1): intervals=%r slopes=%r U(0.7)=%.6f' % (m.intervals, m.slopes, u))
    if list(m.intervals) != [0., 0.5] or list(m.slopes) != [1., 3.] or abs(u - 1.1) > 1e-12:
        bad.append('WRONG: after insert+pop the model is %r/%r, U(0.7)=%r (right [0,0.5]/[1,3], 1.1)'
                   % (m.intervals, m.slopes, u))
# the copy rebuilt from the dictionary is edited the same way
m2 = PiecewiseCovEffect('A', 'B', [0., 0.25, 0.5], [1., 2., 3.])
m2.insert(0.5, 10.)                                         # insert equal to an existing breakpoint
try:
    m2.pop(-1)
except Exception as e:                                      # noqa
    bad.append('WRONG: insert(0.5, 10.) then pop(-1) raises %s: %s' % (type(e).__name__, e))
for b in bad:
    print(b)
print('FAIL' if bad else 'OK')
sys.exit(1 if bad else 0)
