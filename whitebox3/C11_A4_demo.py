"""C11_A4: vanDerWaalsEOS.a/.b become properties made by a property() factory (values kept in _a/_b); the generic
to_dict writes the private names and the constructor refuses them.
Exit 1 / WRONG when the equation of state cannot be decoded, exit 0 when it round-trips."""
import json
import sys

from pmutt.io.json import pmuttEncoder, json_to_pmutt
from pmutt.eos import vanDerWaalsEOS

eos = vanDerWaalsEOS(a=0.547, b=3.05e-5)          # water
text = json.dumps(eos, cls=pmuttEncoder)
print('encoded:', text)
try:
    dec = json.loads(text, object_hook=json_to_pmutt)
except TypeError as e:
    print('WRONG: decoding raises TypeError: %s' % e)
    sys.exit(1)
print('decoded %s a=%r b=%r, Vm(500 K, 1 bar) %r -> %r' % (type(dec).__name__, dec.a, dec.b,
                                                             eos.get_Vm(T=500., P=1.), dec.get_Vm(T=500., P=1.)))
if type(dec) is not vanDerWaalsEOS or (dec.a, dec.b) != (eos.a, eos.b):
    print('WRONG: decoded object differs')
    sys.exit(1)
print('OK: vanDerWaalsEOS round-trips')
