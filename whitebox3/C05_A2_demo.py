"""C05_A2 demo - write_thermdat groups the species by phase (gas first): a mixed collection does not come back in the order written.
Takes pMuTT from PYTHONPATH. Exit 0 and no WRONG on the unchanged tree, prints WRONG and exits 1 with the change."""
import os, sys, tempfile
import numpy as np
from pmutt.empirical.nasa import Nasa
from pmutt.io.thermdat import write_thermdat, read_thermdat

def mk(name, elements, phase='G', T_low=200., T_mid=1000., T_high=3500., a_low=None, a_high=None, **kw):
    a_low = [4.19864056E+00, -2.03643410E-03, 6.52040211E-06, -5.48797062E-09, 1.77197817E-12, -3.02937267E+04, -8.49032208E-01] if a_low is None else a_low
    a_high = [3.03399249E+00, 2.17691804E-03, -1.64072518E-07, -9.70419870E-11, 1.68200992E-14, -3.00042971E+04, 4.96677010E+00] if a_high is None else a_high
    return Nasa(name=name, elements=elements, phase=phase, T_low=T_low, T_mid=T_mid, T_high=T_high,
                a_low=np.array(a_low), a_high=np.array(a_high), **kw)

def roundtrip(species, fmt='list', **kw):
    d = tempfile.mkdtemp()
    f = os.path.join(d, 'thermdat')
    write_thermdat(species, filename=f, write_date=kw.pop('write_date', False), **kw)
    return read_thermdat(f, format=fmt), open(f).read()

def sig9(x):
    return '%.8e' % x

def same(a, b):
    """the property's notion of 'the same species'"""
    return (a.name == b.name and a.phase == b.phase and dict(a.elements) == dict(b.elements)
            and all(abs(getattr(a, t) - getattr(b, t)) <= 0.1 + 1e-9 for t in ('T_low', 'T_mid', 'T_high'))
            and all(sig9(x) == sig9(y) for x, y in zip(a.a_low, b.a_low)) and len(a.a_low) == len(b.a_low) == 7
            and all(sig9(x) == sig9(y) for x, y in zip(a.a_high, b.a_high)) and len(a.a_high) == len(b.a_high) == 7)

def verdict(species, **kw):
    """'' when the collection reads back as written, else a description"""
    sp = list(species.values()) if isinstance(species, dict) else list(species)
    try:
        got, text = roundtrip(species, **kw)
    except Exception as e:
        return 'reading back raises %s: %s' % (type(e).__name__, e)
    got = list(got.values()) if isinstance(got, dict) else list(got)
    if len(got) != len(sp):
        return '%d species written, %d read back: %s' % (len(sp), len(got), [g.name for g in got])
    for a, b in zip(sp, got):
        if not same(a, b):
            return 'species %s reads back as name=%r phase=%r elements=%r T=(%r, %r, %r)' % (
                a.name, b.name, b.phase, b.elements, b.T_low, b.T_mid, b.T_high)
    return ''


bad = 0
mix = [mk('CO(S)', {'C': 1, 'O': 1, 'Pt': 1}, phase='S'), mk('CO', {'C': 1, 'O': 1}), mk('PT(S)', {'Pt': 1}, phase='S'),
       mk('O2', {'O': 2})]
for label, coll, fmt in (('list', mix, 'list'), ('dict', {s.name: s for s in mix}, 'dict'), ('gas only', [mix[1], mix[3]], 'tuple')):
    got, _ = roundtrip(coll, fmt=fmt)
    names = [g.name for g in (got.values() if isinstance(got, dict) else got)]
    want = [s.name for s in (coll.values() if isinstance(coll, dict) else coll)]
    print('%-8s written %s read back %s %s' % (label, want, names, 'ok' if names == want else '<- not the order written'))
    bad += names != want
if bad:
    print('WRONG')
    sys.exit(1)
