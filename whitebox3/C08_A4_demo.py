"""C08 A4: the conditions given for several temperatures at once (T an array).

H2 + 0.5 O2 = H2O with the NASA polynomials of the test-suite (the empirical classes evaluate arrays of T, and the
reaction getters hand the array through).  For every temperature of the array each state value must be the
stoichiometry-weighted sum of the species values at that temperature, each change final minus initial, and
K = exp(-delta G/RT).  The same temperatures given one at a time are evaluated as a control.
"""
import sys
import warnings
import numpy as np
from pmutt.empirical.nasa import Nasa
from pmutt.reaction import Reaction, ChemkinReaction
from pmutt.omkm.reaction import SurfaceReaction

warnings.filterwarnings('ignore')
H2O = Nasa(name='H2O', T_low=200., T_mid=1000., T_high=3500., elements={'H': 2, 'O': 1},
           a_low=[4.19864056E+00, -2.03643410E-03, 6.52040211E-06, -5.48797062E-09, 1.77197817E-12, -3.02937267E+04,
                  -8.49032208E-01],
           a_high=[3.03399249E+00, 2.17691804E-03, -1.64072518E-07, -9.70419870E-11, 1.68200992E-14, -3.00042971E+04,
                   4.96677010E+00])
H2 = Nasa(name='H2', T_low=200., T_mid=1000., T_high=3500., elements={'H': 2},
          a_low=[2.34433112E+00, 7.98052075E-03, -1.94781510E-05, 2.01572094E-08, -7.37611761E-12, -9.17935173E+02,
                 6.83010238E-01],
          a_high=[3.33727920E+00, -4.94024731E-05, 4.99456778E-07, -1.79566394E-10, 2.00255376E-14, -9.50158922E+02,
                  -3.20502331E+00])
O2 = Nasa(name='O2', T_low=200., T_mid=1000., T_high=3500., elements={'O': 2},
          a_low=[3.78245636E+00, -2.99673416E-03, 9.84730201E-06, -9.68129509E-09, 3.24372837E-12, -1.06394356E+03,
                 3.65767573E+00],
          a_high=[3.28253784E+00, 1.48308754E-03, -7.57966669E-07, 2.09470555E-10, -2.16717794E-14, -1.08845772E+03,
                  5.45323129E+00])
for sp in (H2O, H2, O2):
    sp.phase = 'G'
    sp.cat_site = None

T = np.array([300., 500., 800.])
bad = 0


def check(label, got, want):
    global bad
    try:
        ok = np.shape(got) == np.shape(want) and np.allclose(got, want, rtol=1e-10, atol=1e-10)
    except Exception:
        ok = False
    if not ok:
        bad += 1
        print('WRONG %s = %s, right: %s' % (label, np.array2string(np.asarray(got), precision=6),
                                            np.array2string(np.asarray(want), precision=6)))


for cls in (Reaction, ChemkinReaction, SurfaceReaction):
    rxn = cls(reactants=[H2, O2], reactants_stoich=[1., 0.5], products=[H2O], products_stoich=[1.])
    n = cls.__name__
    for X in ('HoRT', 'GoRT', 'SoR', 'CpoR'):
        m = 'get_' + X
        r = getattr(H2, m)(T=T) + 0.5 * getattr(O2, m)(T=T)
        p = getattr(H2O, m)(T=T)
        check('%s.get_%s_state(products, T=[300, 500, 800])' % (n, X),
              getattr(rxn, 'get_%s_state' % X)(state='products', T=T), p)
        check('%s.get_%s_state(reactants, T=[300, 500, 800])' % (n, X),
              getattr(rxn, 'get_%s_state' % X)(state='reactants', T=T), r)
        check('%s.get_delta_%s(T=[300, 500, 800])' % (n, X), getattr(rxn, 'get_delta_' + X)(T=T), p - r)
        check('%s.get_delta_%s(rev, T=[300, 500, 800])' % (n, X), getattr(rxn, 'get_delta_' + X)(T=T, rev=True), r - p)
        # control: one temperature at a time
        one = np.array([getattr(rxn, 'get_delta_' + X)(T=t) for t in T])
        check('%s.get_delta_%s one T at a time' % (n, X), one, p - r)
    dG = H2O.get_GoRT(T=T) - H2.get_GoRT(T=T) - 0.5 * O2.get_GoRT(T=T)
    check('%s.get_Keq(T=[300, 500, 800]) (ln K)' % n, np.log(rxn.get_Keq(T=T)), -dG)
    check('%s.get_delta_H(kJ/mol, T=[300, 500, 800])' % n, rxn.get_delta_H(units='kJ/mol', T=T),
          (H2O.get_HoRT(T=T) - H2.get_HoRT(T=T) - 0.5 * O2.get_HoRT(T=T)) * T * 8.3144598e-3)
print('violations: %d' % bad)
sys.exit(1 if bad else 0)
