"""C01_B1 - equivalence demonstration: 18733 observable results of the statistical-mechanics code (every getter of
every mode class and of ten species over T = 50-5000 K and P = 1e-4-1e3 bar, dimensional getters, expected-argument
lists, dictionaries, printed wavenumbers, re-assigned attributes, structures of the G2 set as bundled / moved /
renumbered, error kinds and messages, warnings) are reduced to a digest, numbers as float.hex.  The digest below was
recorded on the unchanged tree (f5552c6); exit 0 iff the tree on PYTHONPATH reproduces it bit for bit."""
EXPECT_N = 18733
EXPECT_DIGEST = '165f21054b69e3794cea14082fd11b391caa2ce76fa6f491a52e6cb575778b72'
import hashlib
import io
import sys
import warnings
import contextlib
import numpy as np

warnings.simplefilter('ignore')


def enc(v):
    if isinstance(v, (bool, np.bool_)):
        return 'b:%s' % bool(v)
    if isinstance(v, (int, np.integer)):
        return 'i:%d' % int(v)
    if isinstance(v, (float, np.floating)):
        return 'f:' + float(v).hex()
    if isinstance(v, str):
        return 's:' + v
    if v is None:
        return 'None'
    if isinstance(v, np.ndarray):
        return 'a%s[%s]' % (v.dtype.kind, ','.join(enc(x) for x in v.ravel().tolist()))
    if isinstance(v, (list, tuple)):
        return 'l[%s]' % ','.join(enc(x) for x in v)
    if isinstance(v, dict):
        return 'd{%s}' % ','.join('%s=%s' % (k, enc(v[k])) for k in sorted(v, key=str))
    return 'o:' + type(v).__name__


def attempt(fn, *a, **k):
    try:
        return enc(fn(*a, **k))
    except TypeError as e:          # text written by the interpreter (names the function object): the kind only
        return 'E:TypeError'
    except Exception as e:          # the kind and the text of an error are observable behaviour
        return 'E:%s:%s' % (type(e).__name__, e)


def collect():
    from pmutt import constants as c
    from pmutt import _get_expected_arguments, get_molecular_weight, parse_formula
    from pmutt.statmech import StatMech, EmptyMode, ConstantMode, presets
    from pmutt.statmech.trans import FreeTrans
    from pmutt.statmech.vib import HarmonicVib, QRRHOVib, EinsteinVib, DebyeVib
    from pmutt.statmech.rot import RigidRotor, get_geometry_from_atoms, get_rot_temperatures_from_atoms
    from pmutt.statmech.elec import GroundStateElec
    from pmutt.statmech.nucl import EmptyNucl
    from pmutt.statmech.lsr import LSR
    from pmutt.empirical.references import Reference, References
    from pmutt.mixture.cov import PiecewiseCovEffect
    from ase.build import molecule
    out = []
    add = lambda label, val: out.append('%s => %s' % (label, val))
    Ts = (50., 200., 298.15, 1000., 5000., 300)
    Ps = (1e-4, 1., 37.5, 1e3)
    QU = ('q', 'CvoR', 'CpoR', 'UoRT', 'HoRT', 'SoR', 'FoRT', 'GoRT', 'ZPE')
    DIM = (('Cv', 'J/mol/K'), ('Cp', 'cal/mol/K'), ('U', 'kJ/mol'), ('H', 'eV'), ('S', 'eV/K'), ('F', 'kcal/mol'),
           ('G', 'J/mol'))
    wsets = {
        'h2o': [3825.434, 3710.2642, 1582.432],
        'ints': [3825, 3710, 1582, 120, 45],
        'tuple': (2349.0, 1333.0, 667.0, 667.0),
        'array': np.array([3000.5, 1500.25, 100.125, 12.5]),
        'imag': [-500.0, 1000.0, 2000.0, -30.0, 20.0],
        'allimag': [-100.0, -50.0],
        'empty': [],
        'stiff': [4500.0] * 12 + [10.0] * 3,
    }
    modes = {}
    for k, w in wsets.items():
        for sub in (None, 50.0, 12.5):
            modes['HarmonicVib(%s,sub=%s)' % (k, sub)] = lambda w=w, sub=sub: HarmonicVib(w, imaginary_substitute=sub)
            if k not in ('empty', 'allimag') or sub is not None:
                modes['QRRHOVib(%s,sub=%s)' % (k, sub)] = lambda w=w, sub=sub: QRRHOVib(w, imaginary_substitute=sub)
    modes['QRRHOVib(Bav,v0)'] = lambda: QRRHOVib([3825.434, 120.0, 45.0], Bav=2.5e-44, v0=75.0, alpha=4)
    for th, u in ((50.0, 0.0), (428.0, -1.5), (2000.0, 0.25)):
        modes['EinsteinVib(%g,%g)' % (th, u)] = lambda th=th, u=u: EinsteinVib(th, u)
        modes['DebyeVib(%g,%g)' % (th, u)] = lambda th=th, u=u: DebyeVib(th, u)
    modes['EinsteinVib(default u)'] = lambda: EinsteinVib(300.0)
    for sig in (1, 2, 3.0, 'C1', 'Cs', 'C2', 'C2v', 'C3v', 'Cinfv', 'D2h', 'D3h', 'D5h', 'Dinfh', 'D3d', 'Td', 'Oh'):
        modes['RigidRotor(nonlinear,%s)' % sig] = lambda sig=sig: RigidRotor(sig, [40.1, 20.9, 13.4], 'nonlinear')
    modes['RigidRotor(linear)'] = lambda: RigidRotor(2, [0.561], 'linear')
    modes['RigidRotor(linear, array)'] = lambda: RigidRotor('Dinfh', np.array([0.561]), 'linear')
    modes['RigidRotor(monatomic)'] = lambda: RigidRotor(1, [0.0], 'monatomic')
    modes['RigidRotor(monatomic, no temperatures)'] = lambda: RigidRotor(1, geometry='monatomic')
    modes['RigidRotor(bad geometry)'] = lambda: RigidRotor(1, [1.0], 'planar')
    modes['RigidRotor(bad label)'] = lambda: RigidRotor('C9z', [1.0], 'linear')
    for nd in (1, 2, 3, 3.0):
        for mw in (1.008, 18.015, 500.0):
            modes['FreeTrans(%r,%g)' % (nd, mw)] = lambda nd=nd, mw=mw: FreeTrans(nd, mw)
    modes['FreeTrans(no mass)'] = lambda: FreeTrans()
    for e0, spin in ((-14.22, 0.0), (0.0, 0.5), (-1000.0, 1.0), (2.5, 1.5), (-3.0, 1)):
        modes['GroundStateElec(%g,%r)' % (e0, spin)] = lambda e0=e0, spin=spin: GroundStateElec(e0, spin)
    modes['GroundStateElec(D0)'] = lambda: GroundStateElec(-5.0, 0.5, D0=4.5)
    modes['GroundStateElec()'] = lambda: GroundStateElec()
    modes['EmptyMode'] = EmptyMode
    modes['EmptyNucl'] = EmptyNucl
    modes['ConstantMode'] = lambda: ConstantMode(q=2.0, Cv=1e-4, Cp=2e-4, U=0.1, H=0.2, S=3e-4, F=-0.1, G=-0.2)
    for label, make in modes.items():
        try:
            ob = make()
        except Exception as e:
            add(label, 'E:%s:%s' % (type(e).__name__, e))
            continue
        add(label + ' to_dict', attempt(lambda: {k: v for k, v in ob.to_dict().items()}))
        for q in QU:
            m = getattr(ob, 'get_' + q, None)
            if m is None:
                add('%s get_%s' % (label, q), 'absent')
                continue
            exp = _get_expected_arguments(m)
            add('%s get_%s expects' % (label, q), enc(list(exp)))
            for T in Ts:
                for P in Ps:
                    kw = {k: v for k, v in (('T', T), ('P', P)) if k in exp}
                    if 'P' not in exp and P != Ps[0]:
                        continue
                    add('%s get_%s %r' % (label, q, sorted(kw.items())), attempt(m, **kw))
                if 'T' not in exp:
                    break
            if 'T' in exp:
                add('%s get_%s positional' % (label, q), attempt(m, 350.0))
            if q == 'q' and 'include_ZPE' in exp:
                add('%s get_q no ZPE' % label, attempt(m, T=400.0, include_ZPE=False))
            if q == 'q' and 'ignore_q_elec' in exp:
                add('%s get_q elec' % label, attempt(m, T=400.0, ignore_q_elec=False))
        for q, units in DIM:
            m = getattr(ob, 'get_' + q)
            add('%s get_%s %s' % (label, q, units), attempt(m, units=units, T=400.0, P=2.0))
            add('%s get_%s %s default T' % (label, q, units), attempt(m, units=units))
        # re-assignment of the public attributes
        for attr, val in (('vib_wavenumbers', np.array([100.0, -20.0, 3000.0])), ('spin', 2.0), ('molecular_weight', 44.0),
                          ('n_degrees', 2), ('symmetrynumber', 6), ('einstein_temperature', 111.0),
                          ('debye_temperature', 222.0), ('geometry', 'linear'), ('rot_temperatures', [3.3])):
            if hasattr(ob, attr):
                try:
                    setattr(ob, attr, val)
                except Exception as e:
                    add('%s set %s' % (label, attr), 'E:%s:%s' % (type(e).__name__, e))
                    continue
                for q in ('q', 'CvoR', 'CpoR', 'UoRT', 'HoRT', 'SoR', 'FoRT', 'GoRT', 'ZPE'):
                    m = getattr(ob, 'get_' + q, None)
                    if m is not None:
                        exp = _get_expected_arguments(m)
                        add('%s after %s get_%s' % (label, attr, q),
                            attempt(m, **{k: v for k, v in (('T', 333.0), ('P', 0.5)) if k in exp}))
                add('%s after %s to_dict' % (label, attr), attempt(ob.to_dict))
        if hasattr(ob, 'print_calc_wavenumbers'):
            buf = io.StringIO()
            with contextlib.redirect_stdout(buf):
                ob.print_calc_wavenumbers()
            add(label + ' printed', 's:' + buf.getvalue())
    # species
    h2 = Reference(name='H2', elements={'H': 2}, potentialenergy=-6.7598, vib_wavenumbers=[4306.1793],
                   symmetrynumber=2, rot_temperatures=[87.6], geometry='linear', spin=0, molecular_weight=2.016,
                   T_ref=298.15, HoRT_ref=0.0, **presets['idealgas'])
    o2 = Reference(name='O2', elements={'O': 2}, potentialenergy=-9.8626, vib_wavenumbers=[1556.0],
                   symmetrynumber=2, rot_temperatures=[2.07], geometry='linear', spin=1, molecular_weight=31.998,
                   T_ref=298.15, HoRT_ref=0.0, **presets['idealgas'])
    refs = References(references=[h2, o2])

    def species():
        sp = {}
        sp['H2O gas'] = StatMech(name='H2O', elements={'H': 2, 'O': 1}, molecular_weight=18.015,
                                 vib_wavenumbers=[3825.434, 3710.2642, 1582.432], symmetrynumber='C2v',
                                 rot_temperatures=[40.1, 20.9, 13.4], geometry='nonlinear', potentialenergy=-14.22,
                                 spin=0.0, references=refs, **presets['idealgas'])
        sp['CO2 gas'] = StatMech(name='CO2', elements={'C': 1, 'O': 2}, trans_model=FreeTrans(3, 44.01),
                                 vib_model=HarmonicVib([2349.0, 1333.0, 667.0, 667.0]),
                                 rot_model=RigidRotor('Dinfh', [0.561], 'linear'),
                                 elec_model=GroundStateElec(-22.99, 0))
        sp['H atom'] = StatMech(name='H', elements={'H': 1}, trans_model=FreeTrans(3, 1.008),
                                vib_model=HarmonicVib([]), rot_model=RigidRotor(1, [0.0], 'monatomic'),
                                elec_model=GroundStateElec(-1.1, 0.5), references=refs)
        sp['TS on surface'] = StatMech(name='TS', elements={'C': 1, 'O': 1, 'H': 1},
                                       vib_wavenumbers=[2900.0, 1200.0, 450.0, 300.0, 80.0, -650.0],
                                       potentialenergy=-30.5, spin=0.0, imaginary_substitute=None,
                                       **presets['harmonic'])
        sp['2D gas'] = StatMech(name='CO*', elements={'C': 1, 'O': 1}, trans_model=FreeTrans(2, 28.01),
                                vib_model=QRRHOVib([2100.0, 400.0, 60.0, 25.0]), elec_model=GroundStateElec(-15.0, 0),
                                misc_models=[PiecewiseCovEffect(name_i='CO*', name_j='CO*', intervals=[0.0, 0.3, 1.0],
                                                                slopes=[0.0, 25.0]),
                                             PiecewiseCovEffect(name_i='CO*', name_j='O*', intervals=[0.0, 1.0],
                                                                slopes=[12.0])])
        sp['Debye solid'] = StatMech(name='Cu', elements={'Cu': 1}, vib_model=DebyeVib(343.0, -3.5))
        sp['Einstein solid'] = StatMech(name='Ag', elements={'Ag': 1}, vib_model=EinsteinVib(168.0, -2.9),
                                        elec_model=GroundStateElec(-2.8, 0))
        sp['constant'] = StatMech(name='X', U=0.5, H=0.6, S=1e-3, F=0.1, G=0.2, q=3.0, Cv=1e-4, Cp=2e-4,
                                  **presets['constant'])
        sp['placeholder'] = StatMech(**presets['placeholder'])
        sp['empty'] = StatMech()
        return sp
    for label, sp in species().items():
        add(label + ' to_dict', attempt(lambda: enc(repr(sorted(sp.to_dict().items(), key=str)))))
        for q in ('q', 'CvoR', 'CpoR', 'UoRT', 'HoRT', 'SoR', 'FoRT', 'GoRT', 'EoRT'):
            m = getattr(sp, 'get_' + q)
            for T in Ts:
                for P in (0.01, 1.0, 250.0):
                    base = {'T': T, 'P': P, 'CO*_kwargs': {'x': 0.45}, 'O*_kwargs': {'x': 0.2}}
                    variants = [{}, {'verbose': True}, {'use_references': False}, {'verbose': True, 'use_references': False},
                                {'raise_error': False, 'raise_warning': False}]
                    if q in ('SoR', 'FoRT', 'GoRT'):
                        variants += [{'S_elements': True}, {'S_elements': True, 'verbose': True}]
                    if q in ('q', 'EoRT'):
                        variants += [{'include_ZPE': False}, {'include_ZPE': True}]
                    if q == 'EoRT':
                        variants = [{}, {'include_ZPE': True}]
                    for var in variants:
                        add('%s get_%s T=%r P=%r %r' % (label, q, T, P, sorted(var.items())), attempt(m, **dict(base, **var)))
        for q, units in DIM + (('E', 'eV'), ('S', 'J/g/K'), ('G', 'kJ/kg')):
            m = getattr(sp, 'get_' + q)
            for var in ({}, {'verbose': True}, {'use_references': False}, {'S_elements': True}):
                if 'S_elements' in var and q not in ('S', 'F', 'G'):
                    continue
                if q == 'E' and var:
                    continue
                add('%s get_%s %s %r' % (label, q, units, sorted(var.items())),
                    attempt(m, units=units, T=650.0, P=3.0, **dict({'CO*_kwargs': {'x': 0.45}, 'O*_kwargs': {'x': 0.2}}, **var)))
    # a mode without the quantity
    class NoEntropy:
        def get_q(self):
            return 2.0
    sp = StatMech(name='odd', vib_model=HarmonicVib([1000.0]), rot_model=NoEntropy())
    for kw in ({}, {'raise_error': False}, {'raise_error': False, 'raise_warning': False}):
        with warnings.catch_warnings(record=True) as wl:
            warnings.simplefilter('always')
            r = attempt(sp.get_SoR, T=300.0, verbose=True, **kw)
        add('missing getter %r' % sorted(kw.items()), r + ' warnings=%s' % [str(w.message) for w in wl])
    warnings.simplefilter('ignore')
    # structures
    for name in ('H2O', 'CO2', 'CH4', 'C2H2', 'OCHCHO', 'CH3CH2OH', 'NaCl', 'H', 'HCN', 'SiH4', 'C3H4_D2d', 'N2'):
        at = molecule(name)
        at2 = at.copy()
        at2.rotate(37.0, (1, 2, 3))
        at2.translate((1.5, -2.0, 0.25))
        at3 = at2[list(reversed(range(len(at2))))]
        for tag, a in (('bundled', at), ('moved', at2), ('moved+reversed', at3)):
            for tol in (5.0, 0.5):
                add('%s %s geometry tol=%g' % (name, tag, tol), attempt(get_geometry_from_atoms, a, degree_tol=tol))
            add('%s %s rot temperatures' % (name, tag), attempt(lambda: [float('%.9g' % x) for x in get_rot_temperatures_from_atoms(a)]))
            add('%s %s FreeTrans' % (name, tag), attempt(lambda: FreeTrans(atoms=a).molecular_weight))
            add('%s %s StatMech elements' % (name, tag), attempt(lambda: StatMech(atoms=a).elements))
            add('%s %s rotor' % (name, tag), attempt(lambda: RigidRotor(1, atoms=a).geometry))
        add('%s preset species S/R' % name, attempt(lambda: StatMech(name=name, atoms=at, symmetrynumber=1, vib_wavenumbers=[1000.0, 500.0], potentialenergy=-1.0, spin=0.0, **presets['idealgas']).get_SoR(T=400.0, P=2.0, verbose=True)))
    for f in ('H2O', 'C2H2O2', 'CH3CH2OH', 'ClNa', 'H6Si2', 'C10H22'):
        add('formula ' + f, enc(parse_formula(f)) + ' ' + attempt(get_molecular_weight, f))
    # linear scaling relationship with numbers
    lsr = LSR(slope=0.4, intercept=-12.5, reaction=-30.0, surf_species=-5.0, gas_species=-100.0)
    for q in ('CvoR', 'CpoR', 'UoRT', 'HoRT', 'SoR', 'FoRT', 'GoRT'):
        m = getattr(lsr, 'get_' + q)
        exp = _get_expected_arguments(m)
        for T in Ts:
            add('LSR get_%s T=%r' % (q, T), attempt(m, **({'T': T} if 'T' in exp else {})))
    sp = StatMech(name='CHx*', elec_model=lsr, vib_model=HarmonicVib([500.0, 300.0]))
    add('LSR species', attempt(sp.get_GoRT, T=500.0, verbose=True))
    return out


def main(expect_n, expect_digest):
    res = collect()
    digest = hashlib.sha256('\n'.join(res).encode()).hexdigest()
    print('%d results, digest %s' % (len(res), digest))
    if expect_digest is None:
        return 0
    if len(res) != expect_n or digest != expect_digest:
        print('WRONG: differs from the unchanged tree (%d results, digest %s)' % (expect_n, expect_digest))
        if len(sys.argv) > 1:
            ref = open(sys.argv[1]).read().split('\n')
            n = 0
            for a, b in zip(res, ref):
                if a != b:
                    print('  got ', a[:300]); print('  want', b[:300]); n += 1
                    if n > 10:
                        break
        return 1
    print('identical to the unchanged tree, bit for bit')
    return 0


if __name__ == '__main__':
    if len(sys.argv) > 2 and sys.argv[1] == '--dump':
        open(sys.argv[2], 'w').write('\n'.join(collect()))
        sys.exit(0)
    sys.exit(main(EXPECT_N, EXPECT_DIGEST))
