"""C02_x2 (leftover of whitebox/C02 #5, now on Shomate): with a model attached, Shomate.get_HoRT of an array must equal the
values one temperature at a time.  exit 1 / WRONG with the change, exit 0 without."""
import sys
import warnings
import numpy as np
from pmutt.empirical.shomate import Shomate
from pmutt.mixture.cov import PiecewiseCovEffect

warnings.simplefilter('ignore')
a = np.array([30.09200, 6.832514, 6.793435, -2.534480, 0.082139, -250.8810, 223.3967, -241.8264])
cov = PiecewiseCovEffect(name_i='H2O(S)', name_j='O(S)', intervals=[0, 0.3, 1], slopes=[-10, -30])
sp = Shomate(name='H2O(S)', T_low=500., T_high=1700., a=a, units='J/mol/K', misc_models=[cov])
T = np.array([600., 900., 1500.])
arr = np.asarray(sp.get_HoRT(T=T, x=0.5))
each = np.array([sp.get_HoRT(T=float(t), x=0.5) for t in T])
ok = np.allclose(arr, each, rtol=1e-12, atol=0)
print('get_HoRT(T=[600, 900, 1500], x=0.5) =', arr)
print('one temperature at a time           =', each, 'ok' if ok else 'WRONG')
sys.exit(0 if ok else 1)
