"""C03_B2 (and B4): the NASA-7 Cp fit with its break search.  The functions _fit_CpoR/_get_CpoR_MSE of the tree under
PYTHONPATH are compared with the ORIGINAL code (embedded, copied from f5552c6) with == on every coefficient, the break
temperature and the error, over a spread of inputs.  Exit 0 = bit-identical."""
import sys
import warnings
import numpy as np
from pmutt import _is_iterable
from pmutt.statmech import StatMech, presets
from pmutt.empirical import nasa as ns

warnings.simplefilter('ignore')


def orig_get_CpoR_MSE(T, CpoR, T_mid):
    low_condition = (T <= T_mid)
    high_condition = (T > T_mid)
    T_low = np.extract(condition=low_condition, arr=T)
    T_high = np.extract(condition=high_condition, arr=T)
    CpoR_low = np.extract(condition=low_condition, arr=CpoR)
    CpoR_high = np.extract(condition=high_condition, arr=CpoR)
    p_low = np.polyfit(x=T_low, y=CpoR_low, deg=4)
    p_high = np.polyfit(x=T_high, y=CpoR_high, deg=4)
    CpoR_low_fit = np.polyval(p_low, T_low)
    CpoR_high_fit = np.polyval(p_high, T_high)
    CpoR_fit = np.concatenate((CpoR_low_fit, CpoR_high_fit))
    mse = np.mean((CpoR_fit - CpoR)**2)
    return (mse, p_low, p_high)


def orig_fit_CpoR(T, CpoR, T_mid=None):
    if all([np.isclose(x, 0.) for x in CpoR]) \
       or any([np.isnan(x) for x in CpoR]):
        T_mid = T[int(len(T) / 2)]
        a_low = np.zeros(7)
        a_high = np.zeros(7)
        return a_low, a_high, T_mid
    if T_mid is None:
        T_mid = T[5:-5]
    if not _is_iterable(T_mid):
        T_mid = (T_mid, )
    mse_list = []
    prev_mse = np.inf
    all_a_low = []
    all_a_high = []
    for T_m in T_mid:
        (mse, a_low, a_high) = orig_get_CpoR_MSE(T=T, CpoR=CpoR, T_mid=T_m)
        mse_list.append(mse)
        all_a_low.append(a_low)
        all_a_high.append(a_high)
        if mse > prev_mse:
            break
        prev_mse = mse
    min_mse = min(mse_list)
    min_i = np.where(min_mse == mse_list)[0][0]
    T_mid_out = T_mid[min_i]
    a_low_rev = all_a_low[min_i]
    a_high_rev = all_a_high[min_i]
    empty_arr = np.zeros(2)
    a_low_out = np.concatenate((a_low_rev[::-1], empty_arr))
    a_high_out = np.concatenate((a_high_rev[::-1], empty_arr))
    return a_low_out, a_high_out, T_mid_out


rng = np.random.RandomState(11)
n_cases = n_diff = 0
for k in range(240):
    T_low = rng.uniform(100., 1500.)
    T_high = rng.uniform(T_low + 300., 3000.)
    n_T = rng.randint(15, 201)
    T = np.linspace(T_low, T_high, n_T)
    kind = k % 6
    if kind in (0, 1):
        m = StatMech(vib_wavenumbers=rng.uniform(10., 4500., size=rng.randint(1, 13)), potentialenergy=-1.,
                     **presets['harmonic'])
        CpoR = np.array([m.get_CpoR(T=t) for t in T])
    elif kind == 2:
        CpoR = np.polyval(rng.normal(size=5) * [1e-13, 1e-10, 1e-6, 1e-3, 4.], T)
    elif kind == 3:
        CpoR = np.full(n_T, rng.uniform(1., 12.))
    elif kind == 4:
        CpoR = np.zeros(n_T)
    else:
        CpoR = 3.5 + 1e-3 * T + rng.normal(scale=0.05, size=n_T)
    form = k % 5
    if form == 0:
        T_mid = None
    elif form == 1:
        T_mid = float(rng.uniform(T[5], T[-6]))
    elif form == 2:
        T_mid = sorted(rng.uniform(T[5], T[-6], size=rng.randint(2, 7)))
    elif form == 3:
        T_mid = list(rng.uniform(T[5], T[-6], size=rng.randint(2, 7)))       # unsorted
    else:
        T_mid = np.array([T[1], T[n_T // 2], T[-2]])                          # candidates next to the bounds
    want = orig_fit_CpoR(T, CpoR, T_mid)
    got = ns._fit_CpoR(T=T, CpoR=CpoR, T_mid=T_mid)
    same = all(np.array_equal(np.asarray(g), np.asarray(w)) for g, w in zip(got, want))
    if kind != 4:
        T_m = T[n_T // 3]
        g2, w2 = ns._get_CpoR_MSE(T=T, CpoR=CpoR, T_mid=T_m), orig_get_CpoR_MSE(T, CpoR, T_m)
        same = same and all(np.array_equal(np.asarray(g), np.asarray(w)) for g, w in zip(g2, w2)) \
            and type(g2[0]) is type(w2[0])
    sp = ns.Nasa.from_data(name='sp', T=T, CpoR=CpoR, T_ref=float(rng.uniform(T_low, T_high)), HoRT_ref=-10.,
                           SoR_ref=20., T_mid=T_mid)
    same = same and sp.T_mid == want[2] and np.array_equal(sp.a_low[:5], want[0][:5]) \
        and np.array_equal(sp.a_high[:5], want[1][:5])
    n_cases += 1
    if not same:
        n_diff += 1
        print('DIFFERENT: case %d' % k, got, want)
print('%d cases, %d differences' % (n_cases, n_diff))
sys.exit(1 if n_diff else 0)
