"""C19 / A3: two phase diagrams over the SAME formation reactions (the same Reaction objects), normalised in two
ways - per formula unit and per metal atom/surface area. Each diagram must tabulate the reactions' own delta G/RT
divided by ITS OWN normalisation factors and report the phase that is lowest under ITS normalisation.
Exit 1 / WRONG on disagreement, exit 0 otherwise."""
import sys
import numpy as np
from pmutt import constants as c
from pmutt.reaction import Reaction
from pmutt.reaction.phasediagram import PhaseDiagram


class Sp:
    """species with an ideal-gas like Gibbs energy depending on T and P"""
    def __init__(self, name, h, s, elements, gas=False):
        self.name, self.h, self.s, self.elements, self.gas = name, h, s, elements, gas
        self.phase = 'G' if gas else 'S'

    def get_GoRT(self, T=298.15, P=1., **kwargs):
        return self.h / T - self.s + (np.log(P) if self.gas else 0.)

    def get_G(self, units, T=298.15, **kwargs):
        return self.get_GoRT(T=T, **kwargs) * T * c.R('{}/K'.format(units))


sp = {'M': Sp('M', 0., 0., {'M': 1}), 'O2': Sp('O2', 0., 25., {'O': 2}, gas=True),
      'MO': Sp('MO', -30000., 5., {'M': 1, 'O': 1}), 'MO2': Sp('MO2', -52000., 9., {'M': 1, 'O': 2}),
      'M2O3': Sp('M2O3', -88000., 15., {'M': 2, 'O': 3})}
rx = [Reaction.from_string(s, sp) for s in ('M = M', 'M + 0.5O2 = MO', 'M + O2 = MO2', '2M + 1.5O2 = M2O3')]
per_formula = [1., 1., 1., 1.]
per_metal = np.array([1., 1., 1., 2.])
T_grid = [600., 900., 1200., 1500., 1800.]


def own(nf, units, P):
    G = np.array([[r.get_delta_GoRT(T=t, P=P) / n * (c.R(units + '/K') * t if units else 1.) for t in T_grid]
                  for r, n in zip(rx, nf)])
    return G, np.nanargmin(G, axis=0)


pd_formula = PhaseDiagram(rx, norm_factors=list(per_formula))
pd_metal = PhaseDiagram(rx, norm_factors=per_metal)          # a second diagram over the same reactions
bad = 0
for label, pd, nf in (('per formula unit', pd_formula, per_formula), ('per metal atom', pd_metal, per_metal),
                      ('per formula unit (again)', pd_formula, per_formula)):
    for units in (None, 'kJ/mol'):
        want, want_st = own(nf, units, 1e-4)
        G, st = pd.get_GoRT_1D('T', T_grid, G_units=units, P=1e-4)
        G2, st2 = pd.get_GoRT_2D('T', T_grid, 'P', [1e-4], G_units=units)
        ok = np.allclose(G, want, rtol=1e-12) and list(st) == list(want_st) and \
            np.allclose(G2[:, :, 0], want, rtol=1e-12) and [int(v) for v in st2[:, 0]] == list(want_st)
        print('%-25s units=%-6s factors of the diagram %s  stable 1D=%s 2D=%s expected=%s  M2O3 row %s expected %s  %s'
              % (label, units, [float(v) for v in pd.norm_factors], [int(v) for v in st], [int(v) for v in st2[:, 0]],
                 [int(v) for v in want_st], np.round(G[3], 2), np.round(want[3], 2), 'ok' if ok else 'WRONG'))
        bad += not ok
sys.exit(1 if bad else 0)
