"""C01_A4: the partition function of the Einstein crystal must be the documented closed form
q = exp(-u/kT) * exp(-theta_E/2T) / (1 - exp(-theta_E/T))  (= exp(-u/kT) times the harmonic oscillator of theta_E),
also when it is the vibrational factor of a species' partition function."""
import sys
import numpy as np
from pmutt import constants as c
from pmutt.statmech import StatMech
from pmutt.statmech.vib import EinsteinVib, HarmonicVib
from pmutt.statmech.elec import GroundStateElec

bad = 0
def check(ok, msg):
    global bad
    if not ok:
        bad += 1
        print('WRONG:', msg)

for theta, u in ((173.28913505677, 0.5), (168., 0.), (50., -0.05), (1320., -0.2), (2000., 0.01)):
    ein = EinsteinVib(einstein_temperature=theta, interaction_energy=u)
    # the same oscillator as a one-mode harmonic model
    ho = HarmonicVib([theta * c.kb('J/K') / c.h('J s') / c.c('cm/s')])
    for T in (50., 300., 1000., 5000.):
        x = theta / T
        want = np.exp(-u / c.kb('eV/K') / T) * np.exp(-x / 2.) / (1. - np.exp(-x))
        got = ein.get_q(T=T)
        check(abs(got / want - 1.) < 1e-9, 'EinsteinVib(theta_E=%g K, u=%g eV).get_q(T=%g) = %.6e, closed form %.6e (ratio %.4f)'
              % (theta, u, T, got, want, got / want))
        check(abs(got / (np.exp(-u / c.kb('eV/K') / T) * ho.get_q(T=T)) - 1.) < 1e-9,
              'theta_E=%g T=%g: q is not exp(-u/kT) times the harmonic oscillator of the same frequency' % (theta, T))
    # T^2 d(ln q)/dT = u/k + theta/2 + theta/(e^x - 1): the energy of ONE oscillator
    T, h = 400., 1e-3
    dlnq = (np.log(ein.get_q(T=T + h)) - np.log(ein.get_q(T=T - h))) / (2 * h)
    x = theta / T
    want = (u / c.kb('eV/K') + theta / 2. + theta / (np.exp(x) - 1.)) / T**2
    check(abs(dlnq - want) < 1e-6 * abs(want) + 1e-9, 'theta_E=%g: d ln q/dT = %.6e, expected %.6e' % (theta, dlnq, want))
# species: total q == product of the verbose list, vibrational entry == closed form
sp = StatMech(name='Ag', vib_model=EinsteinVib(168., 0.), elec_model=GroundStateElec(-2.8, 0))
qv = sp.get_q(T=300., verbose=True)
want = np.exp(-168. / 600.) / (1. - np.exp(-168. / 300.))
check(abs(qv[1] / want - 1.) < 1e-9, 'species Ag: vibrational factor of q = %.6f, closed form %.6f' % (qv[1], want))
print('%d wrong' % bad)
sys.exit(1 if bad else 0)
