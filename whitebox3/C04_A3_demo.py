"""C04_A3: Nasa.get_Cp evaluates the polynomial at the temperature clamped into [T_low, T_high], get_CpoR does not:
outside the fitted range (where pMuTT extrapolates with a warning) Cp with units is no longer CpoR * R.
Run with PYTHONPATH=<tree>; exit 1 + WRONG on the changed tree, exit 0 on the pristine tree."""
import sys
import warnings
import numpy as np
warnings.simplefilter('ignore')
from pmutt import constants as c
from pmutt import get_molecular_weight
from pmutt.empirical.nasa import Nasa

H2O = Nasa(name='H2O', elements={'H': 2, 'O': 1}, phase='G', T_low=200., T_mid=1000., T_high=3500.,
           a_low=[4.19864056E+00, -2.03643410E-03, 6.52040211E-06, -5.48797062E-09, 1.77197817E-12, -3.02937267E+04, -8.49032208E-01],
           a_high=[3.03399249E+00, 2.17691804E-03, -1.64072518E-07, -9.70419870E-11, 1.68200992E-14, -3.00042971E+04, 4.96677010E+00])
M = get_molecular_weight(H2O.elements)
bad = n = 0
for T in (150., 200., 298.15, 1000., 3500., 4000., np.array([150., 500., 4000.]), np.array([300., 900.])):
    for units, R in (('J/mol/K', c.R('J/mol/K')), ('cal/mol/K', c.R('cal/mol/K')), ('J/g/K', c.R('J/mol/K') / M),
                     ('kJ/kg/K', c.R('kJ/mol/K') / M * 1000.)):
        got = H2O.get_Cp(T=T, units=units)
        want = H2O.get_CpoR(T=T) * R
        n += 1
        if not np.allclose(got, want, rtol=1e-12, atol=0.):
            bad += 1
            if units == 'J/mol/K':
                print('WRONG get_Cp(T=%s, %r) = %s, get_CpoR * R = %s' % (T, units, got, want))
print('%d of %d comparisons differ' % (bad, n))
sys.exit(1 if bad else 0)
