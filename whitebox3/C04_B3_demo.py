"""C04_B3: pmutt._get_expected_arguments asks inspect.getfullargspec for the positional parameters of a callable
instead of reading fn.__code__.co_varnames[:fn.__code__.co_argcount].  Equivalence: the same tuple for every kind of
callable the package hands to it (functions, bound and unbound methods, classes, lambdas, functions with defaults,
keyword-only parameters, *args/**kwargs, positional-only parameters), hence the same routing of keyword arguments and
bit-identical thermodynamic values.  The digest below was recorded on the pristine tree (f5552c6).
Run with PYTHONPATH=<tree>; exit 0 on both trees."""
import hashlib
import sys
import warnings
import numpy as np
warnings.simplefilter('ignore')
import pmutt
from pmutt import constants as c
from pmutt.empirical import GasPressureAdj
from pmutt.empirical.nasa import Nasa
from pmutt.mixture.cov import PiecewiseCovEffect
from pmutt.reaction import Reaction
from pmutt.statmech import StatMech, presets, trans, vib, rot, elec, EmptyMode, ConstantMode
from ase.build import molecule

EXPECTED = '81f0d932953f550e'
out = []


def f0(): pass
def f1(a, b=2, *args, c=3, **kw): x = 1; return x
def f2(a, /, b, *, c): y = a; return y
f3 = lambda T, P=1.: T * P       # noqa


class K:
    def __init__(self, p, q=1, **kwargs): self.p = p
    def m(self, T, V=None): return T
    @staticmethod
    def s(T, P): return T
    @classmethod
    def cm(cls, T): return T


k = K(1)
for label, fn in (('f0', f0), ('f1', f1), ('f2', f2), ('f3', f3), ('K', K), ('K.m', K.m), ('k.m', k.m), ('K.s', K.s),
                  ('k.s', k.s), ('K.cm', K.cm), ('StatMech', StatMech), ('FreeTrans', trans.FreeTrans),
                  ('HarmonicVib.get_SoR', vib.HarmonicVib.get_SoR), ('Nasa.get_HoRT', Nasa.get_HoRT),
                  ('cov.get_UoRT', PiecewiseCovEffect(name_i='a', name_j='b', intervals=[0., 1.], slopes=[1.]).get_UoRT),
                  ('GasPressureAdj().get_SoR', GasPressureAdj().get_SoR), ('EmptyMode().get_q', EmptyMode().get_q)):
    r = pmutt._get_expected_arguments(fn)
    out.append('%s %s %r' % (label, type(r).__name__, tuple(r)))
for label, fn, kw in (('pass f1', f1, dict(a=1, b=5, c=9, z=3)), ('pass k.m', k.m, dict(T=3., V=2., P=1.)),
                      ('force f1', None, None)):
    if fn is not None:
        out.append('%s %r' % (label, pmutt._pass_expected_arguments(fn, **kw)))
out.append('force %r %r' % (pmutt._force_pass_arguments(f1, a=1, b=5, c=9, z=3), pmutt._force_pass_arguments(f3, T=2., P=3., x=1)))
try:
    pmutt._pass_expected_arguments(f2, a=1, b=2, c=3)
    out.append('f2 ok')
except Exception as e:      # noqa
    out.append('f2 %s' % type(e).__name__)

h2o = StatMech(name='H2O', atoms=molecule('H2O'), symmetrynumber=2, vib_wavenumbers=[3825.434, 3710.2642, 1582.432],
               potentialenergy=-14.22, spin=0, **presets['idealgas'])
h2 = StatMech(name='H2', atoms=molecule('H2'), symmetrynumber=2, vib_wavenumbers=[4342.], potentialenergy=-6.77, spin=0,
              **presets['idealgas'])
o2 = StatMech(name='O2', atoms=molecule('O2'), symmetrynumber=2, vib_wavenumbers=[1557.], potentialenergy=-9.86, spin=1,
              **presets['idealgas'])
rxn = Reaction(reactants=[h2, o2], reactants_stoich=[1., 0.5], products=[h2o], products_stoich=[1.])
for T in (298.15, 800.):
    for P in (1., 20.):
        for u in ('J/mol/K', 'cal/mol/K', 'eV/K', 'J/g/K', 'kJ/kg/K'):
            for q in ('Cv', 'Cp', 'S'):
                out.append(float(getattr(h2o, 'get_' + q)(units=u, T=T, P=P)).hex())
            for q in ('U', 'H', 'F', 'G'):
                out.append(float(getattr(h2o, 'get_' + q)(units=u[:-2], T=T, P=P)).hex())
            out.append(np.asarray(h2o.get_G(units=u[:-2], T=T, P=P, verbose=True)).tobytes().hex())
        for u in ('kJ/mol', 'eV'):
            out.append(float(rxn.get_delta_G(units=u, T=T, P=P, H2_kwargs={'P': 3.})).hex())
            out.append(float(rxn.get_delta_H(units=u, T=T, rev=True)).hex())
for m in (trans.FreeTrans(n_degrees=3, molecular_weight=18.015), vib.HarmonicVib([1000., 2000.]),
          rot.RigidRotor(symmetrynumber=2, rot_temperatures=[39.4, 20.9, 13.6], geometry='nonlinear'),
          elec.GroundStateElec(potentialenergy=-1., spin=0.5), ConstantMode(U=-1., H=-1., F=-2., G=-2., S=1e-3)):
    for q in ('Cv', 'Cp', 'S'):
        out.append(float(getattr(m, 'get_' + q)(units='J/mol/K', T=450., P=3., V=1., x=0.2)).hex())
    for q in ('U', 'H', 'F', 'G'):
        out.append(float(getattr(m, 'get_' + q)(units='kJ/mol', T=450., P=3., V=1., x=0.2)).hex())
digest = hashlib.sha256('\n'.join(out).encode()).hexdigest()[:16]
print('digest', digest, '(%d values)' % len(out))
if EXPECTED != 'PLACEHOLDER' and digest != EXPECTED:
    print('DIFFERENT from the pristine tree (%s)' % EXPECTED)
    sys.exit(1)
sys.exit(0)
