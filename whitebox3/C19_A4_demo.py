"""C19 / A4: one-parameter scans on grids of 1-30 values (the property's range). Column j of the table must belong to
grid value j: entry [i][j] is reaction i's own delta G/RT at x_j divided by factor i (times RT with units), the stable
phase the arg-min at that point, identically in 1-D and 2-D. Exit 1 / WRONG on disagreement, exit 0 otherwise."""
import sys
import numpy as np
from pmutt import constants as c
from pmutt.reaction import Reaction
from pmutt.reaction.phasediagram import PhaseDiagram


class Sp:
    """species with an ideal-gas like Gibbs energy depending on T and P"""
    def __init__(self, name, h, s, elements, gas=False):
        self.name, self.h, self.s, self.elements, self.gas = name, h, s, elements, gas
        self.phase = 'G' if gas else 'S'

    def get_GoRT(self, T=298.15, P=1., **kwargs):
        return self.h / T - self.s + (np.log(P) if self.gas else 0.)

    def get_G(self, units, T=298.15, **kwargs):
        return self.get_GoRT(T=T, **kwargs) * T * c.R('{}/K'.format(units))


sp = {'M': Sp('M', 0., 0., {'M': 1}), 'O2': Sp('O2', 0., 25., {'O': 2}, gas=True),
      'MO': Sp('MO', -30000., 5., {'M': 1, 'O': 1}), 'MO2': Sp('MO2', -52000., 9., {'M': 1, 'O': 2}),
      'M2O': Sp('M2O', -36000., 7., {'M': 2, 'O': 1})}
rx = [Reaction.from_string(s, sp) for s in ('M = M', 'M + 0.5O2 = MO', 'M + O2 = MO2', '2M + 0.5O2 = M2O')]
nf = [1., 1., 1.5, 2.]
pd = PhaseDiagram(rx, norm_factors=list(nf))
bad = 0
for nx in (1, 2, 4, 10, 11, 12, 20, 30):
    for x_name, xs, fixed in (('T', list(np.linspace(600., 2400., nx)), {'P': 1e-6}),
                              ('P', list(np.logspace(-30, 0, nx)), {'T': 1200.})):
        for units in (None, 'kJ/mol'):
            conds = [dict(fixed, **{x_name: x}) for x in xs]
            want = np.array([[r.get_delta_GoRT(**cd) / n * (c.R(units + '/K') * cd['T'] if units else 1.)
                              for cd in conds] for r, n in zip(rx, nf)])
            want_st = np.nanargmin(want, axis=0)
            G, st = pd.get_GoRT_1D(x_name, xs, G_units=units, **fixed)
            other = 'P' if x_name == 'T' else 'T'
            G2, st2 = pd.get_GoRT_2D(x_name, xs, other, [fixed[other]], G_units=units)
            ok = np.shape(G) == want.shape and np.allclose(G, want, rtol=1e-12) and list(st) == list(want_st) and \
                [int(v) for v in st2[:, 0]] == list(st)
            if units is None or not ok:
                print('grid of %2d %s values, units=%-6s stable 1D=%s\n%s2D=%s  %s' % (
                    nx, x_name, units, ''.join(str(int(v)) for v in st), ' ' * 43,
                    ''.join(str(int(v)) for v in st2[:, 0]), 'ok' if ok else 'WRONG'))
            bad += not ok
sys.exit(1 if bad else 0)
