"""C14_B2 (equivalent): pmutt.parse_formula totals the counts in a collections.defaultdict(int) and returns dict(...).
Compared with a verbatim copy of the original (value, key order, value types, type of the result, independence of two
calls) on fixed and random formulas. exit 0 on both trees. The tree is taken from PYTHONPATH."""
import random
import re
import sys
import pmutt


def original(formula):
    elements_tuples = re.findall(r'([A-Z][a-z]*)(\d*)', formula)
    elements = {}
    for (element, coefficient) in elements_tuples:
        elements[element] = elements.get(element, 0) + int(coefficient or '1')
    return elements


def outcome(f, x):
    try:
        r = f(x)
        return ('value', type(r).__name__, list(r.items()), [type(v).__name__ for v in r.values()])
    except Exception as e:
        return ('raises', type(e).__name__, str(e))


rnd = random.Random(14)
symbols = ['H', 'C', 'O', 'N', 'Pt', 'Al', 'Na', 'Cl', 'Ca', 'Ti', 'He', 'Uuo', 'X']
formulas = ['CH3CH2OH', 'Al2O3', 'CaTiO3', 'HF', 'CH3CH2CH3', 'C10H22', 'Al20O30C456H789Pt1', 'NaCl', 'PtCO', 'C0H4', '',
            'ch4', 'H2o', 'Pt100', 'H999', 'H1000', '(CH3)3C', 'H2 O', '12', 'h2O2', None, 12, 'H٣']
for _ in range(4000):
    s = ''
    for _k in range(rnd.randint(1, 7)):
        s += rnd.choice(symbols) + rnd.choice(['', '', str(rnd.randint(1, 999)), '0', '01'])
    formulas.append(s)
bad = 0
for f in formulas:
    a, b = outcome(original, f), outcome(pmutt.parse_formula, f)
    if a != b:
        bad += 1
        if bad < 6:
            print('DIFFERENT %r: original %r, tree %r' % (f, a, b))
# the caller owns the result; a key that is not there raises KeyError (a plain dict, no default)
r1 = pmutt.parse_formula('CH4')
r1['C'] = 99
r1['Xx'] = 1
r2 = pmutt.parse_formula('CH4')
if r2 != {'C': 1, 'H': 4} or r2 is r1 or type(r2) is not dict:
    bad += 1
    print('DIFFERENT second call gives %r' % (r2,))
try:
    r2['O']
    bad += 1
    print('DIFFERENT a missing element does not raise')
except KeyError:
    pass
print('%d formulas compared, %d differences' % (len(formulas), bad))
sys.exit(1 if bad else 0)
