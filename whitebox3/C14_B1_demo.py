"""C14_B1 (equivalent): _parse_reaction_state reads coefficient and name through the named groups of one compiled
pattern (match.groupdict()). Compared with a verbatim copy of the original on random states and whole reactions.
exit 0 on both trees. The tree is taken from PYTHONPATH."""
import random
import re
import sys
import pmutt.reaction as rx


def original(reaction_str, species_delimiter='+'):
    species_str = reaction_str.split(species_delimiter)
    species = []
    stoichiometry = []
    for specie in species_str:
        specie = specie.strip()
        stoich_search = re.search(r'^\d+\.?\d*', specie)
        if stoich_search is None:
            specie = specie.strip()
            specie_stoich = 1.
        else:
            specie_stoich = stoich_search.group()
            trim_len = len(specie_stoich)
            specie = specie[trim_len:].strip()
            specie_stoich = float(specie_stoich)
        try:
            i = species.index(specie)
        except ValueError:
            species.append(specie)
            stoichiometry.append(specie_stoich)
        else:
            stoichiometry[i] += specie_stoich
    return (species, stoichiometry)


def outcome(f, *a):
    try:
        r = f(*a)
        return ('value', r, [type(x).__name__ for x in r[1]])
    except Exception as e:
        return ('raises', type(e).__name__, str(e))


rnd = random.Random(14)
names = ['H2', 'O2', 'H2O', 'H2O_TS', 'E1', 'e2', 'E2S', 'A(g)', '*', 'CH3*', 'X_1', '_1', 'j', 'inf', 'nan', 'N2(S)',
         'x1', 'd3', '', 'a b', 'A\nB', '\tT', '2nd', '.5x', '٣Z']
coefs = ['', '', '2', '0.5', '1.50', '12.25', '2.', '007', '1e3', '.5', '2.5.1', '10', '٣', '3 ', ' 4', '0.333333',
         '1_0', '+2', '-1']
blanks = ['', '', ' ', '  ', '\t', '\n', ' \r\n']
delims = ['+', '.', ' + ', ' & ', '->', '++', 'and']
n = bad = 0
for _ in range(8000):
    d = rnd.choice(delims)
    terms = []
    for _k in range(rnd.randint(1, 5)):
        terms.append(rnd.choice(blanks) + rnd.choice(coefs) + rnd.choice(blanks) + rnd.choice(names) + rnd.choice(blanks))
    s = d.join(terms)
    a, b = outcome(original, s, d), outcome(rx._parse_reaction_state, s, d)
    n += 1
    if a != b:
        bad += 1
        if bad < 6:
            print('DIFFERENT %r / %r: original %r, tree %r' % (s, d, a, b))


class Sp:
    def __init__(self, name):
        self.name = name


sp = {k: Sp(k) for k in names if k.strip() == k and k}
for text in ('H2 + 0.5O2 = H2O_TS = H2O', '2E1+S=1.50E1S', '2 H2O=1.5 H2O_TS + 0.5H2O_TS=H2O + 1 H2O', ' 10E1 + 0.25 e2=E2S=2.5 * ',
             '2CH3* + 3 CH3* = A(g) + _1', 'H2 = unknown'):
    def whole(t):
        r = rx.Reaction.from_string(t, sp)
        return ([x.name for x in r.reactants], r.reactants_stoich, [x.name for x in r.products], r.products_stoich,
                None if r.transition_state is None else [x.name for x in r.transition_state])
    try:
        got = whole(text)
    except KeyError as e:
        got = str(e)
    print('%r -> %s' % (text, got))
print('%d states compared, %d differences' % (n, bad))
sys.exit(1 if bad else 0)
