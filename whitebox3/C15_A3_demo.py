"""C15_A3: at the end of every row the wavenumber list is de-duplicated with list(dict.fromkeys(...)) ("a mode given
twice").  Degenerate modes have EQUAL wavenumbers (CO2 bend 667.4 twice, CH4 1306 three times ...): their cells vanish
from the ordered list.  exit 1 / WRONG with the change, exit 0 without.  Tree from PYTHONPATH."""
import os
import sys
import tempfile
import warnings

import openpyxl

from pmutt.io.excel import read_excel

warnings.simplefilter('ignore')
header = ['name', 'statmech_model'] + ['vib_wavenumber'] * 9
comment = ['', ''] + ['cm-1'] * 9
rows = [['CO2', 'idealgas', 1333, 2349, 667.4, 667.4],
        ['CH4', 'idealgas', 2917, 1534, 1534, 3019, 3019, 3019, 1306, 1306, 1306],
        ['H2O', 'idealgas', 3657.05, 1594.75, 3755.93]]
expected = [[1333, 2349, 667.4, 667.4], [2917, 1534, 1534, 3019, 3019, 3019, 1306, 1306, 1306],
            [3657.05, 1594.75, 3755.93]]
with tempfile.TemporaryDirectory() as tmp:
    path = os.path.join(tmp, 'book.xlsx')
    wb = openpyxl.Workbook()
    ws = wb.active
    for r in [header, comment] + rows:
        ws.append(r)
    wb.save(path)
    got = read_excel(path)
ok = [g['vib_wavenumbers'] for g in got] == expected
for g, e in zip(got, expected):
    print('%-4s got      %s' % (g['name'], g['vib_wavenumbers']))
    print('     expected %s' % e)
print('OK' if ok else 'WRONG: cells with equal values (degenerate modes) are missing from vib_wavenumbers')
sys.exit(0 if ok else 1)
