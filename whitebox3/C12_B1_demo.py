"""C12_B1: cross-type conversions raise IncompatibleUnitsError, a subclass of ValueError with the same message.
Every ``except ValueError`` / ``assertRaises(ValueError)`` of a caller observes what it observed before; the refusal
the property asks for ("converting between different quantity types is refused") is unchanged.
Takes the tree from PYTHONPATH.  Runs the digest of C12_B_dump.py (24959 observations: convert_unit for every ordered pair
of units incl. refusals and messages, numbers, float/int/float32/0-d/empty/2-D arrays, argument modification; every key
of R/kb/h/c; P0/T0/m_e/m_p/V0 for every unit; all helpers; element tables; molar masses - values bit-exact by float.hex)
and compares it with the digest of the original tree f5552c6.  exit 0 on both trees, exit 1 on any difference."""
import os
import subprocess
import sys

import pmutt.constants as k
for a, b in (('J', 'm'), ('K', 'J'), ('kJ/mol', 'kJ'), ('A', 'A2')):
    try:
        k.convert_unit(1., a, b)
        sys.exit('not refused: %s -> %s' % (a, b))
    except ValueError as e:
        if not (isinstance(e, ValueError) and 'not compatible with' in str(e)):
            sys.exit('refusal changed: %r' % (e,))

ORIGINAL = '6eed1ad733d24fa4b1ea796b862c127d51a58cfe356ee8523a07c424aec9b812'
here = os.path.dirname(os.path.abspath(__file__))
r = subprocess.run([sys.executable, os.path.join(here, 'C12_B_dump.py'), '--expect', ORIGINAL])
sys.exit(r.returncode)
