"""C14_B3 (equivalent): _write_reaction_state joins coefficient, optional blank, name and delimiter with '%s' instead of
'{}'.format. Compared with a verbatim copy of the original on random states and through Reaction.to_string.
exit 0 on both trees. The tree is taken from PYTHONPATH."""
import random
import sys
import numpy as np
import pmutt.reaction as rx


def original(species, stoich, species_delimiter='+', stoich_format='.2f', stoich_space=False, key='name'):
    if species is None:
        return ''
    for i, (specie, stoich_val) in enumerate(zip(species, stoich)):
        specie_key = getattr(specie, key)
        if np.isclose(stoich_val, 1.):
            specie_str = '{}'.format(specie_key)
        else:
            if np.isclose(stoich_val, round(stoich_val)):
                stoich_val = int(round(stoich_val))
            else:
                stoich_val = '{:{format}}'.format(stoich_val, format=stoich_format)
            if stoich_space:
                specie_str = '{} {}'.format(stoich_val, specie_key)
            else:
                specie_str = '{}{}'.format(stoich_val, specie_key)
        if i == 0:
            reaction_str = specie_str
        else:
            reaction_str += '{}{}'.format(species_delimiter, specie_str)
    return reaction_str


class Sp:
    def __init__(self, name, alias):
        self.name, self.alias = name, alias


def outcome(f, *a, **k):
    try:
        return ('value', f(*a, **k))
    except Exception as e:
        return ('raises', type(e).__name__, str(e))


rnd = random.Random(14)
names = ['H2', 'O2', 'H2O_TS', 'A(g)', '*', 'CH3*', 'X_1', '%s', '{}', '%', 'a b', '', 12, 2.5, None, ('t', 1), b'by']
vals = [1, 1., 2, 2., 0.5, 1.5, 12.25, 0.1 * 3, 0.1 * 3 * 10, 1 - 1e-14, 1.995, 2.004, 0.996, 120, 1e-3, 0, 1e6 + 0.5,
        np.float64(2.5), np.float32(0.5), np.int64(3), float('nan'), float('inf'), -1, -0.5]
n = bad = 0
for _ in range(6000):
    k = rnd.randint(0, 4)
    species = [Sp(rnd.choice(names), rnd.choice(names)) for _i in range(k)]
    stoich = [rnd.choice(vals) for _i in range(k)]
    kw = {'species_delimiter': rnd.choice(['+', '.', ' + ', ' & ', '%s', '{}', '%']),
          'stoich_format': rnd.choice(['.2f', '.3f', '.1f', 'g', '6.2f', '.2e', '']),
          'stoich_space': rnd.choice([False, True, 0, 1, None, 'yes']), 'key': rnd.choice(['name', 'name', 'alias'])}
    a, b = outcome(original, species, stoich, **kw), outcome(rx._write_reaction_state, species, stoich, **kw)
    n += 1
    if a != b:
        bad += 1
        if bad < 6:
            print('DIFFERENT %r %r %r: original %r, tree %r' % ([s.name for s in species], stoich, kw, a, b))
sp = {x: Sp(x, x.lower()) for x in ('H2', 'O2', 'H2O', 'H2O_TS')}
r = rx.Reaction([sp['H2'], sp['O2']], [2, 0.5], [sp['H2O']], [12.25], [sp['H2O_TS']], [1.])
for kw in ({}, {'species_delimiter': ' + ', 'reaction_delimiter': ' <=> ', 'stoich_space': True},
           {'species_delimiter': '%', 'reaction_delimiter': '%s', 'include_TS': False, 'key': 'alias'}):
    print(r.to_string(**kw))
print('%d states compared, %d differences' % (n, bad))
sys.exit(1 if bad else 0)
