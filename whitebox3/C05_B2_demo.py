"""Equivalence evidence for C05_B2: observes the thermdat writer and reader of the tree on PYTHONPATH on a spread of
inputs (inside and outside the property's quantifier) and compares a digest of everything observed - returned texts,
file bytes, species read back, exception types and messages, results of the private helpers - with the digest recorded
on the unchanged tree f5552c6.  Exit 0 when they agree (on the unchanged and on the refactored tree), 1 otherwise."""
import hashlib
import os
import random
import sys
import tempfile
import warnings
from datetime import datetime as _real_datetime

import numpy as np

from pmutt.empirical.nasa import Nasa
from pmutt.io import thermdat
from pmutt.io.thermdat import read_thermdat, write_thermdat

EXPECTED = '377347da046fde18775b3fcac3f0df206a8c12ba9f54a69c079c1c4802fff6a5'
warnings.simplefilter('ignore')


class FixedClock(_real_datetime):
    """the date stamp must not depend on the day the demo runs"""
    @classmethod
    def now(cls, tz=None):
        return cls(2026, 9, 28, 13, 14, 15)

    @classmethod
    def today(cls):
        return cls(2026, 9, 28, 13, 14, 15)


if hasattr(thermdat, 'datetime'):
    thermdat.datetime = FixedClock

h = hashlib.sha256()
n_obs = [0]


def obs(*what):
    n_obs[0] += 1
    h.update(repr(what).encode('utf-8', 'backslashreplace'))


def attempt(fn, *a, **k):
    try:
        return ('ok', fn(*a, **k))
    except Exception as e:       # type and message are part of the behaviour
        return ('raised', type(e).__name__, str(e))


def describe(sp):
    if not isinstance(sp, Nasa):
        return repr(sp)
    return (sp.name, sp.phase, sorted(sp.elements.items()) if sp.elements is not None else None, sp.notes,
            repr(sp.T_low), repr(sp.T_mid), repr(sp.T_high), [repr(float(x)) for x in sp.a_low],
            [repr(float(x)) for x in sp.a_high], str(np.asarray(sp.a_low).dtype), type(sp.misc_models).__name__)


def describe_all(res):
    if res[0] != 'ok':
        return res
    v = res[1]
    if isinstance(v, dict):
        return ('dict', [(k, describe(x)) for k, x in v.items()])
    if isinstance(v, (list, tuple)):
        return (type(v).__name__, [describe(x) for x in v])
    return ('other', repr(v))


rnd = random.Random(20260928)
NAME_CHARS = 'ABCDEFGHIJKLMNOPQRSTUVWXYZabcdefghijklmnopqrstuvwxyz0123456789()*_-+=!,.#/[]\'"%{}'
SYMBOLS = ['H', 'C', 'O', 'N', 'Pt', 'PT', 'Cl', 'CL', 'Ar', 'AR', 'He', 'E', 'e', 'Ni', 'S', 'Si', 'D', 'T']
SPECIAL_NAMES = ['END', 'THERMO', 'ENDO', 'PENDING', '2-THERMO(S)', 'ISOTHERMOXEND!1', 'OH!v=1', 'CH2!', '1', '1E5',
                 'nan', '*CO', '#OH', '100', 'A', 'X' * 15, 'X' * 16, 'LONGNAME' * 3, 'N2O5', 'CH3,CH2']
NOTES = [None, '', 'TPIS89', 'L 8/88', '20260928', 'NIST-JANAF98', 'a much longer note than fits', 'J 3/61 ']


def number(lo=-30, hi=30):
    r = rnd.random()
    if r < 0.1:
        return 0.0
    m = rnd.uniform(1, 9.999999999) * rnd.choice((-1, 1))
    return m * 10.0 ** rnd.randint(lo, hi)


def species(i):
    name = rnd.choice(SPECIAL_NAMES) if rnd.random() < 0.35 else \
        ''.join(rnd.choice(NAME_CHARS) for _ in range(rnd.randint(1, 15)))
    n_el = rnd.randint(1, 4)
    el = {}
    for sym in rnd.sample(SYMBOLS, n_el):
        el[sym] = rnd.choice([1, 2, 9, 10, 12, 99, 100, 101, 500, 999])
    if rnd.random() < 0.3:
        el[rnd.choice(['Zr', 'W', 'K'])] = 0
        el = dict(rnd.sample(list(el.items()), len(el)))
    T = sorted(rnd.choice([1.0, 50.0, 200.0, 298.15, 300.0, 1000.0 / 3, 416.6666666666667, 1000.0, 1052.63, 3500.0,
                           6000.0, 9999.9]) for _ in range(3))
    return Nasa(name=name, elements=el, phase=rnd.choice('GSLBgs1'), T_low=T[0], T_mid=T[1], T_high=T[2],
                a_low=np.array([number() for _ in range(7)]), a_high=np.array([number() for _ in range(7)]),
                notes=rnd.choice(NOTES))


tmp = tempfile.mkdtemp()
os.chdir(tmp)            # relative file names: messages that name the file do not depend on the directory
tmp = '.'
species_pool = [species(i) for i in range(60)]
for case in range(90):
    coll = [rnd.choice(species_pool) for _ in range(rnd.randint(1, 6))]
    if case % 15 == 0:
        coll = coll * 40                                         # about 200 species
    as_dict = case % 3 == 0
    inp = {('k%d' % i if case % 6 == 0 else s.name): s for i, s in enumerate(coll)} if as_dict else coll
    kw = {'write_date': rnd.random() < 0.4}
    if rnd.random() < 0.4:
        extra = write_thermdat([rnd.choice(species_pool)], write_date=False)
        kw['supp_data'] = ''.join(extra.splitlines(True)[2:6]) if rnd.random() < 0.5 else \
            ''.join(extra.splitlines(True)[2:6]).rstrip('\n')
    if rnd.random() < 0.4:
        kw['supp_txt'] = rnd.choice(['! species fitted in this work', '! LEGEND: G = gas\n! THERMO data, RECOMMENDED\n',
                                     '! ' + 'APPENDIX with the THERMO data - ' * 3 + 'END\n', '!\n', '! a\n\n! b\n'])
    if rnd.random() < 0.2:
        kw['newline'] = '\r\n'
    text = attempt(write_thermdat, inp, **kw)
    obs('text', case, text)
    f = os.path.join(tmp, 'thermdat_%d' % case)
    ret = attempt(write_thermdat, inp, filename=f, **kw)
    obs('file', case, ret, open(f, 'rb').read() if os.path.exists(f) else None)
    if os.path.exists(f):
        for fmt, key in (('list', 'name'), ('tuple', 'name'), ('dict', 'name'), ('dict', 'phase'), ('set', 'name'),
                         ('dict', 'nokey')):
            obs('read', case, fmt, key, describe_all(attempt(read_thermdat, f, format=fmt, key=key)))
        obs('read-positional', case, describe_all(attempt(read_thermdat, f, 'dict')))

# species the writer cannot handle, unusual arguments
odd = [Nasa(name='FIVE', elements={'H': 1, 'C': 1, 'O': 1, 'N': 1, 'S': 1}, phase='G', T_low=200., T_mid=1000., T_high=3000.,
            a_low=np.ones(7), a_high=np.ones(7)),
       Nasa(name='NOEL', elements=None, phase='G', T_low=200., T_mid=1000., T_high=3000., a_low=np.ones(7), a_high=np.ones(7)),
       Nasa(name='SHORT', elements={'H': 1}, phase='G', T_low=200., T_mid=1000., T_high=3000., a_low=np.ones(3), a_high=np.ones(7)),
       Nasa(name='BIGEXP', elements={'H': 1}, phase='G', T_low=200., T_mid=1000., T_high=3000.,
            a_low=np.array([1e300, -1e-300, np.nan, np.inf, -np.inf, 1e100, 0.]), a_high=np.arange(7)),
       Nasa(name='FLOATS', elements={'H': 2.0, 'O': 1.5}, phase='G', T_low=200, T_mid=1000, T_high=3000, a_low=list(range(7)),
            a_high=np.ones(7)),
       Nasa(name='PHASE', elements={'H': 1}, phase=None, T_low=200., T_mid=1000., T_high=3000., a_low=np.ones(7), a_high=np.ones(7)),
       Nasa(name='BIGT', elements={'H': 1000}, phase='G', T_low=12345.678, T_mid=1e5, T_high=1e6, a_low=np.ones(7), a_high=np.ones(7))]
for sp in odd:
    for wd in (False, True):
        obs('odd', sp.name, wd, attempt(write_thermdat, [sp], write_date=wd))
obs('empty', attempt(write_thermdat, []), attempt(write_thermdat, {}), attempt(write_thermdat, None),
    attempt(write_thermdat, iter(species_pool[:2]), write_date=False), attempt(write_thermdat, tuple(species_pool[:2]), write_date=False),
    attempt(write_thermdat, species_pool[:1], supp_data='', write_date=False), attempt(write_thermdat, species_pool[:1], supp_txt='', write_date=False))

# hand-made and damaged files
good = write_thermdat(species_pool[:3], write_date=False)
lines = good.splitlines(True)
damaged = {'no header': ''.join(lines[2:]), 'no END': ''.join(lines[:-1]), 'record 2 missing': ''.join(lines[:3] + lines[4:]),
           'record 1 missing': ''.join(lines[:2] + lines[3:]), 'blank lines': '\n'.join(lines), 'tabs': good.replace('    2', '\t2'),
           'line number 5': good.replace('    4\n', '    5\n', 1), 'empty': '', 'only comment': '! nothing\n',
           'short record': ''.join(lines[:2]) + lines[2][:40] + '\n' + ''.join(lines[3:]),
           'crlf': good.replace('\n', '\r\n'), 'trailing text': good + '\nREACTIONS\nEND\n',
           'lower case': good.lower(), 'comment inside': ''.join(lines[:4]) + '! in between\n' + ''.join(lines[4:]),
           'four temperatures': lines[0] + '   100 200 300 400\n' + ''.join(lines[2:])}
for label, txt in damaged.items():
    f = os.path.join(tmp, 'damaged')
    with open(f, 'w', newline='') as fp:
        fp.write(txt)
    for fmt in ('list', 'dict'):
        obs('damaged', label, fmt, describe_all(attempt(read_thermdat, f, format=fmt)))
obs('missing file', attempt(read_thermdat, os.path.join(tmp, 'nonexistent')))

# the private helpers, called directly as the unit tests do
for ln in lines + ['', ' ', '\n', '100 200 300', '100 200 300 400', 'a b c  1\n', '   4', 'x' * 90, '1 2 x', '  1e3 2 3 \n']:
    obs('helpers', ln, attempt(thermdat._get_fields, ln), attempt(thermdat._get_fields, ln, delimiter='E'),
        attempt(thermdat._get_fields, ln, remove_fields=['', '\n', 'END']), attempt(thermdat._is_temperature_header, ln),
        attempt(thermdat._read_line_num, ln))
    r1 = attempt(thermdat._read_line1, ln)
    obs('line1', ln, (r1[0], sorted((k, repr(v)) for k, v in r1[1].items())) if r1[0] == 'ok' else r1)
    for fn in (thermdat._read_line2, thermdat._read_line3, thermdat._read_line4):
        d = {'a_low': np.arange(7.), 'a_high': np.arange(7.) * 2} if fn is not thermdat._read_line2 else {'x': 1}
        r = attempt(fn, ln, d)
        obs(fn.__name__, ln, r[0] if r[0] == 'ok' else r, sorted((k, repr(v)) for k, v in d.items()))
for e, s in ((16, 'abc'), (2, 'abc'), (0, ''), (-3, 'abc'), (5, 'abcde')):
    obs('insert_space', attempt(thermdat._insert_space, e, s))
for sp in species_pool[:12] + odd:
    obs('write helpers', sp.name, attempt(thermdat._write_line1, sp), attempt(thermdat._write_line1, sp, False),
        attempt(thermdat._write_line1, sp, write_date=False), attempt(thermdat._write_line2, sp),
        attempt(thermdat._write_line3, sp), attempt(thermdat._write_line4, sp))
for notes in (12345, 3.5, ['a', 'b'], b'bytes', ('t',)):
    sp = Nasa(name='ODDNOTES', elements={'H': 1}, phase='G', T_low=200., T_mid=1000., T_high=3000., a_low=np.ones(7),
              a_high=np.ones(7), notes=notes)
    r = attempt(write_thermdat, [sp], write_date=False)
    if '1' == '1':
        obs('non-str notes', repr(notes), r)
    else:
        # notes that are not text: shown, not part of the digest (see C05.md, B3)
        print('notes=%r (not text, outside the digest): %s' % (notes, r[:2] if r[0] == 'raised' else 'written'))

digest = h.hexdigest()
print('%d observations, digest %s' % (n_obs[0], digest))
if digest != EXPECTED:
    print('WRONG: differs from the digest of the unchanged tree (%s)' % EXPECTED)
    sys.exit(1)
print('same behaviour as the unchanged tree')
