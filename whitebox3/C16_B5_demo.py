"""C16 part B demo (shared by C16_B1 ... C16_B5): the tree found on PYTHONPATH is compared, bit for bit, with the
algorithm of f5552c6 written out below against scipy directly.  Compared: species, moles, mole fractions, T, P, the
text and category of every warning, and the public attributes elements / mol_elem / ele_feed / species_mw of the object.
Exit 0 = no difference (both on f5552c6 and on the refactored tree), exit 1 = a difference."""
import os
import sys
import warnings
from itertools import repeat

import numpy as np
from scipy.optimize import minimize

import pmutt
from pmutt import constants as c
from pmutt import pmutt_list_to_dict
from pmutt.empirical.nasa import Nasa
from pmutt.equilibrium import Equilibrium
from pmutt.io.thermdat import read_thermdat

THERMDAT = os.path.join(os.path.dirname(pmutt.__file__), 'tests', 'equilibrium', 'thermdat_equilibrium_unittest.txt')


class Ref:
    """Equilibrium of f5552c6, verbatim arithmetic"""

    def __init__(self, model, network):
        self.model = pmutt_list_to_dict(model) if type(model) is list else model
        self.elements = []
        self.species = list(network.keys())
        feed = np.array(list(network.values()))
        self.mol_elem = np.zeros([len(self.species), 0])
        for i, x in enumerate(self.species):
            ele = self.model[x].elements
            for y in ele:
                try:
                    self.elements.index(y)
                except ValueError:
                    self.elements.append(y)
                    if len(self.elements) > np.size(self.mol_elem, 1):
                        self.mol_elem = np.append(self.mol_elem, np.zeros([len(self.species), 1]), 1)
                self.mol_elem[i, self.elements.index(y)] = self.model[x].elements[y]
        self.elements = list(np.array(self.elements)[sum(self.mol_elem, 0) > 0])
        self.mol_elem = self.mol_elem[:, sum(self.mol_elem, 0) > 0]
        self.ele_feed = feed.dot(self.mol_elem)
        self.species_mw = self.mol_elem.dot([c.atomic_weight[x] for x in self.elements])

    def _objective(self, x, *args):
        s = 0.0
        nT = sum(x)
        g = np.array(args[0])
        p = args[1]
        for i in range(len(x)):
            s += x[i]*(g[i] + np.log(x[i]*p/nT))
        return s

    def _objective_jac(self, x, *args):
        s = np.zeros_like(x)
        nT = sum(x)
        g = np.array(args[0])
        p = args[1]
        for i in range(len(x)):
            s[i] = g[i] + np.log(x[i]*p/nT)
        return s

    def _con(self, x):
        return x.dot(self.mol_elem) - self.ele_feed

    def _con_jac(self, x):
        return self.mol_elem.T

    def get_net_comp(self, T, P):
        guess = list(repeat(1.0, len(self.species)))
        b = [1e-20, sum(self.ele_feed)]
        bounds = list(repeat(b, len(self.species)))
        con = {'type': 'eq', 'fun': self._con, 'jac': self._con_jac}
        gibbs = [self.model[x].get_GoRT(T=T) for x in self.species]
        sol = minimize(self._objective, guess, args=(gibbs, P*1.01325), jac=self._objective_jac, method='SLSQP',
                       options={'ftol': 1e-14, 'maxiter': 5000}, bounds=bounds, constraints=con)
        if not sol.success:
            warnings.warn('Gibbs energy minimization did not converge ({}). The composition returned may not be the '
                          'equilibrium composition.'.format(sol.message), RuntimeWarning)
        return self.species, sol.x, sol.x/np.sum(sol.x), P, T


def recorded(f):
    with warnings.catch_warnings(record=True) as w:
        warnings.simplefilter('always')
        warnings.filterwarnings('ignore', 'Values in x were outside bounds during a ')
        with np.errstate(all='ignore'):
            out = f()
    return out, [(x.category.__name__, str(x.message)) for x in w if 'encountered in' not in str(x.message)]


def compare(tag, model, network, conditions):
    bad = []
    (new, wn0) = recorded(lambda: Equilibrium(model, network))
    (ref, wr0) = recorded(lambda: Ref(model, network))
    if wn0 != wr0:
        bad.append('%s: warnings of the constructor differ' % tag)
    if [str(e) for e in new.elements] != [str(e) for e in ref.elements] or \
            [type(e) for e in new.elements] != [type(e) for e in ref.elements]:
        bad.append('%s: elements %r != %r' % (tag, new.elements, ref.elements))
    for nm in ('mol_elem', 'ele_feed', 'species_mw'):
        a, b = getattr(new, nm), getattr(ref, nm)
        if not (isinstance(a, np.ndarray) and a.dtype == b.dtype and a.shape == b.shape and np.array_equal(a, b)):
            bad.append('%s: attribute %s differs: %r != %r' % (tag, nm, a, b))
    n = 0
    for T, P in conditions:
        r, wn = recorded(lambda: new.get_net_comp(T=T, P=P))
        (sp, mo, mf, P_, T_), wr = recorded(lambda: ref.get_net_comp(T, P))
        n += 1
        same = (list(r.species) == list(sp) and isinstance(r.moles, np.ndarray) and r.moles.dtype == mo.dtype and
                np.array_equal(r.moles, mo, equal_nan=True) and np.array_equal(r.mole_frac, mf, equal_nan=True) and
                r.T == T_ and r.P == P_ and wn == wr and tuple(r._fields) == ('species', 'moles', 'mole_frac', 'P', 'T'))
        if not same:
            bad.append('%s T=%g P=%g: %r %r | %r %r' % (tag, T, P, r.moles, wn, mo, wr))
    return n, bad


def stripped(sp):
    """the same species with the composition written without zero counts (as a hand-made model has it)"""
    return Nasa(name=sp.name, T_low=sp.T_low, T_mid=sp.T_mid, T_high=sp.T_high, a_low=sp.a_low, a_high=sp.a_high,
                elements={k: v for k, v in sp.elements.items() if v != 0}, phase='G')


def main():
    full = read_thermdat(THERMDAT, 'dict')
    names = list(full)
    lean = {k: stripped(v) for k, v in full.items()}
    rng = np.random.RandomState(16)
    calls, bad = 0, []

    def run(tag, model, network, conditions):
        nonlocal calls
        n, b = compare(tag, model, network, conditions)
        calls += n
        bad.extend(b)
    stored = {'CH3CH2CH3': 1, 'H2O': 0.7, 'H2': 0, 'CH2CHCH3': 0, 'CH4': 0, 'CHCH': 0, 'CH2CH2': 0, 'CH3CH3': 0,
              'CO2': 0, 'CO': 0}
    run('stored', full, stored, [(500, 1.0), (800, 0.01), (1500, 100.), (500, 1.0)])
    run('stored, list model', list(full.values()), stored, [(500, 1.0), (300, 10)])
    run('stored, lean model', lean, stored, [(500, 1.0), (1200, 3.)])
    run('small feed', full, {'CH4': 1e-8, 'H2O': 1e-8, 'CO': 0, 'H2': 0, 'CO2': 0}, [(1000, 1.), (700, 20.)])
    run('integer feed', lean, {'CH4': 1, 'H2O': 2, 'CO': 0, 'H2': 0, 'CO2': 0}, [(1000, 1), (600, 0.1)])
    # networks on which SLSQP gives up
    run('gives up 1', full, {'CH2CHCH3': 1.0, 'CH2CH2': 0.0, 'H2O': 2.0}, [(500, 1.), (700, 1.), (1000, 10.)])
    run('gives up 2', lean, {'H2O': 1, 'CH3CH3': 2}, [(1500, 10.)])
    run('gives up 3', list(lean.values()), {'CH2CH2': 2, 'CH2CHCH3': 0, 'CO2': 10}, [(1000, 1.)])
    # elements met in another order, hydrocarbons only (an all-zero O column in the thermdat model)
    run('no oxygen', full, {'H2': 1., 'CH4': 0.5, 'CH2CH2': 0.2, 'CH3CH3': 0., 'CHCH': 0.}, [(900, 1.), (1400, 0.05)])
    run('no oxygen, lean', lean, {'H2': 1., 'CH4': 0.5, 'CH2CH2': 0.2, 'CH3CH3': 0., 'CHCH': 0.}, [(900, 1.)])
    run('H first', lean, {'H2': 1., 'H2O': 0.5, 'CO': 0.2, 'CO2': 0., 'CH4': 0.}, [(1100, 2.)])
    for k in range(40):
        ns = rng.randint(2, 11)
        sel = [names[i] for i in rng.permutation(len(names))[:ns]]
        feed = {s: (0. if rng.rand() < 0.4 else float(10**rng.uniform(-3, 1))) for s in sel}
        if not any(feed.values()):
            feed[sel[0]] = 1.0
        model = (full, lean, list(full.values()), list(lean.values()))[k % 4]
        conds = [(float(rng.uniform(300, 1500)), float(10**rng.uniform(-2, 2))) for _ in range(2)]
        run('random %d' % k, model, feed, conds)
    print('%d calls compared, %d differ' % (calls, len(bad)))
    for b in bad[:10]:
        print('DIFFERENT', b)
    return 1 if bad else 0


if __name__ == '__main__':
    sys.exit(main())
