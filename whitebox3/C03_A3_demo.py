"""C03_A3: the zero-Cp fallback of NASA-7 keeps a T_mid handed in by the user - also when it is a LIST of candidates,
which then reaches the anchoring code unreduced.  Run with PYTHONPATH=<tree>."""
import sys
import warnings
import numpy as np
from pmutt.statmech import StatMech, presets
from pmutt.empirical.nasa import Nasa

warnings.simplefilter('ignore')
model = StatMech(name='e', potentialenergy=-1.5, spin=1, **presets['electronic'])      # Cp/R = 0 at every T
bad = 0
for T_mid in ([500., 700., 900.], np.array([400., 800.]), (600., 1000.)):
    try:
        sp = Nasa.from_model(model=model, name='e', T_low=300., T_high=1200., n_T=40, T_mid=T_mid)
        T_ref = 750.
        ok = (abs(sp.get_HoRT(T=T_ref) - model.get_HoRT(T=T_ref)) < 1e-9 and
              abs(sp.get_SoR(T=T_ref) - model.get_SoR(T=T_ref)) < 1e-9 and sp.T_low < sp.T_mid < sp.T_high)
        print('T_mid=%-22r -> T_low, T_mid, T_high = %.1f, %.2f, %.1f; H/RT(750)=%.6f (source %.6f) S/R=%.6f (%.6f)  %s'
              % (T_mid, sp.T_low, sp.T_mid, sp.T_high, sp.get_HoRT(T=T_ref), model.get_HoRT(T=T_ref),
                 sp.get_SoR(T=T_ref), model.get_SoR(T=T_ref), 'ok' if ok else 'WRONG'))
    except Exception as e:
        ok = False
        print('T_mid=%-22r -> WRONG: no species, %s: %s' % (T_mid, type(e).__name__, e))
    bad += not ok
# data given directly
try:
    sp = Nasa.from_data(name='z', T=np.linspace(200., 900., 15), CpoR=np.zeros(15), T_ref=300., HoRT_ref=-10.,
                        SoR_ref=2.5, T_mid=[400., 600.])
    ok = abs(sp.get_HoRT(T=300.) + 10.) < 1e-9 and abs(sp.get_SoR(T=300.) - 2.5) < 1e-9
    print('from_data(zeros, T_mid=[400, 600]) -> T_mid=%.1f H/RT(300)=%.6f S/R(300)=%.6f  %s'
          % (sp.T_mid, sp.get_HoRT(T=300.), sp.get_SoR(T=300.), 'ok' if ok else 'WRONG'))
except Exception as e:
    ok = False
    print('from_data(zeros, T_mid=[400, 600]) -> WRONG: no species, %s: %s' % (type(e).__name__, e))
bad += not ok
sys.exit(1 if bad else 0)
