"""Equivalence battery for the C11 part-B refactorings (the same file is used as C11_B1..B5_demo.py).

Builds objects of every serialisable class, sends them through json.dumps(cls=pmuttEncoder) / json.loads(object_hook=
json_to_pmutt) twice, through the direct path json_to_pmutt(obj.to_dict()), records what the encoder does with objects
it must refuse (exception type, message, type of __context__), the class strings, constructor signatures and
TypeErrors of CatSite / IdealGasEOS / vanDerWaalsEOS, every IdealGasEOS getter called by keyword, by position, with
defaults and with arrays (through the instance), and the generic to_dict.  The transcript is hashed and compared with the
hash recorded on the unchanged tree f5552c6: exit 0 when identical, 1 otherwise.  `-v` prints the transcript.
The tree is taken from PYTHONPATH."""
import hashlib
import inspect
import json
import re
import sys
import warnings

import numpy as np

warnings.simplefilter('ignore')

from pmutt.io.json import pmuttEncoder, json_to_pmutt, type_to_class, remove_class
from pmutt import _pmuttBase
from pmutt.statmech import StatMech, EmptyMode, ConstantMode, presets
from pmutt.statmech.trans import FreeTrans
from pmutt.statmech.vib import HarmonicVib, QRRHOVib, EinsteinVib, DebyeVib
from pmutt.statmech.rot import RigidRotor
from pmutt.statmech.elec import GroundStateElec
from pmutt.statmech.nucl import EmptyNucl
from pmutt.statmech.lsr import LSR, ExtendedLSR
from pmutt.empirical import GasPressureAdj
from pmutt.empirical.nasa import Nasa, Nasa9, SingleNasa9
from pmutt.empirical.shomate import Shomate
from pmutt.empirical.references import Reference, References
from pmutt.mixture.cov import PiecewiseCovEffect
from pmutt.chemkin import CatSite
from pmutt.reaction import Reaction, Reactions, ChemkinReaction
from pmutt.reaction.bep import BEP
from pmutt.reaction.phasediagram import PhaseDiagram
from pmutt.omkm.reaction import SurfaceReaction, BEP as omkmBEP
from pmutt.eos import IdealGasEOS, vanDerWaalsEOS

EXPECTED = 'f1d6405283206cf1093504761bea1b59272a2d50644d3bae154bdc4a023d18ce'
out = []


def rec(*a):
    out.append(' '.join(str(x) for x in a))


def clean(text):
    return re.sub(r' at 0x[0-9a-f]+', ' at 0x?', str(text))


def exc_of(fn):
    try:
        r = fn()
    except BaseException as e:          # noqa
        return 'raises %s(%s) context=%s cause=%s' % (type(e).__name__, clean(e), type(e.__context__).__name__,
                                                       type(e.__cause__).__name__)
    return 'returns %s' % clean(repr(r))


def num(x):
    return repr(np.asarray(x, dtype=float).tolist())


# ---------------------------------------------------------------- objects
pt = CatSite('PT(S)', 2.1671e-09, 21.45, 'PT(B)')
pt_kw = CatSite(name='PT(S)', site_density=2.1671e-09, density=21.45, bulk_specie='PT(B)')
a_lo = [4.04618796e+00, -6.87238823e-04, 2.79722240e-06, -1.42318006e-09, 2.34551159e-13, -3.02826236e+04,
        -2.50036531e-01]
a_hi = [2.41854323e+00, 3.35448922e-03, -9.66398101e-07, 1.34441829e-10, -7.18940063e-15, -2.97582484e+04,
        8.37839787e+00]


def nasa(name, phase, **kw):
    return Nasa(name=name, T_low=200., T_mid=1610.97, T_high=3500., a_low=a_lo, a_high=a_hi, phase=phase,
                elements={'H': 2, 'O': 1}, **kw)


cov = PiecewiseCovEffect('CO(S)', 'CO(S)', [0., 0.5], [0., -30.], name='cov_CO')
h2o_g = nasa('H2O', 'G')
h2o_s = nasa('H2O(S)', 'S', cat_site=pt, n_sites=1, misc_models=[cov], notes={'source': 'fit', 'n': 3})
rec('Nasa[cat_site class]', exc_of(lambda: nasa('H2O(S2)', 'S', cat_site=CatSite, site_density=1.e-9, density=10.,
                                                 bulk_specie='NI(B)')))
sm = StatMech(name='H2', elements={'H': 2}, potentialenergy=-6.77, spin=0., symmetrynumber=2,
              rot_temperatures=[85.3], geometry='linear', molecular_weight=2.016, vib_wavenumbers=[4306.1793],
              smiles='[HH]', notes='n', **presets['idealgas'])
refs = References(references=[Reference(T_ref=298.15, HoRT_ref=0., name='H2', elements={'H': 2}, phase='G', model=sm)])
sm_ref = StatMech(name='H2r', elements={'H': 2}, references=refs, potentialenergy=-6.0, **presets['electronic'])
s9 = [SingleNasa9(T_low=200., T_high=1000., a=np.arange(1., 10.) * 1e-3),
      SingleNasa9(T_low=1000., T_high=6000., a=np.arange(2., 11.) * 1e-3)]
n9 = Nasa9(name='X9', nasas=s9, elements={'O': 1}, phase='g', n_sites=2)
sho = Shomate(name='H2O(l)', elements={'H': 2, 'O': 1}, phase='L', T_low=298., T_high=500.,
              a=np.array([-203.606, 1523.29, -3196.413, 2474.455, 3.855326, -256.5478, -488.7163, -285.8304]))
rxn = Reaction(reactants=[h2o_g], reactants_stoich=[1.], products=[h2o_s], products_stoich=[1.],
               transition_state=[nasa('TS', 'S')], transition_state_stoich=[1.])
crxn = ChemkinReaction(reactants=[h2o_g, nasa('PT(S)', 'S', cat_site=pt)], reactants_stoich=[1., 1.],
                       products=[h2o_s], products_stoich=[1.], is_adsorption=True, sticking_coeff=0.3, beta=0.)
obep = omkmBEP(slope=0.5, intercept=20., name='CH', direction='cleavage', descriptor='delta_H')
srxn = SurfaceReaction(reactants=[h2o_s], reactants_stoich=[1.], products=[nasa('P(S)', 'S', cat_site=pt)],
                       products_stoich=[1.], transition_state=[obep], transition_state_stoich=[1.], id=7, direction='cleavage', A=1.e13, beta=0.,
                       Ea=0.)
objs = [
    ('CatSite', pt), ('CatSite[kw]', pt_kw), ('IdealGasEOS', IdealGasEOS()), ('vanDerWaalsEOS', vanDerWaalsEOS(0.547, 3.05e-5)),
    ('EmptyMode', EmptyMode()), ('EmptyNucl', EmptyNucl()), ('GasPressureAdj', GasPressureAdj()),
    ('ConstantMode', ConstantMode(q=2., H=-1.4, notes='x')), ('FreeTrans', FreeTrans(n_degrees=3, molecular_weight=2.)),
    ('HarmonicVib', HarmonicVib([-100., 400., 3000.], imaginary_substitute=50.)),
    ('QRRHOVib', QRRHOVib([50., 400., 3000.], Bav=1.e-44)), ('EinsteinVib', EinsteinVib(250., 0.1)),
    ('DebyeVib', DebyeVib(215., 1.)), ('RigidRotor', RigidRotor('C2v', [40.1, 20.9, 13.4], 'nonlinear')),
    ('RigidRotor[monatomic]', RigidRotor(1, geometry='monatomic')), ('GroundStateElec', GroundStateElec(-14.2, 0.5)),
    ('PiecewiseCovEffect', cov), ('Nasa[G]', h2o_g), ('Nasa[S]', h2o_s),
    ('StatMech', sm), ('References', refs), ('StatMech[refs]', sm_ref), ('Nasa9', n9), ('Shomate', sho),
    ('BEP', BEP(slope=0.3, intercept=10., name='b', descriptor='rev_delta_H', notes='n')), ('omkm.BEP', omkmBEP(slope=0.5, intercept=20., name='q')),
    ('Reaction', rxn), ('ChemkinReaction', crxn), ('SurfaceReaction', srxn), ('Reactions', Reactions([rxn, rxn])),
    ('PhaseDiagram', PhaseDiagram([rxn])), ('LSR', LSR(slope=0.5, intercept=-10., reaction=-20., surf_species=-3., gas_species=sm)),
    ('ExtendedLSR', ExtendedLSR(slopes=[0.5, 0.2], intercept=1., reactions=[2., rxn], notes='e')),
]
for label, o in objs:
    rec('==', label, type(o).__module__, type(o).__qualname__, 'class string', o.to_dict()['class'],
        'keys', list(o.to_dict().keys()))
    rec('   vars', sorted(vars(o)), 'eq self', o == o, 'eq other', o == objs[0][1] if o is not objs[0][1] else '-',
        'hashable', exc_of(lambda: bool(hash(o) or 1)).split('(')[0])
    text = json.dumps(o, cls=pmuttEncoder)
    dec = json.loads(text, object_hook=json_to_pmutt)
    text2 = json.dumps(dec, cls=pmuttEncoder)
    rec('   text sha', hashlib.sha256(text.encode()).hexdigest()[:16], 'len', len(text), 'decoded', type(dec).__name__,
        'second text same', text2 == text, 'dict equal', dec.to_dict() == o.to_dict())
    d = o.to_dict()
    snap = json.dumps(d, cls=pmuttEncoder)
    rec('   direct', exc_of(lambda: type(json_to_pmutt(d)).__name__), 'argument unchanged',
        json.dumps(d, cls=pmuttEncoder) == snap)
    rec('   default()', exc_of(lambda: sorted(pmuttEncoder().default(o))))

# ---------------------------------------------------------------- the encoder on what it must refuse


class NoToDict:
    pass


class ToDictRaises:
    def to_dict(self):
        return self.missing


class ToDictOther:
    def to_dict(self):
        raise KeyError('k')


class Sub(EinsteinVib):
    class Inner(_pmuttBase):
        pass


for label, o in (('plain object', NoToDict()), ('to_dict raises AttributeError', ToDictRaises()),
                 ('to_dict raises KeyError', ToDictOther()), ('ndarray', np.array([1., 2.])), ('np.int64', np.int64(3)),
                 ('set', {1}), ('bytes', b'x'), ('complex', 1j), ('class object', EmptyMode), ('function', len)):
    rec('refuse', label, '| dumps', exc_of(lambda: json.dumps({'a': [o]}, cls=pmuttEncoder)), '| default',
        exc_of(lambda: pmuttEncoder().default(o)))
rec('subclass', Sub(1., 2.).to_dict()['class'], Sub.Inner().to_dict(), exc_of(lambda: json_to_pmutt(Sub(1., 2.).to_dict())))
for label, d in (('no class', {'a': 1}), ('unknown class', {'class': 'x'}), ('class number', {'class': 3}),
                 ('class list', {'class': ['a']}), ('class dict', {'class': {}}), ('list', [1]), ('str', 'class'),
                 ('None', None), ('int', 3), ('References obj', refs), ('Nasa9 obj', n9), ('Reactions obj', Reactions([rxn]))):
    r = exc_of(lambda: json_to_pmutt(d))
    rec('hook', label, r if not hasattr(d, 'to_dict') else 'same object: %s' % (json_to_pmutt(d) is d))
rec('type_to_class', exc_of(lambda: type_to_class('x')), exc_of(lambda: type_to_class(['x'])),
    type_to_class("<class 'pmutt.chemkin.CatSite'>") is CatSite)
rec('remove_class', remove_class({'class': 1, 'type': 2, '_id': 3, 'a': 4}))

# ---------------------------------------------------------------- constructors, signatures
for cls in (CatSite, IdealGasEOS, vanDerWaalsEOS, ConstantMode, EmptyMode):
    rec('signature', cls.__name__, list(inspect.signature(cls).parameters),
        [str(p.default) for p in inspect.signature(cls).parameters.values()],
        [str(p.kind) for p in inspect.signature(cls).parameters.values()])
rec('CatSite()', exc_of(lambda: CatSite()))
rec('CatSite(3 args)', exc_of(lambda: CatSite('a', 1., 2.)))
rec('CatSite(5 args)', exc_of(lambda: CatSite('a', 1., 2., 'b', 3)))
rec('CatSite(bad kw)', exc_of(lambda: CatSite(name='a', site_density=1., density=2., bulk_specie='b', x=1)))
rec('CatSite(dup)', exc_of(lambda: CatSite('a', 1., 2., 'b', name='c')))
rec('CatSite from_dict extra', exc_of(lambda: CatSite.from_dict({'class': 'c', 'name': 'a', 'site_density': 1.,
                                                                  'density': 2., 'bulk_specie': 'b', 'x': 1})))
rec('CatSite from_dict', vars(CatSite.from_dict({'class': 'c', 'name': 'a', 'site_density': 1., 'density': 2.,
                                                  'bulk_specie': 'b'})))
c2 = CatSite('a', 1., 2., 'b')
c2.density = 5.
c2.extra = 'e'
rec('CatSite mutable', vars(c2), c2.to_dict(), c2 == CatSite('a', 1., 5., 'b'), exc_of(lambda: c2 < c2).split('(')[0])
rec('CatSite class attrs', [k for k in ('name', 'site_density', 'density', 'bulk_specie') if hasattr(CatSite, k)])
rec('IdealGasEOS(1)', exc_of(lambda: IdealGasEOS(1)))

# ---------------------------------------------------------------- IdealGasEOS getters through the instance
eos = IdealGasEOS()
Ts = np.array([250., 300., 1000.])
for nm, kw, pos in (('get_V', dict(T=250., P=30., n=2.), (250., 30., 2.)), ('get_P', dict(T=250., V=1.5, n=2.), (250., 1.5, 2.)),
                    ('get_T', dict(V=1.5, P=30., n=2.), (1.5, 30., 2.)), ('get_n', dict(V=1.5, P=30., T=250.), (1.5, 30., 250.))):
    f = getattr(eos, nm)
    rec(nm, 'kw', num(f(**kw)), 'pos', num(f(*pos)), 'defaults', num(f()), 'one kw', num(f(**{list(kw)[0]: list(kw.values())[0]})),
        'array', num(f(**{list(kw)[0]: Ts})), 'params', list(inspect.signature(f).parameters),
        'too many', exc_of(lambda: f(1., 2., 3., 4.)).split('(')[0], 'bad kw', exc_of(lambda: f(x=1.)).split('(')[0])
rec('eos round trip V', num(eos.get_V(T=eos.get_T(V=2., P=3., n=4.), P=3., n=4.)))
from pmutt import _pass_expected_arguments
rec('eos pass_expected', num(_pass_expected_arguments(eos.get_V, T=300., P=2., n=1., unused=5)))
em = EmptyMode()
rec('EmptyMode getters', [getattr(em, g)() for g in ('get_q', 'get_CvoR', 'get_CpoR', 'get_UoRT', 'get_HoRT', 'get_SoR',
                                                     'get_FoRT', 'get_GoRT')],
    [exc_of(lambda: getattr(em, g)(1)).split('(')[0] for g in ('get_q',)],
    num(StatMech(name='e').get_GoRT(T=300.)), num(sm.get_GoRT(T=300.)), num(h2o_s.get_GoRT(T=500., **{'CO(S)_kwargs': {'x': 0.8}})))

text = '\n'.join(out)
digest = hashlib.sha256(text.encode()).hexdigest()
if '-v' in sys.argv:
    print(text)
print('transcript: %d lines, sha256 %s' % (len(out), digest))
if not EXPECTED:
    print('no expected hash recorded')
    sys.exit(0)
if digest != EXPECTED:
    print('WRONG: transcript differs from the one of the unchanged tree (%s)' % EXPECTED)
    sys.exit(1)
print('OK: same observable behaviour as the unchanged tree')
