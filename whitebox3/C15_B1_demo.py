"""C15_B1 (behaviour-preserving): the headers are trimmed once, before the row loop, from input_data.columns.tolist(); the cells of a row are taken with row_data.tolist().

One workbook with 24 random worksheets (subsets / orders of every documented special and ordinary column, padded
headers and cells, 1-30 vib_wavenumber columns, 1-60 rows, ints / floats / 0 / negative / tiny / equal numbers, holes),
50 calls of read_excel (by name, by position, positional options, skiprows [] / None / [1, 2], header=2, dtype,
usecols, na_values, nrows, unknown preset / model, nasa.foo, a column without header, header-only sheet, missing sheet /
file, one positional too many) and every public setter called directly (keywords and positionally, unknown names).
Everything returned, raised (type and text) or warned - values, types, key order - plus the presets table is hashed
and compared with the digest recorded on the original tree f5552c6.  exit 0 on both trees; `--dump FILE` writes the
hashed text.  Tree from PYTHONPATH."""
import hashlib
import os
import random
import sys
import tempfile
import warnings

import numpy as np
import openpyxl

import pmutt.io.excel as xl
from pmutt.statmech import presets

EXPECTED = '2773d703f414a845c594c362478062ec012543a5596a1c1df9ce288cfccb5f2b'

ORDINARY = ['name', 'phase', 'potentialenergy', 'T_low', 'T_mid', 'T_high', 'notes', 'symmetrynumber', 'spin',
            'n_degrees', 'geometry', 'smiles', 'T_ref', 'HoRT_ref', 'phase2', 'Comment 1']
MODELS = {'trans_model': ['FreeTrans', 'EmptyMode', ' emptymode '], 'rot_model': ['RigidRotor', 'EmptyMode'],
          'vib_model': ['HarmonicVib', 'QRRHOVib', 'EinsteinVib', ' DebyeVib', 'EMPTYMODE'],
          'elec_model': ['GroundStateElec', 'LSR', 'ExtendedLSR', 'EmptyMode'], 'nucl_model': ['EmptyNucl', 'emptymode'],
          'statmech_model': ['idealgas', ' IdealGas ', 'harmonic', 'electronic', 'placeholder', 'constant', 'HARMONIC']}
TEXT = {'name': ['H2O', ' CO2 ', 'acetic acid', 'CH3OH(S)', '-', 'Pt(S)', 'n-C4H10', 'TS1'], 'phase': ['G', 'g', ' S', 'L '],
        'notes': ['from NIST', ' - ', '?', 'see ref. 3'], 'geometry': ['linear', 'nonlinear', 'monatomic'],
        'smiles': ['O', 'C(=O)O', '[H][H]'], 'phase2': ['fcc', 'hcp'], 'Comment 1': ['x', 'y z']}
FORMULAS = ['H2O', 'CH3OH', 'Al2O3', 'C10H22', ' CO2', 'Pt', 'CH3CH2CH3']


def pad(rng, h):
    return rng.choice(['', '', '', ' ', '  ']) + h + rng.choice(['', '', '', ' ', '   '])


def number(rng, integer=False):
    k = rng.random()
    if integer or k < 0.25:
        return rng.choice([0, 1, 2, 3, 12, 667, 1595, -3, 100000])
    if k < 0.35:
        return 0.0
    return rng.choice([1.5, -14.22, 3657.05, 1e-11, 2.5e8, 667.4, 667.4, 0.25, -0.001, 298.15])


def make_sheet(rng, ws, comment_row=True, extra_header_rows=0):
    cols = []           # (header, cell generator)
    for h in rng.sample(ORDINARY, rng.randint(1, 8)):
        cols.append((h, (lambda h=h: rng.choice(TEXT[h]) if h in TEXT else number(rng))))
    if rng.random() < 0.6:
        for el in rng.sample(['H', 'O', 'C', 'Pt', 'Al', 'N'], rng.randint(1, 4)):
            cols.append(('element.' + el, lambda: number(rng, integer=rng.random() < 0.7)))
    if rng.random() < 0.5:
        cols.append(('formula', lambda: rng.choice(FORMULAS)))
    if rng.random() < 0.8:
        for _ in range(rng.randint(1, 30)):
            cols.append(('vib_wavenumber', lambda: number(rng)))
    if rng.random() < 0.6:
        for _ in range(rng.randint(1, 3)):
            cols.append(('rot_temperature', lambda: number(rng)))
    for nm in rng.sample(['sites', 'T2', 'coverages_CO2', 'labels'], rng.randint(0, 3)):
        for _ in range(rng.randint(1, 12)):
            cols.append(('list.' + nm, (lambda nm=nm: rng.choice([' fcc ', 'hcp', 'top']) if nm in ('sites', 'labels')
                                        else number(rng))))
    for nm in rng.sample(['misc', 'bonds2'], rng.randint(0, 2)):
        for key in rng.sample(['alpha', 'beta', 'C1', 'O2', 'x'], rng.randint(1, 4)):
            cols.append(('dict.%s.%s' % (nm, key), lambda: rng.choice([number(rng), 'text', ' - '])))
    if rng.random() < 0.5:
        for which in ('a_low', 'a_high'):
            for i in rng.sample(range(7), rng.randint(1, 7)):
                cols.append(('nasa.%s.%d' % (which, i), lambda: number(rng)))
    for m in rng.sample(sorted(MODELS), rng.randint(0, 6)):
        cols.append((m, (lambda m=m: rng.choice(MODELS[m]))))
    rng.shuffle(cols)
    # keep repeated columns (pandas numbers them) in their relative order, anywhere in the sheet
    for _ in range(extra_header_rows):
        ws.append(['title'])
    ws.append([pad(rng, h) if h not in ('vib_wavenumber', 'rot_temperature') and not h.startswith('list.') else h
               for h, _ in cols])
    if comment_row:
        ws.append(['comment'] * len(cols))
    n_rows = rng.choice([1, 2, 3, 5, 17, 60])
    p_empty = rng.choice([0.0, 0.2, 0.5, 0.9])
    for _ in range(n_rows):
        ws.append([None if rng.random() < p_empty else gen() for _, gen in cols])


def show(x):
    if isinstance(x, dict):
        return '{' + ', '.join('%s: %s' % (show(k), show(v)) for k, v in x.items()) + '}'
    if isinstance(x, np.ndarray):
        return 'ndarray<%s>%s' % (x.dtype, show(x.tolist()))
    if isinstance(x, (list, tuple)):
        return '%s[%s]' % (type(x).__name__, ', '.join(show(v) for v in x))
    if isinstance(x, type):
        return '<class %s.%s>' % (x.__module__, x.__qualname__)
    return '%s:%r' % (type(x).__name__, x)


def attempt(lines, label, fn, *args, **kwargs):
    with warnings.catch_warnings(record=True) as caught:
        warnings.simplefilter('always')
        try:
            out = show(fn(*args, **kwargs))
        except Exception as e:          # noqa
            out = 'RAISED %s: %s' % (type(e).__name__, e)
    lines.append('%s -> %s' % (label, out))
    for w in caught:
        if 'pmutt' in str(w.filename):
            lines.append('   warning %s: %s' % (w.category.__name__, w.message))


def main():
    rng = random.Random(20260928)
    lines = []
    cwd = os.getcwd()
    with tempfile.TemporaryDirectory() as tmp:
        os.chdir(tmp)
        try:
            wb = openpyxl.Workbook()
            names = []
            for k in range(24):
                ws = wb.active if k == 0 else wb.create_sheet()
                ws.title = 'sheet %d' % k if k % 3 else 'S%d' % k
                names.append(ws.title)
                make_sheet(rng, ws, comment_row=(k % 4 != 1), extra_header_rows=(2 if k % 6 == 5 else 0))
            ws = wb.create_sheet('odd')
            ws.append(['name', None, 'nasa.foo', 'statmech_model', 'vib_model'])
            ws.append(['c'] * 5)
            ws.append(['A', 3.5, None, None, None])
            ws.append(['B', None, 1.0, None, None])
            ws.append(['C', None, None, 'no such preset', None])
            ws.append(['D', None, None, None, 'NoSuchModel'])
            ws = wb.create_sheet('only header')
            ws.append(['name', 'phase'])
            wb.save('book.xlsx')
            wb.save(os.path.join(tmp, 'other.xlsx'))
            for k, nm in enumerate(names):
                kw = {'sheet_name': nm}
                if k % 4 == 1:
                    kw['skiprows'] = [] if k % 8 == 1 else None
                if k % 6 == 5:
                    kw['header'] = 2
                    kw['skiprows'] = [3]
                attempt(lines, 'sheet %r %r' % (nm, sorted(kw)), xl.read_excel, 'book.xlsx', **kw)
            attempt(lines, 'default sheet', xl.read_excel, 'book.xlsx')
            attempt(lines, 'default sheet, keyword io', xl.read_excel, io='book.xlsx')
            attempt(lines, 'by position', xl.read_excel, 'book.xlsx', sheet_name=2)
            attempt(lines, 'positional options', xl.read_excel, 'book.xlsx', [1], 0, '.', 0., False, sheet_name=3)
            attempt(lines, 'too many positionals', xl.read_excel, 'book.xlsx', [1], 0, '.', 0., False, 3)
            attempt(lines, 'other workbook', xl.read_excel, os.path.join(tmp, 'other.xlsx'), sheet_name=names[4])
            attempt(lines, 'again', xl.read_excel, 'book.xlsx', sheet_name=names[0])
            attempt(lines, 'dtype object', xl.read_excel, 'book.xlsx', sheet_name=names[2], dtype=object)
            attempt(lines, 'usecols', xl.read_excel, 'book.xlsx', sheet_name=names[3], usecols='A:D')
            attempt(lines, 'na_values', xl.read_excel, 'book.xlsx', sheet_name=names[0], na_values=['-', 'G'])
            attempt(lines, 'only header', xl.read_excel, 'book.xlsx', sheet_name='only header')
            attempt(lines, 'missing sheet', xl.read_excel, 'book.xlsx', sheet_name='nope')
            attempt(lines, 'missing file', xl.read_excel, 'nope.xlsx')
            for skip in ([1], [1, 2], [1, 2, 3], [1, 2, 3, 4]):
                attempt(lines, 'odd sheet skiprows=%r' % skip, xl.read_excel, 'book.xlsx', sheet_name='odd', skiprows=skip)
            attempt(lines, 'odd sheet first row only', xl.read_excel, 'book.xlsx', sheet_name='odd', nrows=1)
        finally:
            os.chdir(cwd)
    # the public setters, called directly (keywords and positionally), on fresh and on filled structures
    for mode, names_ in sorted(MODELS.items()):
        setter = getattr(xl, 'set_' + mode)
        for nm in names_ + ['NoSuchModel', 'np', '']:
            for start in ({}, {'%s' % mode: 'kept?', 'n_degrees': 7, 'x': 1}):
                d = dict(start)
                attempt(lines, 'set_%s(%r, %s)' % (mode, nm.strip(), show(start)),
                        lambda: (setter(nm.strip(), d) if start else setter(model=nm.strip(), output_structure=d), d))
    for fn, calls in (('set_element', [(('element.H', 2), {}), (('element#Pt', 1.5), {'delimiter': '#'})]),
                      ('set_formula', [(('C2H6',), {})]),
                      ('set_vib_wavenumbers', [((100.5,), {}), ((100.5,), {})]),
                      ('set_rot_temperatures', [((1,), {}), ((2.5,), {})]),
                      ('set_nasa_a_low', [(('nasa.a_low.0', 1.5), {}), (('nasa.a_low.6', 2), {}), (('nasa.a_low.7', 2), {}),
                                          (('nasa/a_low/3', 0.125), {'delimiter': '/'})]),
                      ('set_nasa_a_high', [(('nasa.a_high.1', 1.5), {}), (('nasa.a_high.1', 2.5), {}),
                                           (('nasa.a_high.x', 2), {})]),
                      ('set_list_value', [(('sites', 'a'), {}), (('sites', 2), {})]),
                      ('set_dict_value', [(('misc', 'k', 1), {}), (('misc', 'k2', 'v'), {})])):
        d = {}
        for args, kw in calls:
            attempt(lines, '%s%r%r' % (fn, args, kw),
                    lambda: (getattr(xl, fn)(*args[:1], **dict(zip(_names(fn)[1:], args[1:]), output_structure=d, **kw)), d))
            attempt(lines, '%s%r%r positional' % (fn, args, kw),
                    lambda: (getattr(xl, fn)(*(args + (d,)), **kw), d))
    lines.append('presets ' + show(presets))
    text = '\n'.join(lines)
    if len(sys.argv) > 2 and sys.argv[1] == '--dump':
        open(sys.argv[2], 'w').write(text)
    digest = hashlib.sha256(text.encode()).hexdigest()
    n_rec = text.count('name')
    print('%d lines, digest %s' % (len(lines), digest))
    if digest != EXPECTED:
        print('WRONG: behaviour differs from the original tree (expected digest %s)' % EXPECTED)
        return 1
    print('OK: same behaviour as the original tree')
    return 0


def _names(fn):
    import inspect
    return list(inspect.signature(getattr(xl, fn)).parameters)


sys.exit(main())
