"""C07 A3: the thermo YAML file of a model with NASA-7 species must load with a plain YAML loader (OpenMKM reads it with
yaml-cpp, pMuTT's own read_yaml uses yaml.SafeLoader) and carry the polynomial coefficients as numbers.
Run with PYTHONPATH=<tree>."""
import sys
import numpy as np
import yaml
from pmutt.empirical.nasa import Nasa
from pmutt.omkm.phase import IdealGas
from pmutt.omkm.units import Units
from pmutt.io.omkm import write_thermo_yaml

a_low = np.array([3.53100528, -1.23660988e-04, -5.02999433e-07, 2.43530612e-09, -1.40881235e-12, -1046.97628, 2.96747038])
a_high = np.array([2.95257637, 1.39690040e-03, -4.92631603e-07, 7.86010195e-11, -4.60755204e-15, -923.948688, 5.87188762])
n2 = Nasa(name='N2', T_low=200., T_mid=1000., T_high=6000., a_low=a_low, a_high=a_high, elements={'N': 2})
h2 = Nasa(name='H2', T_low=200., T_mid=1000., T_high=6000., a_low=a_low * 0.9, a_high=a_high * 0.9, elements={'H': 2})
gas = IdealGas(name='gas', species=[n2, h2])
text = write_thermo_yaml(phases=[gas], species=[n2, h2], units=Units())
ok = True
try:
    docs = [d for d in yaml.safe_load_all(text.replace('\n\n-', '\n-')) if d]
except yaml.YAMLError as e:
    print('the thermo YAML file does not load: %s' % str(e).splitlines()[0])
    i = text.index('data:')
    print('--- the species section reads ---')
    print(text[i - 120:i + 420])
    ok = False
else:
    sp = [d for d in docs if 'species' in d][0]['species']
    got = sp[0]['thermo']['data']
    ok = got == [a_low.tolist(), a_high.tolist()] and all(type(x) is float for row in got for x in row)
    print('N2 data as loaded:', got)
print('OK' if ok else 'WRONG: the coefficients of the NASA polynomials are not written as YAML numbers')
sys.exit(0 if ok else 1)
