"""C14_A4: _parse_reaction_state collects (name, coefficient) pairs and adds the coefficient of a repeated species to
the pair it found - the pairs are tuples, so every reaction string with a repeated species raises TypeError.
exit 1 / WRONG with the change, exit 0 without. The tree is taken from PYTHONPATH."""
import sys
from pmutt.reaction import Reaction


class Sp:
    def __init__(self, name):
        self.name = name

    def __repr__(self):
        return self.name


sp = {n: Sp(n) for n in ('H2', 'O2', 'H2O', 'H2O_TS', 'OH')}
cases = [
    ('H2 + H2 + O2 = 2H2O', (['H2', 'O2'], [2., 1.], ['H2O'], [2.], None)),
    ('0.5H2 + 0.5 H2 + 0.5O2 = H2O_TS = H2O', (['H2', 'O2'], [1., 0.5], ['H2O'], [1.], ['H2O_TS'])),
    ('H2 + O2 = OH + 0.5H2 + OH', (['H2', 'O2'], [1., 1.], ['OH', 'H2'], [2., 0.5], None)),
    ('2OH.OH>>H2O.2O2.H2O', (['OH'], [3.], ['H2O', 'O2'], [2., 2.], None)),
    # controls without a repeated species
    ('H2 + 0.5O2 = H2O_TS = H2O', (['H2', 'O2'], [1., 0.5], ['H2O'], [1.], ['H2O_TS'])),
]
bad = 0
for text, (r, rs, p, ps, ts) in cases:
    kw = {'species_delimiter': '.', 'reaction_delimiter': '>>'} if '>>' in text else {}
    try:
        x = Reaction.from_string(text, sp, **kw)
        got = ([s.name for s in x.reactants], x.reactants_stoich, [s.name for s in x.products], x.products_stoich,
               None if x.transition_state is None else [s.name for s in x.transition_state])
    except Exception as e:
        got = '%s: %s' % (type(e).__name__, e)
    ok = got == (r, rs, p, ps, ts)
    print('%-5s %r -> %s' % ('ok' if ok else 'WRONG', text, got))
    bad += not ok
sys.exit(1 if bad else 0)
