"""C16_A4 demo: Equilibrium.from_thermdat('thermdat', network) in two project directories, each holding its own file
called `thermdat` (the conventional name) - same species names, different NASA-7 polynomials.

Takes pMuTT from PYTHONPATH.  Each returned composition must minimise the Gibbs energy computed from the file of THE
DIRECTORY IT WAS BUILT IN (read again here with read_thermdat): for species with x > 1e-6 the chemical potentials
mu_i = g_i(T) + ln(x_i P 1.01325 / n) must lie in the span of the element columns.  WRONG (exit 1): distance > 1e-3 and
nothing signalled."""
import os
import shutil
import sys
import tempfile
import warnings

import numpy as np

import pmutt
from pmutt.empirical.nasa import Nasa
from pmutt.equilibrium import Equilibrium
from pmutt.io.thermdat import read_thermdat, write_thermdat

THERMDAT = os.path.join(os.path.dirname(pmutt.__file__), 'tests', 'equilibrium', 'thermdat_equilibrium_unittest.txt')


def residual(model, eq, r, T, P):
    x = r.moles
    n = x.sum()
    g = np.array([model[s].get_GoRT(T=T) for s in eq.species])
    keep = x / n > 1e-6
    mu = g[keep] + np.log(x[keep] * P * 1.01325 / n)
    A = eq.mol_elem[keep]
    lam = np.linalg.lstsq(A, mu, rcond=None)[0]
    return np.abs(mu - A.dot(lam)).max()


def shifted(sp, dH_over_R):
    a_low, a_high = np.array(sp.a_low, dtype=float), np.array(sp.a_high, dtype=float)
    a_low[5] += dH_over_R
    a_high[5] += dH_over_R
    return Nasa(name=sp.name, T_low=sp.T_low, T_mid=sp.T_mid, T_high=sp.T_high, a_low=a_low, a_high=a_high,
                elements=dict(sp.elements), phase=sp.phase)


def main():
    species = read_thermdat(THERMDAT, 'list')
    other = [shifted(s, -5000.) if s.name == 'CO2' else shifted(s, 2000.) if s.name == 'CH4' else s for s in species]
    top = tempfile.mkdtemp(prefix='c16_a4_')
    here = os.getcwd()
    network = {'CH4': 1.0, 'H2O': 2.0, 'CO': 0.0, 'H2': 0.0, 'CO2': 0.0}
    T, P = 900., 1.
    wrong = 0
    try:
        for name, sp in (('project_1', species), ('project_2', other)):
            os.mkdir(os.path.join(top, name))
            write_thermdat(sp, filename=os.path.join(top, name, 'thermdat'), write_date=False)
        for name in ('project_1', 'project_2', 'project_1'):
            os.chdir(os.path.join(top, name))
            eq = Equilibrium.from_thermdat('thermdat', dict(network))
            with warnings.catch_warnings(record=True) as w:
                warnings.simplefilter('always')
                with np.errstate(all='ignore'):
                    r = eq.get_net_comp(T=T, P=P)
            signalled = any('did not converge' in str(x.message) for x in w)
            on_disk = read_thermdat('thermdat', 'dict')
            d = residual(on_disk, eq, r, T, P)
            bad = d > 1e-3 and not signalled
            wrong += bad
            print('%s%s/thermdat, T=%g K P=%g atm: moles CH4 %.5f H2O %.5f CO %.5f H2 %.5f CO2 %.5f; max |deltaG/RT + ln Q| '
                  'with the polynomials of this file = %.2g, signalled=%s'
                  % ('WRONG: ' if bad else '', name, T, P, *r.moles, d, signalled))
    finally:
        os.chdir(here)
        shutil.rmtree(top, ignore_errors=True)
    return 1 if wrong else 0


if __name__ == '__main__':
    sys.exit(main())
