"""C17_A4: get_UoRT interpolates with np.interp between the energies at the breakpoints: np.interp holds the last
value beyond the last breakpoint, where the last listed slope has to continue (a model of one breakpoint is 0
everywhere).  exit 1 + WRONG with the change, exit 0 on the unchanged tree (tree taken from PYTHONPATH)."""
import sys
from pmutt.mixture.cov import PiecewiseCovEffect

R = 1.9872036e-3
T = 450.
bad = []


def U(m, x):
    return m.get_UoRT(x=x, T=T) * R * T


m = PiecewiseCovEffect('A', 'B', [0., 0.5], [1., 3.])
for x, want in ((0.25, 0.25), (0.5, 0.5), (0.7, 1.1), (1.0, 2.0)):
    got = U(m, x)
    print('[0,.5]/[1,3]: U(%g) = %.6f (right %.6f)' % (x, got, want))
    if abs(got - want) > 1e-9:
        bad.append('WRONG: [0,.5]/[1,3] U(%g) = %.6f, right %.6f' % (x, got, want))
m.insert(0.75, 0.5)
m.pop(1)                                # [0, .75] / [1, .5]
for x, want in ((0.6, 0.6), (0.9, 0.825)):
    got = U(m, x)
    print('after insert(.75,.5), pop(1): U(%g) = %.6f (right %.6f)' % (x, got, want))
    if abs(got - want) > 1e-9:
        bad.append('WRONG: after insert/pop U(%g) = %.6f, right %.6f' % (x, got, want))
m1 = PiecewiseCovEffect('A', 'B', [0.], [2.])
got = U(m1, 0.4)
print('[0]/[2]: U(0.4) = %.6f (right 0.8)' % got)
if abs(got - 0.8) > 1e-9:
    bad.append('WRONG: one breakpoint, slope 2: U(0.4) = %.6f, right 0.8' % got)
for b in bad:
    print(b)
print('FAIL' if bad else 'OK')
sys.exit(1 if bad else 0)
