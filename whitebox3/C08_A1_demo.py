"""C08 A1: the stoichiometric coefficients written as Python integers.

A + B = [TS] = 2 C with Nasa-like species of the test-suite (H2, O2, H2O StatMech species): the user writes the
coefficients as the integers they are (reactants_stoich=[2, 1], products_stoich=[2]).  Every state value must be the
stoichiometry-weighted sum of the species values, every change final minus initial, K = exp(-delta G/RT).
The same reaction written with floats ([2., 1.], [2.]) is evaluated as a control.
"""
import sys
import numpy as np
from ase.build import molecule
from pmutt.statmech import StatMech, presets
from pmutt.reaction import Reaction, ChemkinReaction
from pmutt.omkm.reaction import SurfaceReaction

ig = presets['idealgas']
H2O = StatMech(name='H2O', atoms=molecule('H2O'), symmetrynumber=2, vib_wavenumbers=[3825.434, 3710.2642, 1582.432],
               potentialenergy=-6.7598, spin=0., **ig)
H2 = StatMech(name='H2', atoms=molecule('H2'), symmetrynumber=2, vib_wavenumbers=[4306.1793],
              potentialenergy=-14.2209, spin=0., **ig)
O2 = StatMech(name='O2', atoms=molecule('O2'), symmetrynumber=2, vib_wavenumbers=[2205.], potentialenergy=-9.862407,
              spin=1., **ig)
TS = StatMech(name='H2O_TS', atoms=molecule('H2O'), symmetrynumber=1., vib_wavenumbers=[4000., 3900., 1600.],
              potentialenergy=-5.7598, spin=0., **ig)
for sp in (H2O, H2, O2, TS):
    sp.phase = 'G'
    sp.cat_site = None

T, P = 500., 2.
bad = 0


def ssum(species, stoich, meth):
    return sum(nu * getattr(sp, meth)(T=T, P=P) for sp, nu in zip(species, stoich))


for cls in (Reaction, ChemkinReaction, SurfaceReaction):
    for tag, conv in (('integer coefficients', int), ('float coefficients', float)):
        rs, ps, ts = [conv(2), conv(1)], [conv(2)], [conv(2)]
        rxn = cls(reactants=[H2, O2], reactants_stoich=rs, products=[H2O], products_stoich=ps,
                  transition_state=[TS], transition_state_stoich=ts)
        for meth in ('get_HoRT', 'get_GoRT', 'get_SoR', 'get_CpoR'):
            r, p, t = ssum([H2, O2], rs, meth), ssum([H2O], ps, meth), ssum([TS], ts, meth)
            X = meth[4:]
            checks = [
                ('%s_state(reactants)' % X, getattr(rxn, 'get_%s_state' % X)(state='reactants', T=T, P=P), r),
                ('%s_state(products)' % X, getattr(rxn, 'get_%s_state' % X)(state='products', T=T, P=P), p),
                ('delta_%s' % X, getattr(rxn, 'get_delta_%s' % X)(T=T, P=P), p - r),
                ('delta_%s(rev)' % X, getattr(rxn, 'get_delta_%s' % X)(T=T, P=P, rev=True), r - p),
                ('delta_%s(act) - delta_%s(rev, act)' % (X, X),
                 getattr(rxn, 'get_delta_%s' % X)(T=T, P=P, act=True)
                 - getattr(rxn, 'get_delta_%s' % X)(T=T, P=P, rev=True, act=True), p - r),
            ]
            for label, got, want in checks:
                if not np.isclose(got, want, rtol=1e-10, atol=1e-10):
                    bad += 1
                    print('WRONG %s, %s: %s = %.6f, the stoichiometry-weighted sum over the species is %.6f'
                          % (cls.__name__, tag, label, got, want))
        lnK = np.log(rxn.get_Keq(T=T, P=P))
        dG = ssum([H2O], ps, 'get_GoRT') - ssum([H2, O2], rs, 'get_GoRT')
        if not np.isclose(lnK, -dG, rtol=1e-10):
            bad += 1
            print('WRONG %s, %s: ln Keq = %.6f, -delta G/RT = %.6f' % (cls.__name__, tag, lnK, -dG))
        lnKK = np.log(rxn.get_Keq(T=T, P=P)) + np.log(rxn.get_Keq(T=T, P=P, rev=True))
        if not np.isclose(lnKK, 0., atol=1e-9):
            bad += 1
            print('WRONG %s, %s: ln(K_forward K_reverse) = %.6f, not 0' % (cls.__name__, tag, lnKK))
print('violations: %d' % bad)
sys.exit(1 if bad else 0)
