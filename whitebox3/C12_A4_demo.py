"""C12_A4: convert_unit is wrapped in functools.lru_cache ("it is called thousands of times with the same numbers").
lru_cache hashes its arguments, an ndarray is unhashable: every array argument now raises TypeError, for every pair of
units; numbers are unaffected (and that is all the test-suite passes).
Property: conversions are affine/proportional maps for "arbitrary numeric arguments" (arrays are the everyday case).
Takes the tree from PYTHONPATH; exit 1 and WRONG lines with the change, exit 0 on the original tree."""
import sys
import numpy as np
import pmutt.constants as c

bad = 0
for arr, a, b, want in ((np.array([300., 400.]), 'K', 'C', [26.85, 126.85]),
                        (np.arange(300, 700, 100), 'K', 'R', [540., 720., 900., 1080.]),
                        (np.array([1., 2., 3.]), 'kJ', 'J', [1000., 2000., 3000.]),
                        (np.array([1., 10.]), 'bar', 'kPa', [100., 1000.])):
    try:
        got = c.convert_unit(arr, a, b)
        ok = np.allclose(got, want, rtol=1e-12, atol=0.)
        print('%s convert_unit(%r, %r, %r) = %r' % ('right' if ok else 'WRONG', arr.tolist(), a, b, got.tolist()))
    except TypeError as e:
        ok = False
        print('WRONG convert_unit(%r, %r, %r) raises TypeError: %s (right: %r)' % (arr.tolist(), a, b, e, want))
    bad += not ok
assert c.convert_unit(300., 'K', 'C') == 300. - 273.15
print('%d wrong' % bad)
sys.exit(1 if bad else 0)
