"""C20 A2 - the cubic of get_Vm uses R = kB*NA (8.314459865590527) while get_P / get_T use the tabulated
R('J/mol/K') = 8.3144598.  The two differ by 7.9e-9; on the liquid root P = RT/(Vm-b) - a/Vm^2 is a small difference of
two large terms, so the pressure that comes back is off by up to a per cent.
Tree is taken from PYTHONPATH.  Exit 1 / WRONG with the change, exit 0 without."""
import sys

from pmutt.eos import vanDerWaalsEOS

TOL = 1e-6          # the unchanged tree is within 1e-8 everywhere below
gases = {'CO2': (0.364, 4.27e-5), 'H2O': (0.5537, 3.05e-5), 'N2': (0.137, 3.87e-5)}
bad = 0
worst = 0.
for name, (a, b) in gases.items():
    eos = vanDerWaalsEOS(a=a, b=b)
    for T in (60., 100., 250.):
        if T >= eos.get_Tc():
            continue
        for P in (1e-3, 1e-2, 1., 30.):
            for n in (1e-3, 2.):
                V = eos.get_V(T=T, P=P, n=n, gas_phase=False)
                Pb = eos.get_P(T=T, V=V, n=n)
                err = abs(Pb / P - 1.)
                worst = max(worst, err)
                ok = err < TOL
                bad += not ok
                if not ok or (T, P, n) in ((100., 1e-3, 2.), (250., 1., 2.)):
                    print('%s %s liquid root T=%g K P=%g bar n=%g: V=%.9e m3, get_P(T, V, n) = %.9g bar (rel. error %.1e)'
                          % ('right' if ok else 'WRONG', name, T, P, n, V, Pb, err))
print('worst relative error of the pressure that comes back: %.2e; %d states wrong' % (worst, bad))
sys.exit(1 if bad else 0)
