"""Equivalence check for C10 part B (same script for every B change): a spread of reference sets and target species is
pushed through References / StatMech of the tree on PYTHONPATH; every result (floats as float.hex, types, key order,
warnings with category and text, exceptions with type and text) goes into one sha256 digest, which must equal the
digest recorded on the unchanged tree f5552c6.  Exit 0 when equal, 1 otherwise (the first differing records can be
listed with --dump FILE on both trees and diffed)."""
import hashlib
import json
import random
import sys
import warnings

import numpy as np

from pmutt import constants as c
from pmutt.empirical.references import Reference, References
from pmutt.statmech import StatMech, trans, vib, rot, elec, presets

EXPECTED = '60c411f1c1cf778bd7b5a39e1d465f1c02977ae5070bee878464a0e6d1b4d0e0'
T0 = c.T0('K')
records = []


def enc(v):
    if isinstance(v, (float, np.floating)):
        return '%s:%s' % (type(v).__name__, float(v).hex())
    if isinstance(v, (bool, np.bool_)):
        return '%s:%r' % (type(v).__name__, bool(v))
    if isinstance(v, (int, np.integer)):
        return '%s:%d' % (type(v).__name__, int(v))
    if isinstance(v, np.ndarray):
        return 'ndarray[%s,%s]:%s' % (v.dtype, v.shape, [enc(x) for x in v.ravel().tolist()])
    if isinstance(v, dict):
        return '%s{%s}' % (type(v).__name__, ', '.join('%r: %s' % (k, enc(x)) for k, x in v.items()))
    if isinstance(v, (list, tuple)):
        return '%s[%s]' % (type(v).__name__, ', '.join(enc(x) for x in v))
    if v is None or isinstance(v, str):
        return repr(v)
    return '<%s>' % type(v).__name__


def rec(label, fn):
    with warnings.catch_warnings(record=True) as w:
        warnings.simplefilter('always')
        try:
            out = enc(fn())
        except Exception as e:          # noqa
            out = 'RAISED %s: %s' % (type(e).__name__, e)
    records.append('%s = %s || %s' % (label, out, [(x.category.__name__, str(x.message)) for x in w]))


class Dft:
    def __init__(self, h0, cp=0.):
        self.h0, self.cp = h0, cp

    def get_HoRT(self, T):
        return self.h0 * T0 / T + self.cp * (T - T0) / T

    def get_SoR(self, T):
        return 3.5 + self.cp * np.log(T / T0)

    def get_CpoR(self, T):
        return self.cp

    def get_CvoR(self, T):
        return self.cp - 1.

    def get_GoRT(self, T):
        return self.get_HoRT(T) - self.get_SoR(T)

    def to_dict(self):
        return {'class': 'Dft', 'h0': self.h0, 'cp': self.cp}


NAMES = {'elements': ['C', 'H', 'O', 'N', 'Pt', 'Cl'], 'groups': ['CH3', 'CH2', 'OH', 'C(C)(H)3', 'Pt(S)']}
rng = random.Random(20260928)


def make_ref(k, dname, pool, T_ref, fractional, unnamed):
    comp = {}
    for d in rng.sample(pool, rng.randint(1, len(pool))):
        comp[d] = rng.choice([0.5, 1.5, 0.25, 2.75]) if fractional and rng.random() < 0.4 else rng.randint(0 if rng.random() < 0.2 else 1, 6)
    r = Reference(name=None if unnamed else 'ref%d' % (k % 3), elements=dict(comp) if dname == 'elements' else None,
                  T_ref=T_ref, HoRT_ref=rng.choice([0, 0., -97.541, -30.093, 12.75, -241.8]),
                  model=Dft(rng.uniform(-1500., -100.), rng.choice([0., 4.2])))
    if dname != 'elements':
        r.groups = dict(comp)
    elif rng.random() < 0.5:
        r.groups = {'X': 1}
    return r


def observe(tag, refs, dname, pool):
    rec(tag + ' descriptors', refs.get_descriptors)
    rec(tag + ' matrix', refs.get_descriptors_matrix)
    rec(tag + ' offset', lambda: refs.offset)
    rec(tag + ' T_ref', lambda: refs.T_ref)
    rec(tag + ' len', lambda: len(refs))
    rec(tag + ' index', lambda: [refs.index('ref1'), refs.index(None), refs.index('zzz')])
    rec(tag + ' iter', lambda: [r.name for r in refs] + [refs[0].name, refs[-1].name])
    rec(tag + ' zero', lambda: [refs.get_CvoR(), refs.get_CpoR(), refs.get_UoRT(), refs.get_SoR(),
                                refs.get_AoRT(descriptors={}, T=300.)])
    rec(tag + ' to_dict', lambda: {k: v for k, v in refs.to_dict().items() if k != 'references'})
    target = {d: rng.choice([1, 2, 0.5, 3, 0]) for d in rng.sample(pool, rng.randint(1, len(pool)))}
    target['Zz'] = 2
    order = list(target)
    rng.shuffle(order)
    target = {k: target[k] for k in order}
    for T in (None, T0, 250., 1000):
        rec(tag + ' get_HoRT T=%r' % T, lambda: refs.get_HoRT(descriptors=target, T=T))
    rec(tag + ' get_HoRT no T', lambda: refs.get_HoRT(target))
    rec(tag + ' get_GoRT', lambda: refs.get_GoRT(descriptors=target, T=432.1))
    rec(tag + ' get_HoRT np counts', lambda: refs.get_HoRT({k: np.int64(2) for k in target}, T=333.))
    kw = {'name': 'sp'}
    if dname == 'elements':
        kw['elements'] = target
    sp = StatMech(elec_model=Dft(-700.25, 4.5), vib_model=Dft(3.25, 1.5), references=refs, **kw)
    if dname != 'elements':
        sp.groups = target
    for q in ('get_HoRT', 'get_GoRT', 'get_SoR', 'get_CpoR', 'get_CvoR'):
        for use in (True, False):
            rec('%s sp.%s use=%r' % (tag, q, use), lambda: getattr(sp, q)(T=650., use_references=use))
            rec('%s sp.%s use=%r kwargs' % (tag, q, use),
                lambda: getattr(sp, q)(T=650., sp_kwargs={'T': 410.}, other_kwargs={'T': 99.}, use_references=use))
    rec(tag + ' sp.get_HoRT verbose', lambda: sp.get_HoRT(T=650., verbose=True))
    for q, units in (('get_H', 'kJ/mol'), ('get_G', 'kcal/mol'), ('get_S', 'J/mol/K'), ('get_Cp', 'J/mol/K')):
        for use in (True, False):
            rec('%s sp.%s use=%r' % (tag, q, use), lambda: getattr(sp, q)(T=512.5, units=units, use_references=use))
    rec(tag + ' sp.vars', lambda: [k for k in vars(sp)])


def case(k):
    dname = rng.choice(['elements', 'groups'])
    pool = rng.sample(NAMES[dname], rng.randint(1, 5))
    n = rng.randint(1, 8)
    vary_T = rng.random() < 0.3
    fractional = rng.random() < 0.4
    unnamed = rng.random() < 0.3
    Ts = [T0 + (0.01 if vary_T and i % 2 else 0.) for i in range(n + 4)]
    if rng.random() < 0.2:
        Ts = [298 for _ in Ts]                  # integer temperatures
    members = [make_ref(i, dname, pool, Ts[i], fractional, unnamed) for i in range(n)]
    if rng.random() < 0.3 and n > 1:
        src = members[0]
        members[1] = Reference(name=src.name, elements=dict(src.elements) if src.elements else None, T_ref=src.T_ref,
                               HoRT_ref=src.HoRT_ref + 1., model=src.model)
        if dname != 'elements':
            members[1].groups = dict(src.groups)
    tag = 'case%d[%s,%d refs,%s]' % (k, dname, n, ','.join(pool))
    kw = {} if dname == 'elements' else {'descriptor': dname}
    made = []
    rec(tag + ' construct', lambda: made.append(References(references=list(members), **kw)))
    if not made:
        return
    refs = made[0]
    observe(tag, refs, dname, pool)
    extra_pool = pool + [d for d in NAMES[dname] if d not in pool][:1]
    extra = make_ref(n, dname, extra_pool, Ts[n], fractional, unnamed)
    rec(tag + ' append', lambda: refs.append(extra))
    rec(tag + ' refit', refs.fit_HoRT_offset)
    observe(tag + ' +append', refs, dname, extra_pool)
    more = [make_ref(n + 1 + j, dname, extra_pool, Ts[n + 1 + j], fractional, unnamed) for j in range(2)]
    rec(tag + ' extend', lambda: refs.extend(more))
    rec(tag + ' refit2', refs.fit_HoRT_offset)
    observe(tag + ' +extend', refs, dname, extra_pool)
    rec(tag + ' pop', lambda: refs.pop())
    rec(tag + ' remove', lambda: refs.remove(more[0]))
    rec(tag + ' refit3', refs.fit_HoRT_offset)
    observe(tag + ' -2', refs, dname, extra_pool)
    rec(tag + ' clear', refs.clear_offset)
    rec(tag + ' after clear', lambda: refs.offset)


for k in range(40):
    case(k)

# objects built with offsets, defaults of the constructor, a species made from classes and presets
r0 = References(offset={'H': -1.5, 'O': 2})
rec('defaults', lambda: [r0.descriptor, r0.T_ref, r0.references, r0.get_HoRT({'H': 2, 'O': 1}, T=500.)])
rec('defaults to_dict', r0.to_dict)
rec('positional', lambda: vars(References({'A': 1.}, None, 'groups', 300.)))
rec('class zero', lambda: [References.get_CvoR(r0), References.get_SoR(r0)])
h2o = StatMech(name='H2O', references=r0, trans_model=trans.FreeTrans, n_degrees=3, vib_model=vib.HarmonicVib,
               elec_model=elec.GroundStateElec, rot_model=rot.RigidRotor,
               vib_wavenumbers=np.array([3825.434, 3710.264, 1582.432]), potentialenergy=-14.2209,
               geometry='nonlinear', symmetrynumber=2, spin=0, molecular_weight=18.015,
               rot_temperatures=[40.1, 20.9, 13.4], elements={'H': 2, 'O': 1})
rec('H2O vars', lambda: [(k, type(v).__name__) for k, v in vars(h2o).items()])
for use in (True, False):
    rec('H2O H use=%r' % use, lambda: h2o.get_H(T=700., units='kJ/mol', use_references=use))
    rec('H2O G use=%r' % use, lambda: h2o.get_G(T=700., P=1.5, units='eV', use_references=use))
rec('H2O to_dict references', lambda: h2o.to_dict()['references'])
rec('H2O roundtrip', lambda: StatMech.from_dict(json.loads(json.dumps(h2o.to_dict(), default=lambda o: o.tolist())))
    .get_HoRT(T=350.))

# degenerate sets: no descriptor at all, no species at all
empty = [Reference(name='e%d' % i, elements={}, T_ref=T0, HoRT_ref=0., model=Dft(-10.)) for i in range(2)]
rec('empty compositions', lambda: References(references=empty).offset)
rec('empty compositions matrix', lambda: References(offset={}, references=empty).get_descriptors_matrix())
rec('no species', lambda: References(references=[]).offset)
rec('no species matrix', lambda: References(offset={}, references=[]).get_descriptors_matrix())

text = '\n'.join(records)
if '--dump' in sys.argv:
    with open(sys.argv[sys.argv.index('--dump') + 1], 'w') as fh:
        fh.write(text + '\n')
digest = hashlib.sha256(text.encode()).hexdigest()
print('%d records, digest %s' % (len(records), digest))
if digest != EXPECTED:
    print('WRONG: results differ from the unchanged tree (expected digest %s)' % EXPECTED)
    sys.exit(1)
print('identical to the unchanged tree')
