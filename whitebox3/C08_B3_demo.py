"""C08 B3: equivalence of the refactoring C08_B3.diff with the original tree (f5552c6).

The outputs of the battery below were recorded on the original tree and are embedded in this file (REFERENCE); the
script recomputes them on the tree found on PYTHONPATH and compares every record: values bit for bit (repr of the
double, type of the result), exceptions by type and text.  Exit 0 on the original and on the refactored tree.

battery of calls whose outputs (repr of the value, bit for bit, or type and text of the exception) are recorded
"""
import copy
import warnings
import numpy as np

warnings.filterwarnings('ignore')


def build():
    from ase.build import molecule
    from pmutt.statmech import StatMech, presets
    from pmutt.empirical.nasa import Nasa
    ig = presets['idealgas']
    sm = {
        'H2O': StatMech(name='H2O', atoms=molecule('H2O'), symmetrynumber=2,
                        vib_wavenumbers=[3825.434, 3710.2642, 1582.432], potentialenergy=-6.7598, spin=0., **ig),
        'H2': StatMech(name='H2', atoms=molecule('H2'), symmetrynumber=2, vib_wavenumbers=[4306.1793],
                       potentialenergy=-14.2209, spin=0., **ig),
        'O2': StatMech(name='O2', atoms=molecule('O2'), symmetrynumber=2, vib_wavenumbers=[2205.],
                       potentialenergy=-9.862407, spin=1., **ig),
        'H2O_TS': StatMech(name='H2O_TS', atoms=molecule('H2O'), symmetrynumber=1.,
                           vib_wavenumbers=[4000., 3900., 1600.], potentialenergy=-5.7598, spin=0., **ig),
        'OH_TS': StatMech(name='OH_TS', atoms=molecule('OH'), symmetrynumber=1., vib_wavenumbers=[3600.],
                          potentialenergy=-3.1, spin=0.5, **ig),
    }
    na = {
        'H2O': Nasa(name='H2O', T_low=200., T_mid=1000., T_high=3500., elements={'H': 2, 'O': 1},
                    a_low=[4.19864056E+00, -2.03643410E-03, 6.52040211E-06, -5.48797062E-09, 1.77197817E-12,
                           -3.02937267E+04, -8.49032208E-01],
                    a_high=[3.03399249E+00, 2.17691804E-03, -1.64072518E-07, -9.70419870E-11, 1.68200992E-14,
                            -3.00042971E+04, 4.96677010E+00]),
        'H2': Nasa(name='H2', T_low=200., T_mid=1000., T_high=3500., elements={'H': 2},
                   a_low=[2.34433112E+00, 7.98052075E-03, -1.94781510E-05, 2.01572094E-08, -7.37611761E-12,
                          -9.17935173E+02, 6.83010238E-01],
                   a_high=[3.33727920E+00, -4.94024731E-05, 4.99456778E-07, -1.79566394E-10, 2.00255376E-14,
                           -9.50158922E+02, -3.20502331E+00]),
        'O2': Nasa(name='O2', T_low=200., T_mid=1000., T_high=3500., elements={'O': 2},
                   a_low=[3.78245636E+00, -2.99673416E-03, 9.84730201E-06, -9.68129509E-09, 3.24372837E-12,
                          -1.06394356E+03, 3.65767573E+00],
                   a_high=[3.28253784E+00, 1.48308754E-03, -7.57966669E-07, 2.09470555E-10, -2.16717794E-14,
                           -1.08845772E+03, 5.45323129E+00]),
    }
    for d in (sm, na):
        for sp in d.values():
            sp.phase = 'G'
            sp.cat_site = None
    return sm, na


def rec(out, label, fn, *a, **k):
    try:
        v = fn(*a, **k)
        if isinstance(v, np.ndarray):
            r = 'array(%s)%s' % (v.dtype, [repr(float(x)) for x in v.ravel()])
        elif isinstance(v, (float, np.floating)):
            r = '%s:%r' % (type(v).__name__, float(v))
        else:
            r = '%s:%r' % (type(v).__name__, v)
    except Exception as e:
        r = 'EXC %s: %s' % (type(e).__name__, e)
    out.append((label, r))


QUANT = ('q', 'CvoR', 'CpoR', 'UoRT', 'HoRT', 'SoR', 'FoRT', 'GoRT', 'EoRT')
NASA_Q = ('CpoR', 'HoRT', 'SoR', 'GoRT')
UNITS = (('E', True), ('H', True), ('G', True), ('U', True), ('F', True), ('S', False), ('Cp', False), ('Cv', False))


def reaction_battery(out, tag, rxn, quants, conds, units=True, brief=False):
    states = ('reactants', 'products', 'transition state', 'transition_state', 'TS', 'ts', 'Products', 'xx')
    for ci, kw in enumerate(conds):
        for X in quants:
            for st in (states if not brief else states[:3]):
                rec(out, '%s|%d|%s_state(%s)' % (tag, ci, X, st), getattr(rxn, 'get_%s_state' % X), state=st, **kw)
            for rev, act in ((False, False), (True, False), (False, True), (True, True), (1, 0), (0, 1)):
                rec(out, '%s|%d|delta_%s(%r,%r)' % (tag, ci, X, rev, act), getattr(rxn, 'get_delta_' + X),
                    rev=rev, act=act, **kw)
            if X != 'EoRT':
                for rev in (False, True):
                    rec(out, '%s|%d|%s_act(%r)' % (tag, ci, X, rev), getattr(rxn, 'get_%s_act' % X), rev=rev, **kw)
        for rev, act in ((False, False), (True, False), (False, True), (True, True)):
            rec(out, '%s|%d|Keq(%r,%r)' % (tag, ci, rev, act), rxn.get_Keq, rev=rev, act=act, **kw)
        if units and not brief:
            kwu = {k: v for k, v in kw.items() if k != 'T'}
            T = kw.get('T', 298.15)
            for Xd, energy in UNITS:
                if Xd in ('E', 'U', 'F', 'Cv') and quants is NASA_Q:
                    continue
                u = 'kJ/mol' if energy else 'J/mol/K'
                a = dict(kwu, T=T) if energy else dict(kw)
                rec(out, '%s|%d|%s_state' % (tag, ci, Xd), getattr(rxn, 'get_%s_state' % Xd), 'products', u, **a)
                rec(out, '%s|%d|delta_%s' % (tag, ci, Xd), getattr(rxn, 'get_delta_' + Xd), u, rev=True, act=False, **a)
                rec(out, '%s|%d|delta_%s act' % (tag, ci, Xd), getattr(rxn, 'get_delta_' + Xd), u, act=True, **a)
                if Xd != 'E':
                    rec(out, '%s|%d|%s_act' % (tag, ci, Xd), getattr(rxn, 'get_%s_act' % Xd), u, rev=True, **a)


def collect():
    import pmutt
    from pmutt.reaction import Reaction, ChemkinReaction, _get_states
    from pmutt.omkm.reaction import SurfaceReaction
    sm, na = build()
    out = []
    conds_sm = [
        {'T': 500., 'P': 2.},
        {'T': 298.15},
        {'T': 650., 'P': 1., 'H2_kwargs': {'P': 5.}},
        {'H2O_TS_kwargs': {'T': 700., 'P': 3.}, 'T': 500., 'P': 2., 'zz_kwargs': {'T': 1.}},
        {'T': 400., 'H2_kwargs': {'P': 2.}, 'O2_kwargs': {'P': 1.}, 'H2O_kwargs': {'P': 1.}},
        {'T': 450., 'P': 1.5, 'H2O_kwargs': [('T', 460.)], 'O2_kwargs': None},
    ]
    conds_na = [
        {'T': 500.},
        {'T': 800., 'H2O_kwargs': {'T': 900.}},
        {'T': np.array([300., 500., 800.])},
    ]
    for cls in (Reaction, ChemkinReaction, SurfaceReaction):
        n = cls.__name__
        r = cls(reactants=[sm['H2'], sm['O2']], reactants_stoich=[1., 0.5], products=[sm['H2O']],
                products_stoich=[1.], transition_state=[sm['H2O_TS']], transition_state_stoich=[1.])
        reaction_battery(out, n + ' sm', r, QUANT, conds_sm, brief=(cls is not Reaction))
        # sides re-assigned through the setters, in place, bare values
        r.reactants_stoich = [2, 1]
        r.products_stoich = (2,)
        r.transition_state_stoich = np.array([2.])
        reaction_battery(out, n + ' sm reassigned', r, ('HoRT', 'GoRT', 'q'), conds_sm[:1], brief=True)
        r.reactants_stoich[0] = 4
        r.transition_state = sm['OH_TS']
        r.transition_state_stoich = 0.25
        rec(out, n + ' bare TS type', lambda: (type(r.transition_state).__name__, r.transition_state_stoich))
        reaction_battery(out, n + ' sm mutated', r, ('HoRT', 'SoR'), conds_sm[:1], brief=True)
        r2 = copy.deepcopy(r)
        reaction_battery(out, n + ' sm deepcopy', r2, ('GoRT',), conds_sm[:1], brief=True)
        # mixed model classes, 3-4 species, two transition-state species, fractional coefficients
        m = cls(reactants=[sm['H2'], na['O2'], na['H2'], sm['O2']], reactants_stoich=[0.25, 0.5, 0.75, 4],
                products=(na['H2O'], sm['H2O'], sm['H2']), products_stoich=np.array([1.5, 0.5, 3.]),
                transition_state=[sm['H2O_TS'], sm['OH_TS']], transition_state_stoich=[1, 2.])
        reaction_battery(out, n + ' mixed', m, NASA_Q, [{'T': 500., 'P': 2.}, {'T': 700., 'H2_kwargs': {'T': 600.}}],
                         brief=True)
        # no transition state, bare species and coefficients
        b = cls(reactants=na['H2'], reactants_stoich=2, products=na['H2O'], products_stoich=2.)
        reaction_battery(out, n + ' bare', b, NASA_Q, conds_na, brief=(cls is not Reaction))
        rec(out, n + ' sides', lambda: [type(getattr(b, a)).__name__ for a in
                                        ('reactants', 'reactants_stoich', 'products', 'products_stoich',
                                         'transition_state', 'transition_state_stoich')])
        rec(out, n + ' to_dict keys', lambda: sorted(r.to_dict()))
        rec(out, n + ' from_dict', lambda: cls.from_dict(m.to_dict()).get_delta_GoRT(T=500.))
        rec(out, n + ' str', lambda: r.to_string())
    # helpers
    for rev in (True, False, 0, 1, 2, None, 'a', '', [], [0], np.bool_(True), np.array([1, 2]), np.array([])):
        for act in (True, False, 0, 1, None, 'x', np.array([0]), np.array([1, 1])):
            rec(out, '_get_states(%r,%r)' % (rev, act), _get_states, rev, act)

    def f_named(a, b=2, c=3):
        return (a, b, c)

    def f_kw(a, **kwargs):
        return (a, sorted(kwargs.items(), key=repr))

    def f_self(self, x=0):
        return (self, x)

    class K:
        def __init__(self, a, b=5):
            self.v = (a, b)

        def meth(self, a, c=1):
            return ('meth', a, c)

    class KK:
        def __init__(self, a, **kwargs):
            self.v = (a, sorted(kwargs))

    for kw in ({}, {'a': 1}, {'a': 1, 'b': 0, 'z': 9}, {'c': 7, 'a': 2, 'self': 's'}, {'x': 5, 'self': 1},
               {'b': 1}, {'a': 1, 'kwargs': 3}):
        for fname, fn in (('f_named', f_named), ('f_kw', f_kw), ('f_self', f_self), ('K.meth', K(0).meth)):
            rec(out, '_pass_expected(%s,%r)' % (fname, kw), pmutt._pass_expected_arguments, fn, **kw)
            rec(out, '_force_pass(%s,%r)' % (fname, kw), pmutt._force_pass_arguments, fn, **kw)
        rec(out, '_pass_expected(K,%r)' % (kw,), lambda: pmutt._pass_expected_arguments(K, **kw).v)
        rec(out, '_force_pass(KK,%r)' % (kw,), lambda: pmutt._force_pass_arguments(KK, **kw).v)
    for fname, fn in (('f_named', f_named), ('f_kw', f_kw), ('K', K), ('KK', KK), ('K.meth', K(0).meth),
                      ('len', len), ('5', 5)):
        rec(out, '_kwargs_allowed(%s)' % fname, pmutt._kwargs_allowed, fn)
        rec(out, '_get_expected_arguments(%s)' % fname, pmutt._get_expected_arguments, fn)
    blocks = ({'P': 2.}, {}, None, 5, [('P', 3.)], 'ab', 'abc', [('a', 1), 5], {'T': 1, 'x_kwargs': {'q': 1}})
    for name in ('H2', 'H2O', 'h2', 'H2O_TS', '', 'kwargs', 5):
        for blk in blocks:
            for order in (0, 1, 2):
                kw = {}
                if order == 0:
                    kw['%s_kwargs' % name] = blk
                kw['T'] = 300.
                if order == 1:
                    kw['%s_kwargs' % name] = blk
                kw['P'] = 1.
                kw['H2O_kwargs'] = {'P': 9.}
                if order == 2:
                    kw['%s_kwargs' % name] = blk
                rec(out, '_get_specie_kwargs(%r,%r,%d)' % (name, blk, order),
                    lambda: list(pmutt._get_specie_kwargs(name, **kw).items()))
    for v in ([1], (1,), {'1': 1}, 1, 1., None, 'ab', np.array([1, 2]), np.float64(2.), sm['H2']):
        rec(out, '_check_iterable_attr(%s)' % type(v).__name__,
            lambda: type(pmutt._check_iterable_attr(v)).__name__ + ':' + str(len(pmutt._check_iterable_attr(v))
                                                                             if pmutt._check_iterable_attr(v) is not None
                                                                             and not isinstance(v, str) else 0))
    return out


REFERENCE = (
    'eNrcveuOXbmRJvoqQv8pG7IIxoW3AvrHgVHaCRyc6USnazCA0RDkqu22ZsolWany2IAf/kSsrPIo9+IluC4aoNseX3K8vs0gGcEI'
    'xseI3//+X/79+va7T+/e//ji8c//8P/4y5vHT28/XX/1Uf/69sdPj7/+l9+8+Jc//vD+7afIX4P3BAW9yzFByiXnf/mP37xoYXz4'
    '+P77n75bQeTgYoypyNdcfIw9iE8f3/74+O7p7/qH51AY0KWCAgaCBmSEerMX6ncPe8bxuOPj+/1T+re/LR9/8z9+++K/v/3hp+s3'
    'Hz++//j1i9/96frxz++///uPb//87runyX7xt7+9+PH9pxePP3348P7jp+v3Ndjvrz98evvmL796/faHx+tvln99NjjvvPcyQkRA'
    'zMwY5F96QL/7+FMNpyB7RyTTlamEFHA8GEWqjAU5Zx8p5pIipDQezAoHHAQqlDlgLMSYehDwG79dEP8b2CjBX97If/tVdT2YS+IM'
    'wYeY2fsU299XRJdNViBnShxjoEi1j3/71/f/3jUk5FKOvpQg46CcSxmgVE0JOcQUZRGyT6l4GoF0jYmAQQkEMQieYJZkRntzANqN'
    'SZkfzeO+7++PmOBTTIviN63LK++CGJTAGBOFkuWfA6SGeZnGaZgYHZDoRZTDEXNgigUsA6rheJ9BjgMMXDj4QvWT4TOkW0szLdOt'
    'tTEKs+yAurWZRdg+D7/9MDA5waHB5Hzomxy+0Yg8AOmaHH6upGTGerMb68bczI7kcc/X90dM7Dmm5kPP1IDzn6tT9GmA1DA10zgt'
    'UyNAdlPzwW5qxEEbDenW1EzLtDI1NmGWHdAwNZMI2+fh2/f//ruuqXnFhK7IbvYgipEQSxzgVI3NKxBPMaGPwYuPqd59GMB0zc0r'
    'gKijQhavU6SDupJV4d4cAXdjdDaM53EnwP0x03yK8VH8pvHBgg6ZchBvXYJFggFOw/S8msVpmB6x9RqIYAjMPjJEy3BWKChRQIjs'
    'OSZMkDmFAcyt1ZkW59bqmORYFr5uc+a+3zgBdwZzA46H5uZuaG6oGPTgzm5ugkE77+zmZhJubW5mx/O4E+D+mGk+xdzc9c0NuGTT'
    'q7u+uZnDaZqb4ILN3NwdY27uGuZmTpy1uTHIcdczNzPfb5yAh0EchbJ7ZfMLijh6YnDqo3jox1HIDoJs/kh6iyVQA5CupRGwzJko'
    'RQTikuv3cQ+2QGoW7MbKTI/lcdfn90dM7in25aEXSsk2Dp58JjmrIGHswzSsyxxIK4iSCQ9F1FlCTo7oczaMpXKxHIsPDHrBHQIk'
    'KH2UW8syJ8oqdjLJ8NCOnKa+3yj867EXE9GJZYoSSYYQiHMa4DS8mCjiJBlLTJFjadxHvDZ7MQwuL5f1opTiaKEZ7c0BaCsfZnY0'
    'j/u+vz9mik+xMK/7HkxyqTCE4osE8p7SAKjtwkwCtXyYJWsqhzdyKmAcT+0IF8cxi2XPGeVfkQcwFR9mUp6VE2MR5HXHiZn6fuMM'
    'XAzWBhwMrc1lbG3IoAoXu7XxY/282K3NHNra2kyO5nHf9/fHTPEp1uYysjZoVKrLyNpMAXWsDdmszeUYa3NpWpspeWrWZijIpW9t'
    '7N9vnIFvutZGbA2zxG3oIfmQGBKHAcra1ogahOiy8juSaFT96uEbi5nRCwgSR6toWtgzsS9kBnuzH+xzI7NlLI+7Pr/fPbOnWJdv'
    'mtbla8zJRaAApchmpsQ0gKnZFtHEWZiaZfmaQCw6Yoii0uRTDGwZzA2IKBWKOWBGFI0UuzDAeGZVNkjyzKYYRfh/r21KkzhQPuip'
    'Frzy4TBdZR/6FkozCyi2UUk4ag5YLGO5vgQs/bGs7FNy8qWEbRHEpSImHQr3h7LCKC76lJIerR405yUY1Zutb5404LOliAGdLKJE'
    'ffIvsVBvJT9XOChB1DYEMcpiEQE7HKhvXsjf/s+3oFf+EH0OSULl3LiCvRnocuWQZdmDzzGoy1dSZ9PcPXc/ENBpXByK+ImBOzLe'
    'PRurLjIB6Oz6EigFrv/o3Zubr0p2SSSkkBEKcv02/1KRMWbZVVlUIotPKwvakfFyIyMFV+SA0vg7pZJ7B/1aSNKg0mNkBM4eoT7e'
    'WymDy8X7ItsuiRrVUyfVhQyap5UpDctCdob67e1Csggpnj4H31/IbysLKQeNbDoxWCgLWVfUbzet5OvqSgYn2izfpmUle2He7Uom'
    'peglJVwOVvJ1ZSVJT8IsrlJsruTrLSv5sBYSvWpk0X1T5NvUvXp7xhWJDlhtJ6NotO/Rmh5uRXwlIQn7qAFJEluQ64fPw62IwYnf'
    'xmolZUYxFwh1bsFaSlEsZVpmJUaIkL53uffbD59/mV32nsVshAjqPHLvw5WcWTnaRXZeFLc3tzhTt3IqByLKfvMsJ5pME9fvjn/7'
    '18pyihNFEZQRuwhKPbLZc+qPxIbIEoUvcoq/3ftyvaBOlFKOkdIT9K8jQcWBrOwEGPDhi4SkDjKI80jy0zWDC306vAyDUgpA8vuA'
    'XjyS7jC6tweKJTsmojgCMWdgqE0l2Bjxs2A3dwfTY3nc9fn9AXN7qGMPQ2I8uSI6HYvsvRTZh3B95WMPqOFIiie7HE5Rs3FimmqE'
    'chgx48mBD+KJRpB/6HQn02gquYBU5FDOyYtbzOKgpR7G7XXBnCirqwKzDB1ufBQfyBcQQ4QRUimh/X2VG18K6tmUJbKgXP3Ywo2X'
    'PSv+CYtjlWPtBAcDN95jhpQ1vgI55oAGKANyvJ7SoZD4lHLCF0pmtDcHoK3I8bOjedz3/f0hM3yKfRmx4xMSpJg9k4w2YxwgNdnx'
    'kzhtdnwSB7wEFgcBMsrMWQZUp2pCEu0omMQP9CnIoAZQa3r8pFAVerxFmj49fgphx0RY+PHPzA4NUBr8+BulGIAM+PHP9ZTNYG/2'
    'g60Y8pNjedz1+f0Rk3uOwRlw5NGuU12O/CROmyOPnytYLskyIIOeAfMAac2Rn5SpwpG3CNPnyE8hbJ+HMUc+YXZR30GKj88SjA9Q'
    '6ulXpOx8Kd5nvdgLxDiAGaRfSxYrKEEsKgsmsbfDvTkCbpWAnR7P406A+2Om+RTT02XIc/FOBgZAnIpHDjwAaqVgp4EapkfCTSfh'
    'p77XJTHWpuGs47Li9L4pLw9bUhmBrPKv08Lc2hyLFB2C/NTnm6S/Mxia5GBgaO7GhiYZNMDOjde8+FAv7dz4Wbi1oZkdz+NOgPtj'
    'pvkUQ3M3MjTeqFJ3I0MzBdQyNChqYjI0d0cYmrumoZkSZmVoDFJ0qPFTn2+SfsiLlyNSfCKGWCSQS9GHPkqdF48SEKagBH+MKUA9'
    'lrPy4skxehZlioTieDJbwd7sB7vlxc+O5XHX5/dHTO4ptmXAi8dSQo4YQhRHHTH0gZrM+DmYNjc+apJEE5g+lRLBMJoqPRyXt8Fe'
    '/h9HGAxmzY2fE6bCjjdI0WXHT3y/UfwxOz6F6GLUWwTPYl7CCKbhxkQlv4iV4+W1QY4DlL4XgwguphiQfEJfICYz3Jsj4G69mPnx'
    'PO4EuD9klk8xNK/7TkxwmSiWkoiVVTvAafswczjNWIld0ZJCviRx/cg0nNopDsF7BqQo/ywcBjAVL2ZOnHW0ZJDjdS9cmvl+4wRc'
    'DLYmKMeqb2uG1HgMZawFF7ut8QbVvNhtzSTc2tbMjudxJ8D9IbN8iq25jGwN2ZTqMrI1MzgdW8M2W3M5xtZcmrZmRpyarRnKcenb'
    'Gvv3GydgxIxPrDw3ChS0agFAHIDUiPEYNfOvJI+ctQJNHmD0qPGob2eVWQZe/kE+mbHe7MZ6ToyfHsnjnq/vD5jXUyxLhxjPGUWB'
    'vGw+YobMeYBS58XPolRp8UH8RlRCOiMUzr5YhnJLrc+uSGgbUk5BdMGXMAC5ocXPCvKcFW+SoE+KD0mfm8s5xKLPfH2FdW3ucuKV'
    '0K+cPC6+oGy560usB0xdTnxAfcxcCqSkJ6wMhag7lAonvlBByqmw95i9iAP1/T/kxHcSjj1OPPS+63PiU3Xe66T45FLIPsjPgu9e'
    'Ha6p1CmRL1mMtqxTZ7PdVbnUYplylEUGDqUx3BqXWq/4ZHdC8Q13qcalZnY60CieLOdEvZP6RkpMroDXNGf0qZfwrZDixQIXrc6a'
    'UpEztuGKr4RMzgflcIsaaLRfz4rWVrJ4p5/JvtFXbr00z+1KRucBg2pM0GcKnS8rKynbIOudr6wmMMf6cLesZJUVz1GsTNKnGMzI'
    '1Emg37Li8cldAX0ZITFNhytUYcVjdKhzFHJBn+vXw683LWWFFi9DlI2jPqHPLaZIjRQvmzwSFJnY4uWHexfwa1a8HD5ydARZwyxT'
    '5esWpMaKj8qdJhkvcN2DrHLiybGcdbKCSZyMknoksA/PK107SCKdLH2KImkOvS9XUurnWc6npTigbPbWgCtccZBNo8kFOZjUXDY4'
    'mRVWvETSsmMjh7Goz1jxi1ZmXF49q6Q9tsmaFB+XXIRq5JOgDW7iUFI5AyuqgqMy8SQKWspSJUJ+u7r3cVAmnsQu6GsmmW3K6pX0'
    'IPpl4pdHO/pQTpM7PiUb0pudSLdF4qdG8bj92/v903moJ4+2EvEa/SUo+shGHAPOPaCW++i1snoRY5shhgy1XY+WGvFaskBPfU4s'
    'PhXV3sDgsEQ8aR48QJTppprrgE0a/JwctRLxJgHaLHiJw+VE96xPE0qoWlnskeCTeHg5iPvNpXatgRYOvJbBUnckg/57SAOYBgle'
    'wlaZQlrCCsw0ABlw4Nn/XPBMjq0cczSjvTkAbcWBnx3N477v74+Y4FMMy4gCz4i4PCYS26KV7wZITQr8JE6bAq8VBLP4dyDz73MC'
    'y4CqTExQ34slypSQX856GA1pzYCflKnCgLcI02fATyFsnwcDAZ6e25wBSoMAb9EIMwH+uZIWM9ib/WArAvzkWB53fX5/xOSeY24+'
    '9M1Nea5SOEBqmptJnLa5Kc/0KybLgHabmw9VczMpU8XcWITpEeAnEbbPw5gAL7vYQSyo9Vi1/xPEAU6jAplPTmsbZcICXuL+MoDp'
    '51lzcSgRRtAqt1H8TzCjvTkA7TbLOj2ax33f3x8zxacYnn6BeGQtw+lRe5tg8D0171eInwVqGB5kbYEA2kYBc6i3BcExAR6yU1Il'
    'Fi2RQ5RTHMCsS5DNCnRrdWySdEjwkwAb5+DOYHC8vq0eGJxxmXgfDdpgpsLnbFBRMxN+Fm1lcGZH87jv+/tjpvgUg3M3MjhgVKu7'
    'kcGZAuoYHDYanLtjDM5d0+BMCVQzOGNJ7voGZwJg4xyMCPGkT48wYBIXSWvYQO6j1AnxwZXMCSISLTVWqA/SJ8RHLTCNHjMXzVoA'
    'WsHe7Ae7JcTPjuVx1+f3R0zuKVamS4hnF7TSE6DPHlKqx+RDPvwkSiuUIq1brJWKCmp9EB8Ng6nxwXPiLKdvKBDEsg8Gc2teJmVZ'
    'hVAmITps+KnvN0o/ZsNL9O+SyE8oEyF6QAOYVsMbEjtJuZSALFYy8wBm3PAma82YqO+QqJolxIla8bNwtYY3c+N53Alwf8w0n2Jn'
    '+uXisSh9QvytUCLGzGEA1PZmJoGa3kx0WSv46cORmGMyDWh9kienbYZ5ySRDpgFIxZeZFGfty1jkeN3zZaYANs3AxWBvQCkgfXsz'
    'LhavSdyhItiLxQMb1NNeLX4Wbm1vZsfzuBPg/phpPsXe9AvGY3bJqFf9gvGzQB17Q0Z7cznC3jTqxc+KU7M3YzkufXszAbBpBkas'
    'eGLQQrVRy5sGZYMOQKrl4vV5SSatOYQJtV/9AKRbMd6jy+Q1Pyb6GbhOKLBWjJ8Fu6kYPz2Wx12f3x8xuadYmF7ReKVzM0AskCRC'
    '9DRAadSMn0SpcuORivOqD8pNTQGALWO5ARGtyoEAvNKytaLyAOO2ZPykIM+58TYJeuR4CdpSII3WgeR8o3iVfehbKK1Cnw5yiFSI'
    'SskQE6Try1L6Q6nQc7xgRB/UkZFIEoIOJXWHsj4sFnITynogBQkCga6vfPV2Z1PJeNxIj0cjPb76k1V6fAqOQygpycRzI2nd4MeD'
    '02IoJaN8T6l3BVhhVXtHeoj4nGKoX8pU6fEcvWiHHFsY6vdBNXp80iAvJ4nKi0xsgM6CrIrGR73o5Mzei6uFHcWuF42XfQCynrKf'
    'AzXGuy417slH9om0ilqup15b5f+j17LfGDn3ckDrlw4EzCXpc4XuStarxntRNrE4EkvXV/LbTStZo8cntXJL/VmxUv2VXBWNzy7L'
    'D8qRJg5zdyXrReMLam8cJfw1VvL1ppWsVY3X9wqclftNiah7u/6MIE9p6UWlJRiT1oLu3d6t+fEoJ0AMQFHb2wco9dGu+fFid1LJ'
    'otExNa7RqwR5iXn1sCFZUhIj2VuQ5wz55GJcemVx8FpcOvY+XIkpU+QpK21cPGDdso0Br2njSvnWss0JMELjWq/Kj89ODGsCOdaf'
    'JO0N+K/PuYdBZlU2+8+Slt4crRny5CJHzY38LGpuDXmLrDQiyGvfmLI0wpNjPJfa+ykaEOTlPJO1jtpAWl2a2kqTkSAflfXmJOoS'
    'ayxxS00XyciQn4K6pcjPjeNxx8f3+6f0UJeebCR5GaGcmaidVlH2LveAGl6kxJXiXdDSla/IKYHjwdQ48jLdLA6tHIjKoUoeh0NZ'
    'u6IBFCdKlC+nLFXPK2qS5KfkqHDkTQL0KPJyCsj5wymLaQ/c+XxdgcBp+SlxRbKc1QGrYluqxIs/I54TayP6XAsEyECQR0xRx+BT'
    'EidlBDIiyCdx5lgiHLXLpfZsgWYI8nNoa4L85Gge931/f8QEn2JURgT5EJb6VNqhRnybkgdITcbqJE6bsSrHMYmzJQ53egoOLCOq'
    'WCmNFSWqkSAsI9efYFKfHz8pUoWwapKlT5Cfg9g6D5YC8QaLM+THP1eI0VBG/PhnOmoHe7MfbM2PnxvL467P74+Y3HOszaBAvP9c'
    'paJPA6RmqYhJnLa1yZ+pF1eLINCYHz9nbOrl4Sclqhgbiyh9dvwUwtZZGHPjxTVzRWNYvfdLWhtogNNIuLI22PBRIkRM6taHAcyA'
    'qopOmxtJ6EeQKXI0o705AG1FVZ0dzeO+7++PmeJTjE6fG19Q9qUycpMSnwkGOO3m3HM4rV5bQWuii3KQj6R1ri3DWQcR2WldJ62b'
    'FUqkumfZ5cVPSrNqt2URo8OKn/t+m/x3BkMDjoeGZsyJp2LQAjsnHgyqaefET6KtDM3saB73fX9/zBSfYmj6nPgCLtlUqk+Jn8Rp'
    'GRrWmugmQ3N3iKFp8OEnpVkZGosYHTb83Pfb5B8Wh5e967OWVAg/v4Lto9S58OwgyNaXQcRcBGoA0ufCB1c8av1RTUprM1wr2Jv9'
    'YLdc+NmxPO76/P6IyT3FugyKw4fglyKvolEJYx+mWRp+BqTDhPdBVEFOTy2kj4UNg6lwERJziTkXvbKHantW6laGn5GlxoQ3CNGn'
    'wk8AbBR/zIXniPoWRNvahxCI65mPMRl+KdeUl4JTrPVcaQAzIKf6rEW+ouhT0IowGMxwb46AW5FTp8fzuBPg/phpPsXQ9MnwJblU'
    'GILE8T6zpzQAavsxk0DNiEmMc9LapFy0S3i0jGd9kEcnTkjKpHWREHoXNA0y/Kw465DJIMfrXsg08/22CbgY7A04GNqbMRk+kkER'
    '7GR4faM/VE87GX4Wbm1vZsfzuBPg/phpPsXeXEb2Bo16dRnZmymgpr0hF2325nKIvbk07c2UOGt7Y5Dj0rM3M99vm4ARF56ZXfD6'
    '9saHpAyzMECpkuFlKFk5HQkw0GgcPSZ8CY5zIOW9EvgGRcRIhJ/Fes6Dnx7J456v73fP6il2pUeBz8lFpZWUouWiEtMApsGBn4Wp'
    'kuD1DkK5LkUfNUm4kC1jucGQY1dsACSKiJgEiQcgtyT4WUmes+BNIvQrxIsKK10n6OMuwHR9JUFPC6XdGLqkDMGrJdDyBOX6UiKv'
    '/lgqBHblDGYEWIjsXGQo9elsk+DJaW0HYB9FmCDDub6qH9GbOPBk4MBjh/N0y4Hn4J3Y8ai2mICp+uldizgdvLbjFIdP/JDO7d0t'
    'cxpdZi3WLV5i4I6Qawq8rK0sUYEI4gZl9PU7u1tuJjK4GFG7owfGhPU9Wq0Rn7U4riiF1gdPHDtSrkjwwRU5njQCT6nkjlKuSfCy'
    'jo4wZ4KSMDcuEFYkeNTOLbIiUbeBMsuro62z4IPzWtY5hGUxO4Ot0OALiq8vG6m/mN9WFjO6kFPSnpi6mKk+3E2LWS0Tn7WpjPxa'
    'TstidqRc8eCTK0XcZdQXgN3FfF1ZTC3RnLTmNjYX8/W2xawR4b0qZtEuXaVEMYq927NnLJHoQEtIyKyKYvseqalChJdFoULiiJE2'
    'gk9QH+1qbkSbM8vRVbSub2Mtq0z4oHX7Q1ZShAjpe7d8z5nw2WUvfqe+8AP1H7u8jkoBdc0YRDkegEH938aAb1fTeTmVdB+xdjio'
    '5xqqPHhxpSgC6vGqcnYpb885P5G1HEd4EtP3sjwVGrxyAMT+EPwsZ93HX9PgDYLygAQfUauQKcVOzjNItUOc+xx4kjNYzGcA2SAg'
    'M8fdUfTJq6R1aHWPFkra8sOG9GYn0i1pdWoUj9u/vd8/nYf68zzkv2sbWNknDIXF5iH5cH3lQw+p5UHmXNiJXaCslrpam51HDPgg'
    'x3YAOU4XayYOlWkwtdeY4kKmoLVslwi3O5YVY2xKklX/OKsIbRK8tsTlUCSQZO38VOvHwr068UWCAa9EM33yX/3YQoPXmEZOziLB'
    'Ra6+C2UDD178TDmhtA+ejIQxDFAGRHjVIKQl0iEtpm9Ge3MA2ooIPzuax33f3x8yw6eYlxETPqqXEovW7NM+7jhAajLhJ3Ha3NSo'
    'N+ygnc+1lUIwDahas1jDXZl0Ig0fY9WN4j4VflKmCjvVIkyfCT+FsH0eLFT4Z1YHBygNKrxJJcxc+Bs1NYO92Q+24sJPjuVx1+f3'
    'h8zuOQZnQIYHu1J1yfCTOC2Do0Bmg/PhMINTp8NPyrQyODZhenT4SYTt8zAmxEuwLlF7lgiafOJSeyvJBj58ii5qYQEoKXhxpwco'
    'g5QrR3HiZIIk7NAIMkYz3Jsj4FYp1+nxPO4EuD9klk+xPF1GPEUtbBIBWMs2xNotDlsY8bM4rXxr0VserY8TvN4soWU460v94uLS'
    'yhqShFLR8whmlXCdFWeVb7XI0aPET32/cQLuDLZGPK2RrRlT4lMYa8Gd3dYEg2re2W3NJNza1syO53EnwP0hs3yKrbnr2xp2xaZU'
    'd31bM4fTtDUsYYTJ1twdY2vuGrZmTpy1rTHI0WPFT32/cQKGtPis3CSMWlpHO4XGPkidFa/Vh8RqZloI9gx9jD4pnjVDri0oteVz'
    '5oxWsDf7wW5J8bNjedz1+f0Bc3uKcRnUh9disSSCytnNJUAfp1kffgqlFT2xw7h07QBftHZbMQymViG9QNFaNhi1OhaGPsq6PvyU'
    'LKuoySREhxQ/9f1G6cec+JBAOyB7bWleMNSSqjymxGuKNYIEnx61rFCBAcrAhZExRV+8XqGyNjqMZrg3R8CtXJjp8TzuBLg/ZJZP'
    'sTJdQjwl7xhQi4UlreqIA5ymCzOJ03RhisAoL1OJR5HBMpzaCa594jlHKuIBlDBAWXswk9KsPRiDGD02/NT32+Qfs+FDLC6MLM2Y'
    'DC+yDHXAzoWXlRkrpp0LPwu3tjSz43ncCXB/yCyfYmku/WCpuGLTqUs/WJrDaVqaLDAmS3M5xNJcGrHSnDRrS2MQo8eDn/p+m/wj'
    'HnwIEuhjCghLdfr6pcyIBl+iZkUiKmtVfCuPA5BuTfiYnLh4BBJm+KUvrxnszX6wm5rw02N53PX5/RGTe4p16RDiKchJBTGXUmCh'
    'Pw9Q6nz4WZQ6HT5nOTSV1wtFIpWQLEO5rSuvdHRZLzl8I5acQxyA3NDhZwW5YcNbJOix4dEhkYesBBytS858fVVtF8k9OryWDcvI'
    'WgY5eMJA15dyuvXHUiEzaW4/E2Yf5Wj0Wp0+cXckNUa9DELO1ZyirEXOClL1hTbR4XkjHZ5tJeHrN9xVArVWA39ioiZIoTPUFRte'
    'qUoB5P9pHtB3tnytIrzOL6C2TuOcsTHeSiFxWVAtP62EZKh7uDUC9fJmkII4W0n7DXR4ZSs2vNdnEUsID7KnOlJWSsJjdEnZvj4X'
    '9Fi/UlyXhI9awEfUv7BX8mw1Z1JdyuTkKOfsCw+WcsWFD067QcQsO7a/lLWS8NodVHzQKHrbWspvNy1llQsvR5s++OEsC9lfyhUX'
    'HsTpIdGRoo3Scy8+rCxldpSSNs0IupT1+5ctS1lhwkPR6vUsMxrVnjN0hHzOhAeHgIGJiyZQfGcLVJjwmivUDqla2l2OgsZo1yXh'
    'RZE9ycRQ1NLjDVpKhQmvb79jDLxUPC69XfecCC/HnPYx8vIPIiyReh+uxJSIyYvTnRKThF2prtHVkvCeZC2Sp0hiYGWWG4y/Chc+'
    'uKzrwTyW9K/PJ5cBNEA0SLqmwut6yphT/lnS3BjvJknDgAxPYmizhjlyeooMNWsURmR4rb6oJGlYqhylHkI/C6L9bohIvFgvsxh8'
    'sEG92Qt1mwGZG8fjjo/vd8/ood58GNLh89LEiiCJ8SsJONXZ22HIhhdTzU4dtxSL7MCcx6NZOX/RkTiwctqjlzBKoEyDqVz+J6QM'
    'XnwA1jobteqjoc2Gn5Lk9orALEKHDc+MuhwRxETLicLtzyts+CybVBxS1hYz+oij9rGFDS+uTEFMPspIqD4GAxtegwpxbOTo1+Th'
    'AGREhhcXSQK0pA1UkGvV/8IMGX4ObU2GnxzN477v74+Y4FNsy7AqvD701lNYRBVXlwZI7arwczgdLjyI/yNmXSZeHC/IlgFVKZmQ'
    'tXW158IyMAoDnEpR+DmJakx4gygDJvwMwtZZsPDgn9ubAUqLB2/QBjsN/pmCBjPYm/1gaxr83Fged31+f8TknmNqRiXh7QrVLwk/'
    'h9NhwdtNzYeDTE2jJPycRDUOvMVQ9DnwMwhbZ8FQEj6D46L5F9DH4LU3N8HAgA/6yDUk1PIh0df9LDsDnrQ7B0tosNwHZjvamwPQ'
    'VmnW2dE87vv+/pAZPsXi9NnvmB2GIBF+0ivVGAY4zSTrJE6z2pjW04s5ZI4cq3XegoH9jkrV87Fo48ccSuEBzDrLOinOutqYQY5u'
    'QfiZ7zdOgKEifCqujOzMmP2uOY2RFtjZ71jGmmknv0+irezM7Gge931/f8gMn2Jn+sx3TC7ZFKrPfJ/E6fSdiDY7c3eMnWkw3yfF'
    'qTWeGMpx1288Yf9+4wQYCsKHTKy9VqF1VzUuB++LFtUHvSMvfjCOIfG9aGPcog8WKRS0gr3ZD1Yhvk+N5XHX5/cHzO0ptmVQDJ5z'
    'Zi9hIaZcUuzDNIvBz4C0ae9Z/k8rzoBiectYKne/oklB4xygLGECpT7Kuhb8jCgV1rtBhi7rfeL7jcIbWO8gEWPiIvL7guhhANN6'
    'uJcckc+eYiCJORMOYAa+S9Cac4W0eSBJJEhmtDcHoK18l9nRPO77/v6YKT7FwPQ570Tan2BhcsiOjDzAaTovkzhN5yU6H0OMYtVl'
    '5lMKlvHUDm9C4KQkk+CBcYCydl4mxVk7LxY5ujXgpwC2zYCB9u7FgRmZmoulHsFYD+y898Bj5bTT3ifR1qZmcjSP+76/P2aKTzE1'
    'l5GpQZtOXUamZganaWqCC0ZTcznE1FyapmZGnLWpscjRLf8+BbBtBob13wu5XJTo6yOlUn36EYbE9+SVn6ohG0XMGEdD6RLfOQsY'
    'Jgys/RlSMmO92Y11Q3ufHcnjnq/vj5jYU6xLj/SO5Ch6saUFZZAceADTYL3PwjSqwAdHQcIUjgKBJVjGckt718KJWrI8ZgkXuOAA'
    '45b1PivIbRF4gwQ92jvog38tvK6cdaQEdNVSGC2YZuBKiMqFliBdjFMJ8foSmPuDqVRwz977RCxOTEpyzioFP/THUiG+e1wYmVoD'
    'E0shFchXtWBNfKfsPCufN0vcSKUT8z4jvqM4X1mJoOxTKTF20oLzxPdQJ77rM8cCXjQcPWbf2Xa3xHcUB8RLZCzWAZABOl9Wie8+'
    'lKVHGobGRlkR37OybAtpWW1AbapePbdqbOlQxLuXOfK0lJ4vnSP3RkrWAs5h6Ukg3nDpXEBUiO+aeBPpfJLPc6S6i7aSklyAUALJ'
    'yZqZYvUnq8z3JDZAH4uQnKr9tbxlvmN2IDrr5V8icmcpa8R3ckWUXrZtUsvTGO6WpXzdeMPAWSl5sgH7S3lLfJdzMYlx8km0RJay'
    'k/2vEN9J37KgqFhREiI1xrtlKRs14LWyHCPL/kmFO9b8OfM9OBmbiJrEEDTYhi3i+1IdKmXQZ7iEJdfvV29FZFfy8kRIbTbn1KAK'
    'VXnvyo32RbRfGyF1ORDPee8amZaQohw3nhB7H1Z47zKnSb1evQCOLWpThQ0OqsnZQyxRnxTWt0CjBrxWCmStvD2S9KYGfKHgY8g/'
    'Swq9Dyu8d1EuTpR/lrRBPd0k6Qvx6R8f3/3nj9fv/+ENyVeRwBWUIx2VjivTYEdslPBIxUkMJQeQNqsrlSO2Cdi/a1iex4jqaKZY'
    'ZgArG/o5siFhKG6E2KwkRieok1VxppuQrZh4B2SL7E1atdwvz7sAM80OcgXISYyfHEO67cX2VXzKJuAqZt4h7ooRPilnJ+O4GWr3'
    'XI0v8opG6eLKgxzpS1bTjljXuKf0bsxikrBQLj7aEQcql8FF8QJjTPreCtm0uN2rp1BYG2Bo+4sMMftkh2xq3HbIlsaxvozwXsL0'
    'oO1zeHKQ610UnbhjS8OiGDDGYAdca9x2cVcaNyln5+pqM9Tuueo/89JWe9owOqI4Q/r8EI1wVV0Tnc1x6TokfgoSVcK5OlpXz/R5'
    'M2c5NmMsuUiQDqYl7cX8aluyvnkMGj6SPq7JRtCGmmUtSpcQXNIH0cFo6JtXAeDEORAPmjiBRvIcZ4dYgRQHW0Ktos+9OXijZqwf'
    'Nm0V9Va9NsnYee4kcS5KSCa+eaGiLqAJqnILU7RiXQwSUCR9+zuA6d0uBbf0vpHgTaJw8SNBe/JZAJuU8ijhmD5Kk9hMWw7G60sM'
    '2TzCSqkFzp4lmtFGc0RLmQRM5hGu8CRKIa/PuoOIrW+ZBe5WXf/w9uP1xe8eXnz6+4cl3Pj004cfrl//6qsf3j1++kr+l/pi/z9+'
    'vR7Cn39S02Dz2yF4kqhQHK6YxfGKlVueOt5mr72KNkoPugxKOQyiUYl96sIa/HVAZCf2jGSTZY+x8iy/DtjyHTYDtsya+MIui8D6'
    'pBFKTjPjW191RlljJdho4ZKElff5dbSVz7BZzJVJm5Gv46Bvw9k3QSOGYJFIWBtXiPFfqjewDaz+xCpr1ZKgWR5KYq7BhtVVp6DV'
    'M0JAXUMtAszjNeyXcmUXI0mQBKEogY9seK3CONvQWhy3rHyd5Ise6DFGi+Voc91eMboo9kf+AVTkZKdog1vVet0m5Ir9NiVdhwW3'
    'CWfv9PT8AfFSRp829s+7H/9o+9EKmc/2m5WznMWLgiK+kPhUAKAVlCpa9f31+uG79x/+bgrvdWeITSJ9oVlv6dfA2x7c1/EGoT04'
    'DjkkkZtiAewP0xDYgzgiLot2pCSbqISa01ZHbJ/NWxFbh3NIwYG44UW9HGXnTA1x7Uj76FArBIkLrBWqzOOrnM9bRV0d0HMydiL6'
    'rUg7p2nautx8O2Neqj9rsy+1X91mYP787m+LnRq+/YYiVtrnmPVWJGtUOUaq32JkrXoTgy9Rg0laZQYrQP0LDL1XEayQfAriolAD'
    'z/I42TsJGLRMUyQUc+c9j8GapRDmoZr+iIRHHEidVfG9MiTjqNZISRPe4hyiaHlGE9K6IsK8YGsfxChR763yNMb26RiHxEUrr2ln'
    'U319T3nV3riC1CDJinvntL8qJFFfWlusCtLgtBUPK+jrmAg5ri9Hny9XNwJ+IpGxxHPiD0TlI9EYrHXZsgGqoR9JHwHpUaHVWMkX'
    '45hWOGLWHGRN8QXNq5IBaPWGf4NUt8phFKcT4M4ibJ6JUVQrB47zei+alXEle5qGQFWt0EreGbVjeUTUbtVDmK5KaOW1LKdF0NJR'
    'OWF/kbpxrAhIrFf8BCDrzTyEaujDPFDrtIgy58FnJCW7+VxsI1rjYHHLE6W41IPgdcC5RrpVh3mhVieFUZpOnDqJsGMiDAGaTIPW'
    'aCkSxUvUnMoYqXFMaFlS8WmTsjtlZKvccAWpf0wo+Y4zyNGu71zj6iX887W69M+JpewpZpntHJZc+BisWbJuHqp1TuSsbawSasU3'
    'mbpsHNTatfboxPUJcs4nfdJOY6B1/bp5sVYHhVGeTpw1DbF5Lnqhlfad8iCGOHstQVzg+pJLB6exVcTNCct8kvhhQcYSr6+CH47H'
    'EHOtftz8DYxDK/SOPSwPzGUeAwKPkeqhlfYm4RRD0faz4hGPcUaRVWDZE1mWJZM42rkBaAutZIOh16YpwYsdbsRpYAqt5qHaoZX4'
    'xLJTKIvXJgoZjaOqxRJF3H69Q1E1CAhjpHVoNS9YJbSySdQPrSYxtk/HOLSKhZ1OiWiHOBKYaIxUPzOLT045WSGxXorwGGeQYVwq'
    '+DKh3o6q6emuVj+yQlCmvrjImZWnHdMYq2UF55Fa6WsJIySKkW0gUbISYoxjWh+8JMGxdnhHSOKBEY6BblVjg1S3mmEVpxNYTUNs'
    'nophZMVanDSIqUfwvqQxTv3I8NGVhRReCiuNAoY4XZ1IwWXBCiEkfRhBfZXoR1bRoddWlOLpKlGkDKFakdU0UDOySk4bAdByo6pU'
    'M9uQ1kDKEJWwE5c5pyyu0xBpFVpNS7UOrYzi9GKrSYgdUzEOrrI+sBIjnxE58rqEZgWpEVxJrOq8vu4RIPFLGcdIozs4UQxe/H2Z'
    'LDkN+ws+iK5Ey5TSFUVd9TVn4jFYK7raANU6LQo6ZHFcROsxJrQOam0iY5bQKEIE5RrgwJGqR1cbxFodF0Z5OtHVNMTmuej3Hoo+'
    'KmtD2wLHiOn6MsUOTsuM6os35bEiaHcRxOurlIbDqVSPRx+0xIEWuxW3rihpL4+GY4i3lPhmyWSJD6hBZpA1WT1xX2NUDUR22oMo'
    'YC13vYaoWgZ9Ev27v3/45UX0V//t/Y9X/e9fvXj/h/95/e7Ti3ePy3vod5+uH9/+4YfrxK+8OfFXfn6RfvzoH8/Bvd+/fMe9Yf8Z'
    '2xAtg1vSUtrtSi+HPAyRmjyGaaQbvT1mSZrh8+Hwa3rD9Az8chIcuBufnw8HAx88mcOIHOUkiOIZefHxwxCjleYk58VV80lfQZey'
    '8l/XQCfa0VEx1cN/5VA7ui6+ejju/VGLeJI1HaStlQvOvFxSs5axKkOsZjZiGulEe1q5cjkcfp24mJ6BY+1p5XrmYOCDJ3N0lUPB'
    'eX1MoUVyNVXOI5g66VsJWoW1fpN4t7h+obyCOdGePnwJt/ThHK/04RyndFCCdn75TrKkvTs5YG2oXgoAFCRmKiOkpls6jXSiGX04'
    '1St9qDql0/Ifa0QfTvJJH85xScd3f0shloygZZz1CpCHQA2/NKKLOaEYZM044apj6xroRDt6+SJ+6eUkv/Rykl86roI5v4gnWdPB'
    'RS557Sqr79bFAohXFYZYLb90HulEg3o51y+tX/nOz8CxJvVyll96Ockv7d0ZswtLzb+A4uaLP5KvL0NswzQJOaAF60KERN5zDun6'
    'atVXdTWaE8Q8Yy/W6uZxLC4V2YD6JpTXzQiex0bP32yCC0pwYCyJ45pV//zTX8o6HSXKoXDVWntamFi7YHvAHNeJ4efa+SyJwlqy'
    'RoJNJNlKLb/4ptjeUYIcClcp6cZ6g6IxXwglks/daXm4ZYBqGbkUdDaRIHUN3sOLg0U5FK5WCS6JPdfccslLsbvC/XvbmwsflwlT'
    'jqgECa2k0f/4xdHSHIgHlpQWqJEW81G4voXG5EGJPyFzEuOTiz4DHMOc5vfCF8lrwUl5LTgprwXDvNb8Eh7s9ZqYoOiWzpA++cKi'
    'nq1RGnJb80gnOBhwbm6ryxfdMANH+rxwVm4LTsptGdim7LQEvw96IZu0QsgQp36PELJLsSBoWVFCyHGIc6I5/RLpLTgpvQUnpbdg'
    'nN6aX8OT7Gk/uxX1rV4OkH2WcKtwHEI1DOo80In29KTcVpdkPD8Bx5rTk1JbcFJqa8xSpuwoe0atkY1cUhrBVI1pYFe0IwonTlgk'
    'ehyhnGhKH76EY/pwjl/6cI5bOshsTa/eSUa0m9iKLoiJR1yqN+ZMeYTUTGxNI51oQx9OdUnria1p+Y81oQ8nOaQP5/ijhsQWuRIB'
    'QK++QsJ15bU1UptxlRCzPozkiOsWymugE+3o5Yu4pJeTXNLLSS7pxcK4mlzEk8xpP7OVirjO+sIpen08imUI1TCo80An2tPLuT5p'
    'Na81PwHHGtTLWT7p5SSftJ/Wohi910dTtBRpvr4kbsM001pYxKnVmkEUksQLfH1FYTSaE8Q8YyvW0lpUvCte9iAxeVw/LH8eFz2b'
    'cPROPklaGgm46fydkNWCY7NaUM1qpRAda3HEElC3FHeV85lXTN4FUWrMsfgC3Ujz8uJgQQ6Fq2W1ZFpEKm1ZJ4teAoeuE3jDiUgu'
    'LRw47VPYeKIDZ2S14NisFtSzWsWVhBwJfWHtAdW/sX1+2+udvhlmCGXpQdffbsdmteDgrBa2s1pvP358+/df/Sz1r3//lewlKsVT'
    'AiTIX/3mxVfPnnA9/eHzBNhX/zH8xWcu8u0PZuczaGs27QOheRT9iWePhvQPxZGWF6ccMWU2/OZp3jR+kXwZnpQvw5PyZdjMl32h'
    '9T7Y8cZecu1WJHDAy8vX6ElL6i8irV5C6R+Vo0Nii7K+wZb/ZUkt0doZudtff1X9+VfV33+1aQAnuFR4biIPa4m8Lz9xRwYHeFb+'
    'D0/K/2E7/3e7El5btYpvL2dKFg+vyGH9pC2fPX3TP6zyha01aGUM11tAW2CL18SFkr6vwactsHpqtfxZ6y+In8USjYDerxp+/cRj'
    '6EvkGfGkPCOelGfEZp7xi6/8SQdSNTtZF65oP6IYl+ZQPwt3+5ps+XMCl2BpnVO0kEcqfctWS2quTsTa79d/fsuvn3ggnZQJxVom'
    '9AvP2rGn0UnpUzwpfYrN9OntKpA4AClR1OIbRXu6kE746t3g8sfbjGtrFR5ssRAH+WmtnI+sV2Z5Wer1YzX9a9AKIblQlI1RSHbA'
    '+KdPPIsevkRE9HBOQPRwTjz0YAuHzl3ykw6hB0tQpM3nGL2MeGmx5xcZ1k/xlr+GpUUJaKW2mCUKzH1z9mCJiqq//6o+gFdbRnDi'
    'KfRwalT00A2KTp+3Y8+hh5OCoodzYqKLNSbSWm2sFsH7gEAens6h9dvLp7+uEtetdbhYQyOk4gh9gBwhZw7+5xVfPfd7+jNKNE0p'
    'Zq/xWSoxGQZw4ol0+SLR0eWk6OhyUnR0sUZHX2DxTzqbLqYACX1yWnmdshyySQzbkxyrZ43Ln3NyIGoVxRwW8Cn0TdzFEB9Vf77+'
    '6xt+/MSD6XJueHTphUfnTtqxp9LlrOjoclJ0VEvkr++5i5Yj1BKPFHPMcH1Z/NO9XOUB61OqCPV+RQ6w7LWgsFIAmrahQgK4HUFY'
    'WptG0DTuUnb++qr882J9/fj16R6exJVGGXmJ6qkEvL6i3BvDKepzDoMAP2cQrIwcZ1pq1GsvQWB6WpL1s9mnv3JykVEXSf4/fByo'
    'zF01lpHfi6RdbLz8WPTL/K/f2i5/Tcl5SqwdoWSxePRzLw7Nht4dm1y9dNZAe0QWjqIGDCBKkn6+T7x5oPt0zvjgUgisTRVIpgoH'
    'ZquqIZBdoJTEdw/yu3FZ3dtXvcvfUtG68xmTdhhjGNwgXV4cPGWHwj20V4BSdl4i7IWC5HN8CrBvXwIvf1xUACTo5hIkyoE4iGXq'
    '8RPI0gYtiKy7XTul/dNFev6A+Oc/y3LJGVUgYwnaAGDwmy8OnreDWQbtddCWbXIyZGWpJABazPbq2fHyx+SWYsJiMzAFmZdRpq26'
    'DsVxAW2DpTscA/98A377VPnpz9lJTEt6w6+t6WKh0U++OHrejsF7fPf99VFxtAH917//pQ9989//Cf/5f74V/dP7N9+/k5/+X9e/'
    'f4793Q9vHx/1w1/CyM//s+yD9++++5P+6Z9h7rP/cvs/eIrOPup/v43Xan/75fPbsf7x4/s/L6NdEXmjuILiFxTRMr8qMS6/rB/I'
    'v339Fd/hy3/Df/UOw7/dvfndw7/iHf7bV08f/PZP1z//r3c/ftYe9B/+H3/p9w6Qw1A2vhdjqy1/yi9PxrtQjfYBOTjt/ax91FjO'
    '9GhA6vecwYDiC6C602XpD9xBfNr63Zat3ssY9S4cs6bK8i+cqS5eg/dZkL0jgoV8JXYTzUOrla+WkSFnLZ4fc1GKbzIPbd1c2IFe'
    'wMrhoZaCf6mh30W6JRpvke62Zvq0WH9pVE7X9LuWbc8QJHzP7H2KQ5jKtMgWknNMPA8x34F+adxWxfjtX0eP2ZxYaS/aKqOinH95'
    'GjwCqyoOOb1Cl+XStK7S1mxYXdURTCiBtCsI6k4o412g0L2WTUEURhyHmCiIB1iyDbDZtmkbXKsbh+BpeCUGDHNgbSQ+MbwanPhi'
    'YpblINZH9b6QwfYsgOs2TtsEXTXomJJw2SaNNh3bgHbP0bBwiQTPdpUaFDDhG5XKNqyuSvFzlaLxOnZ7oIF4+J9tDAlHbYCtom8b'
    '4VoKJXjTCvXBrlBy9hoHuKrttlHQlUJNSdhrkLYNaPccfTt8LsiE2pMsSEyjfZ0k2LDBNd4MikuQ0MegZDh18oINbdA3TeLRhSOi'
    'jEafgcb28dveazNc2qxQDuIkiOtIYINrlpXZBtfQKjEe6hRhCMxeY/mJwa3AUHyQENlzXHptcgo2tHXhmG0y3irUjHDftvvkbILZ'
    'Nzl3Bk0CCfqNmjTud0DFrkn2DoQQZjXprq9J4NLUtrjra9ImuKYmBe1jP6FJd4dq0l1DkzbJuNYku3B3PU3aALNvckY1QJbu2RkE'
    'TFtYQemOaVAJBFkCXVGfSBpdCqINq6tEgpm1vW2K+oKvZEPw3O1bGLQLMWlrR9kaCaMJraFBm7Ba7p3IGSQiT+Ia69PxnO0jq9xf'
    'xOIDg96qhAAJignsVns2ybfy6mYE6/Qy3AKzb2Jejw8hZTfIxIj/G0IgzskG1ypuLjKmrE8VIsfSD2hemw8hBpeXayPRITk1xxdH'
    'r/tnkD4A1UeOXt9eeEo2vPYhtA2vdQot96ZeE1SpwNzoaoZWXIIs5kzv+ImQbWiVU2ibkKtjaEK6151jaAvMvtm5GHQJHFh1ydAo'
    'gOy6dLHrkp/UpctIl3BuW1xGurQFr6NLNKVLl0N16dLUpS1C1nTJKt2lr0vTMPtm55uuLokmMYuXiR6SD4khcbCBrTVJdnyILmvy'
    'KMm278Yv31iUSCMteqKqa5EOYl/Gt3bfNHXoa8zJRaAApchCkHj6NrSaBsnW2ohW0x/x9cVWIIqjDoEk+gg8MbQbLNke6JWyhihb'
    'rPhsg3qmO9vFe6Y5c3L1qr3IkeiD2lKlWYgtTVelUw7AmnetYhY0G6W7XWIrKteXgMU0snVXXycA4mZGkEOSmHRgbBrYCqq46FNK'
    'egJ50NtDgWqHoDDIDBdlAUFWfi1lip18GfQTw16pVCko20GOMy/rmA1Q3bNRIb1EkUqLiDmL1xlDB3OUGyZXPMi0RQpy0voQrq98'
    'NOC1agKFSJrS10bL4vyXTvoURslhcuD1Uae2fY4qaJoZWyUkSSXkpRoLJi7Q8XugmR3eJN/qRJwVrJMejh6iLwByLkbl6YQhTDU9'
    'XAoCp5zF0FDuYVjSw7LfA4vqkOh1ZhtYIz3sURt2qymGkD2QDWyQH/YYORTiKIpEhcb7YJQfTkobi9lrWSj1K2yAzfzwNrh2fjjh'
    'Un2oyM7P4g3AxPDqqRqJ53MsmCCwT8rLsiGuE8TbJK0kiCdE7CeItwDtnyRLhviZVpENrJEhvtEqG9YgQ/xcqXi8koMUMU5vjW6K'
    'eBtcO0WMn++TXNLE8AzbBdg4gesU8TZBKyniCQn7KeItQLvnaJwiTphdVKKXPpqMKdvA6rcgSNn5UrzPOYblfboNbXALUrKofZQR'
    '6jVsYj+2s90EMRfvZGwAJCG0Rw5sw2tdg2zFa2iV1gIUb1mpc6RU0InBrX3H4jLL/l/YCakYsVZ3IFslvFWnCdE6+eEtKHtm5s6g'
    'Q8mBTYfuxjqU7DpkTw3rLdacDt2NdMjP7Yi7kQ5twWvpEMryzujQ3YE6dNfUoS0SrnTILlonM7wFZc/MDNPCcnBoXViQiBJLij6Y'
    'wOppYRT3NQVNemOUKKzrclrTwuQYPev7HEJxLAyOySAtrFVi9ZlHiOIYIAYTXjMxvAmtnRqOPmptUdIn/CWCfWzVDCgubD2vb44i'
    '2Ia2Tg1vkrCSHLaL1k0Oz8Psm5pxclirD+urJGVqiAoFI1rjFIp66yp6zUs+PkcbWP8QQgQXUwxIPqGWOR6HC6/7h1BwmSiWohWp'
    'OBYbXPsM2gTXdOPYaYES9uLx50wzg6tZWgjeMyBF+WfhYEOrnEKbZFw7cnbhXvc8uQ0w+ybnYtCj4MCoR8O8MIZi1qOLXY/8rB5d'
    'RnpEU5viMtKjDXAdPeIpPbocqkeXph5tkLGmR1bhLn09mobZNzmjpHDSumFEgYJyZQGiDauWE0ZtxOY1d5Szsv6zDaqXFUalDmYI'
    'DF7+QX6sQJ2kMGeUveBlyiT6g8zZBlbPCW8Eq6aEg5y3qOlXRiicfZkY2G12OWtpjRRSThI6RF+CDesmJbxRuucZ4Rmx+gnhoGVC'
    'ithmlo3K11fY3abdfLBmuKPojoR5BWWPXl9i15/r5oMDKvGwFEhJ7bwMjMgysEo+uFBByhKceY8S511fQXvOcfRSmEJh8XaVNhiK'
    'XqwaoOovhUncZ1nFnLVsqC6kAan/UjipidBMusaiPqUOoOmhsBqtBAU4pSy2MBvwWpvD61PaIr55hhgydCgoaHkprIQwiRg8Jy0j'
    'Qx3WMw4fCmtpCQmRo5Zt7MS02MwEbxKu9lB4Rqp2IlgOGk7KLqeQinbjGaJU88CJgHIQ/ePSOdrRkgZWNnkJlDLov4dkQ2vkgeX0'
    'k1mmxdhgJhvWIA0sTsMTEZ+S+Kd5vJtGaWAtN7twM0R39MmADbCZBt4G104D6+uMLE6bnP/gc4KJ4VXTMTJxejceopxpIKeacYDr'
    'LPA2QStZ4AkJ+1ngLUC758iQBKbnOmUDaySBJ1TKnAR+rlJlvJAf+hpVnu8MtAE2NWobXFujyrNtEtPE8I7SqA9VjdomaEWjJiTs'
    'JYG3Ae2eo28NbUXRQSyob7y02gpEG1yDDO+TU3ZyJi1uKFFWsaH1bz1ycahdD/RxXRRnY2y4+8+EJQSMRbxiLTWAAplseE0y/Ea8'
    'hloh68tt0EfgmEO32gCO88BaPyoBY1GuKkk8EG1oazb8RilvdWpKvE4ueBvOvvm5M6iTV26kTZ3Gj4V9tKuTOSOc86w63Y3UCeY2'
    'xt1InbbgddSJ59Tp7lB1umuq0xYpa+pkFu+ur07zOPvmZ5Qa1taYhAGTnHIcJCrPJrB6aji4kiVAjEi0cNrJhNVPDUd9k4keMxc5'
    'kwuM3Yxualhr1SalVfvsIaWuezvMDG8Da7l6pM/4CLUmqzKtfbQPrZb9zBLqi3GUOFtritqGdqtC2wRcuXgzknXywltg9s3MOC8s'
    'YY1LMjeEMkmyUcmG1ipcQWIgKGuLWxbzkNmGNi5ckZW1H5WRQiGMb6L6j4ZRfEVtjIOhRIyZgw2vfRhtw2seRtFl1N3KskUkCpgZ'
    '3trYJre0f8WMeqdONqzKUbRNxvVRNCHc695RtAVnz+xcDKoEDo2qNH4yrNfVVlWyPxkGnlWl/pthzC7NbYv+m+GNeB1VojlVuhyo'
    'So0nwxtlrKmSWbhLX5XmcfbMzig7TKyl+jmKk+mDPhu2YVVfDCsZIhMv9ZJRC5/asLqPhr129vR6zSi6FNiQYuk9GtZ8JQPEAknL'
    '4pINrPFmeBtYNT+sPVS8rqcH3RxiOiZGdoMlmyMHAvCacIw+G8d1+2R4m3TP88NTYvUSxOJbSnysnj2QmFSKV9kZfgDWehHqIIdI'
    'hbSjNGil5evLUkwDq2SovEBFbbuk1MEEQQeWLANbG9AlBYiyckhBXFag66vO61w6rpg0HVZMmowp4qhJAyd2GVCNWOflKx1cTJqO'
    'KyZNhhSxSMqybwslvWNOHq0DW2+1AAoX5RAD1Lf82QC1vZY09VLEM1L1MsQ5iAdHEjX6qCfiEGVNSXPKK9d2UghaYbaDcGAZaTqw'
    'jDTN5IcTJ61KsPRoKZ38Ph1dRpqOLSNNtvwwaQHWoB18UhJjHWhifBVlRJbtWnzJ6jZFj8bx7agiTYP08IyA/fzwJqSdc3RgFWk6'
    'sIo0zaSHn2mUYSGPKiNNx5aRJlt6OH+2S9h7nhjeMfq0s4g0DZLDE/L1k8NbgHbO0KElpOnQEtI0kRpGpyVNtEGIxKWR43AtD6og'
    'TcdWkCZLBemgr19lXclH0jeiE4NbezLZKftZOdraZ6rrMRxTQJq6BaQnZOsVkN4Cs2tuDq0fTYfWj6aJlDDMqtFB5aPp2PLRZCkf'
    'zfoAdkaN7o5Uo73Vo6lbPXpCtl716C0wu+bmwOLRdGDxaDKngoMrHvVlll4ZxZTHGnRM8Wg6sHg02RLBPshailXTF9ZY2D60ynVW'
    'Yi5RXHW9lwHy2QS2uXo0DRLBdsn6meB5nH1Tc2j9aDq0fjRN5IJ9dqykKRK/vCTCsWU+qoA0HVxAmiwFpIPYIW0siVxCiBAnRre2'
    'tdFps9pM+owCwRAb7a4fTd360RPC9epHb4HZNTmHlo+mQ8tH00QuWHm4c6p0VP1oOrh+NFnqR4el1O+EKl2OVKXd5aOpWz56Qrhe'
    '+egtMLsm58Dq0XRU9WiyJoJLcJwDaWqMwPdzUEcWj6ZDi0fTuHi0uPqa5ilKGBGPJU+M7AZK7KLsckgUETEJINuwthePpk7x6Am5'
    'DqwdTUfWjqZeKhhFd1jzULCkcbnIwLoz3s4Ek1MCMrCXgA+0Lu/1VefA4EEiOKIy3zVpgZzkoCwGpHpSS8ZFmAPISQvaztYypn5K'
    'i/Rhmxhj2Z1JYLkDOEoDa10iEZChsER+SF4LRwcDYGtziKvPLslmzeIHYO9NLo8SwcHJiQ/in7DERJGAZ4ZWIx3I7khBH8ktxtoy'
    'stWt+xbxVkUzJuXqlI0WheagXbdZ6wB0updyt2q0GAavd/ZK+uphWLLBavSC1qQNmKHzrIsN6WCQ3e2zVgSRcXFXm+35YFVEpMUU'
    'kj63Hq7gKB8ctdFlLPr6Qeu/oQ2wmQ/eBtdOX0X170GLv+lj8DAzvHr5VtlrshZEKQTUOkM2wHVCeJuglQTWhIT9fPAWoN1zZEkI'
    'P1MqtIE1EsIzOmXOCN/o1HglBxlhmN4a3YzwNrh21WiYVqkPR6tUPSe8TdBK1egJCftVo7cA7Z6jcVY4MDrgLF4++aWLhA2tcfuR'
    'opZCjAglSSjIyQY26p0V5WiWyRNXbykWP94U3aQwRYkF9fkZa7uk2CmGwJak8Ea41tWHBKqwUFUlHND3CRODW8cURVZD64iBOO4S'
    'DbARbXX3sVHG1dXHhHC9rPAWmH2Tc2fQIzk1jXo0zgqnYNYje+VoDrN6dNfXI3ZlalPc9fVoE1xTj1icmBk9ujtUj+4aerRJxrUe'
    '2YXrpYW3wOybHEP16JwyxhIDaGWyaMKqp4VJC90F8cWWRDODCWrUUjhq1e+U2Sc5hPN4HwweCOvrLgLtfKWvQ8EE13wgvAWsXTka'
    '41KqALSEfU7FPrRqeWQoStnHGGXmMJjA1g+EtwhYKRxtl6xbOHoeZt/MjLPCIYEWX/c+lFC0v44NrVHw1svotI67R31nUcAGNjiD'
    'ZITRF6/XDayFqMZnUDcnTMm7pSmz7IylJ4INrnkGbYNrnkFF0DRHo9ewkWFicDUzK+sqnnqU4JehBBvY+gjaJuL6CLLL1ksIb4HZ'
    'NTfjhHCIRet2mrRonA8WAa1aZE8HyxpOatGl78kVV6b2xKXvyW2Ca2pRFrQZLbocqUWXhiO3ScS1Ftll6+WCt8DsmptRLjgECWAw'
    'BYTluXI3GhqlgkvUqzqJhdhHOSE92rC6z4Lj0pqHQNw5v9QNHK5fJx1MQQwGxFxKgSWJZwOrZ4M3gtWTwTmLJcsoq1rEbQppYmC3'
    'L4w1/SqTpQWNtX53MM7YTTJ4o3Q3ueAJsXq5YHRI5CFrAiqJaWYtqhxhgNZ0v1kCF9ZyyMETBrq+FKNvGlkl36cZAe0y4LUPiNfn'
    'yokt46qllWVI2jlPAhaRNCtW+0QLg2QwJbE1avu0Uy9wyAakRjJYn7doyhUWRnIyAA36+sgO1UL+SeJZCR87icQwTAbnpWgAadno'
    'XBJo92UTXuveXaygNppBWYQi85ezeWyrBY2OZKfKcop/Xoogzgyt1kMYSUIY7UCoPMHOU6XQzgVvEe/2KJyVq5MLZkZdOHG7UOLE'
    'yEOUSi4441IJm4v2p8vc256WXHCS0xnFp4wyLuqOyJALVjvjfQoF9BbChjVKBUcvWpOTF81B7rwXCdanwUrU0ar+Aul77V2D7Wnw'
    'JrhOKhhAzjGJPqLSBiBPDK9exDVrmTDPhWWYFGxwlZfBm8SsJYLt8g0SwRuAds6QJQ38XJ9sYK00sF2d7FngZ+pk2A6jd8HT+6L/'
    'LngTXCcLPK1NH47Vpsa74E1i1nLAE0rQzwFvANo5Q4Z3wRkcFw0cQZ9Qd1gVwZABDsryCwmVEhl99+C0Z4C1TyyweIlJe0vmNFzJ'
    'fgIYtQ1xSOJsgIwzBhtc87pjG1yT+67PEaLWbI0ce0z/YEgAo+ZAfCzaPDOHUtiGtr7v2CbjmvtuF677LHgDzL7JMbwLThIWGdVo'
    'nAAOaFYjewJYgvg5NernfzG5NLUn+vnfbXCdx/VxSo3uDlWjRv53m4y11/VW4e76r+unYfZNjuFdsHZVyNoIYRBIjl8F+6LPr6EU'
    'n4q3jWqY/i2s/bz80peo4HD5Bo+CJd5lLx4iplxSNKE1HwVvwGonf7P8nxLqQSH9xMgqNwyyJYL6YEBZvBVKJrD1m+AN8lVyv3bB'
    'urnfeZh9E2PI/YI4vImLttyW0MiDDa3FP0ra3S97ioHEc05oQxucPyE4L065VnUi8WDHDnk/90ukj6qX/LlMX2QbXPP82QbXPH+i'
    '8zFEbbEh0qYUJkZXs7GEwCl4/Qcw2sDW5882Gdfnz4Rw3efAW3B2zY4h/evlDDIq0sVCiDUrkj3/G3hSkS4jRcKpXXEZKdIGuKYi'
    'BRfmFOlypCJdmoq0Qca1Ik0I130MvAVn1+wMXwMXcrloytBHSqXHUQjDFHDSziFePUxt7YbROLBuCpizdiNJGFhf1qexW9LLACM5'
    'iktHH5RBcmAbWiMFvBGt8SA4OBIPf+mdFrCEiZHd5oD1iZw+TY1ZnBY2uL/VFPBG6W7fA9vF6uWAQfmm+upWM7dISasmA4/Qmk44'
    'IXKOLJGHaGIJ8foSmE1Dq7zizd77RCwHUUpi6zU7HUwjq2SBPT7V7NUnxqWQStlMTr8QhX58fPefP16//4c33HzkqCGgNj/SFB6H'
    'Mg3cYCCm4sTGigXRyhxyIE/j9o9RJK1dn5e7Tw8R21HF8x8w3I3IXEvAkkRNgu7StsFqIrdO1/3IrcQy6cNgL1MhoQ1m2jjkFS4n'
    'FwTP64NvptjW1Cbu6vTdPwer7PM24TuXK3sRj5rHscNb9NgXG6pdspd7nGnguvo+XXbFXEjsM+Xi4zTwQH8zuIgBYkxBXGHkmW3Q'
    '9YglLHchZ/Gt5R8x+zSN3FTf3cgt9X2qx+rFmwkZfeJtQ15vu+iAtD5S0mp4MYZp3LX67p6DlfpuE77jUe9FPGoeh00aolam0/Yr'
    '2okFcQ613q8BUo4JHXuJJFC7/s2B9ls3hFg4y7kusUousVMZs7b4PT9OrVcmlpmIqHVmet0v6tgNnc36hiiJ85siK/ERt4y4QjES'
    'l0b7F3ACdcs4bhxwBZkIQhJnD6Pn4Of0a03v2in/ra7uEbxD+vIoLm4ikl1FJZZYZhArzvfSeCsGEDdDZDai9SKN4JYiNRJlsEdx'
    'l0Gr8kzgNtkcMTMpia8ELeci0/kSQ54db4WDytlzEessa060EEcxzY53Baut6cSFUdYueAQMgtowAX94+/H64ncPLz79/cNVIT79'
    '9OGH69e/+uqHd4+fvpIPvMPwH79uDujPP6nxsUUwEDy5yKw9vsSjjABzsHvjlyro6A7QZdA8bhD1TOyTBd0QuYB2shX7qS3PsscI'
    'YQ635fjsxW2ZUYkDXJZZUM4olJw2jHYdLkfZDZppUnp4wjbXvQ66cnj2yr4yoRuE7oQqu+AOmbxRWrigK1qkRQ4ibeXWTjFXMevE'
    'v+zklAx69UdJzgyYguzqZhBTItCoq62Potm82v3XwuxiJIkoIRTNQ9MUbOvZwi7QVgI5a/ow+aJuiHb+SvNDrWSlteQxa/0UoCL+'
    'CMUp1NVz4l2Sr1LLW0TupJj3wB00dT1nRhwuI0Jj37378Y9TQ6g1R5sZQcURYfESoYiTR1qCHvRdTFtTv79eP3z3/sPfTTcquqPE'
    'BpISlLuFDhuwu+9T6rCD2xRwHHJI2jQiFkDToA13KSA+lcuiaimBtpbq+KZ14LZHsRO45VKEFBxo9Wb12zRvu2XA65DCR4clE0gU'
    'IAFFmh1txavYKf/KrdgkeOcSZSfgMVO41YzdQGywY9VBTBmy2hh2WbI/v/vbYheHbyygyInhc8x6V5U1WDcD1i+Vsr4ZjMEvnUMy'
    'tZ4YVfD690l66aVl0ZNPQZwu6sNanlt4l7R9qphaQrGyzfZdFczm+6XNiE0PSyJLDqT+uriYGdLcGNeAcrYwikeMYkcyzgCunzFt'
    'lnbtVc2J2Xt9sRVq91SNrx9EdR1ozVl9iES5VWK5AthgHYlP67QOLiSxDNQ0lBXAgY/AWqbac4ygjfZMC9u9bXiiYbDEx+LTRCUV'
    'kBmzdSG2HbGhbEmJv3qIaQ0C8mVuhCs4saYOsiadA3hCsuOtnjhtF/VW0+Zk7FwmbATaO0ujGwQ5EZ1WQ09ZuRSiGWTFq6qYVnXR'
    'nsHIUTtERfPouvqlD+uznGNBn1HnhKbl7N4ZiNTEmiDShu7AzFbEhnJtxmudY1GWJfiMpEwXn8vU+NZwS18xoByXZ3bcjOrXgLe6'
    'tVnS1Rk2J2LnTmAb0P5JMgS8MkX6kLYE0H4RqZgBGwcYygEmTn5SnpiMs0V2qAD2DzACdJxB3BN9qhJbj7Ser+qlf4IBOyiYZUFy'
    'WBgfZsxmuYjNiK0TLGct0phQCyvItOa5Ia5DDo9OXLsgvkrSl2RkxlvXjtgs6+oImxOyE7duRdo7T71QVatZepBDIXvWFt1wfcll'
    'DNfYYqgt9nTKSbzOICOL11fBW0dnj2FXQ5n9FMahKnrHHpbnZzLVQU5lM2A9VNXyb5xiKFphWyIFM9woUg0seynLAmaSOCT3cW2h'
    'quxP9FqlLng5E/rhL5hC1c2I7VBVYgXZYZTFVRVdj3NjrMVfRWIkvfVSnQoIZsB1qLpZ2kqoOiVmP1TdBrV7qsahaizsdLpE1cQ1'
    'wkRmwPpJX3xyypAMSTvmEZvhBtnxpUYVE+pVuZo6y7r2I1UU1wGihA6ZCbTMlxmyZYM3A7YoGxJ6SRwo+yZpM+kY5ka49hooOdBm'
    'FgiJfZPCWsG71bPtoq5aBs3J2AlUtyLtnaZhpMpajinI6YPgfUlmuPph5qPTNuWZl1aBfmQBjJFqCk6784UQknb8I5N+9SPV6NBr'
    'rW7UhlASAFsRW5HqVrxmpJqc1uOj5ZZdSaFTA6x0Xtb3uki4LAtl8RCtgKtQdauo61B1TsZerLoNaf80jYPVTNl5OXcyIkdulmeq'
    'ADaCVS8xjNcOgIInHjqjGXB02ypaxktwJBMph7dphwyiVdFcZV1GsQT68i2xGbMVrW5HbJ1jBR2y9lWUuCkmnBzi2kDHLDFmhAhK'
    'yEGbv1iPVrfLujrI5oTsRKtbkfbOU7+0avRR2U/aJCFGTNeXKY7hWrbcKSszEKOE0HIu4vVVStbBVSpoog9xaQOLRXzZokTcbByc'
    'PX5V+qol0yr+rwb0QVav9Wx3DVW1RNlx0gC4w95YI1VN0Df/47cvfvf3D9dvPn58//HrF1/9t/c/XvW/f/Xi/R/+5/W7Ty/ePb74'
    '8b3826frx7d/+OHa/TFDIAtuSahpQyu9BPJgBWxyQ7YC3uyZsybi+V4661fWlJGt0/KL9Tp0pJUQ+Bz8cyZ6GCyjmK0oPoEXHzlY'
    'oVoZXXJeXBafkp47peXjrfG+lH4P0rxKV2debkJZi2sUK2Tzjnwr4PkaXgmpz/qV9XX61mk5RcM74ffo3GzH25MyjuJtCs7r0w8t'
    'y6b5YTai1VnlSpsqrJU45EzH5pPyFdqXUtNeDA7a3krmEwCWjs5UjIDNU3gr4Pk6+vAlDuGH6hm8dVJO0dCHc4/gh1NP4HGsTxIa'
    'YUbQSoAa8rMVr3EMRwlsckKxF3oFLtBWvC+l34Pon7zjUPRVs+w7MaLBCtk6hjcDnq/ily9yDNfvCTZPyylKftl+DLdvCyZl7N0W'
    'sAtLGZ+AcqTLsZmvL0McojVT21BKjCFCIu85h3R91WovshrbOTtlfXtwIDxYrhhAp7V4KpyzFatOfJPDK3MqiXPRVwdmtLMNoClh'
    'jm6pmC4BWWEMo9Eb7hk2A5633eCL3DN00+rbp+UE8wcn3zPAufcMhqQ8Oy1E6INGMUlf8Vrh6k5OyC7FgoBMiRBytMJ9KRXvXzVE'
    '5Q1ncc98loOgcLQiNnR8M975Kn7uRUM3o795Vk7R8M33DL28/pyIw2uG7Ch7Rvk/0aySkhGtqqNBeyGT6HvSxnU5ghHsS2lo95Yh'
    'uiB2BXEpT5MzZSNg85ZhK+D5CvrwJY7g+i3D1kk5RT8fzj2AH049fw23DORKBIAYkvwTmxUf1oDt2/6EmJWYyxGb7T/WeF9KwfvX'
    'DKmIB6FkqOiV7IrFithQ8c1452v45YscwdVLhs2zcoqKX7YfwR1GwpSI/SsGitF75UjRUhPt+pJ4iNa8YpBYmpfnnxSSuAh8fUXB'
    'OLZz9smpVwzYvmJ4+/Hj27//6ueJ+fXvv4quUCmeEiBB/uo3L756xm94+sPntxFf/Yf1h5/Zytvfzc5r0xgtXBj1ecTy088IEfoH'
    '7X+UPFKOmDLbf/pss4q9y4tbUcEBL+yj6EnLii2irjL7+ke9CiMJwbPy5+R/WdJA5PaNx+0gXlVH8ao6jFd7xnGe0uAXuSjB2kXJ'
    '/7XZPMH048n3K3ju/Qq271duV0lbC4vdCGK6MpN2ugpPWvYZzUP/sLqPGaxP60ZmvUu0pwLnsnQl5lLwaZesuCHLn5WBW3JiOadA'
    'w0T7IL6Utave49SFLlovNMalvuvPQt+SAJY/J3DiM2vdyqLU3lRMqlG7/llZ3dow6qPYMYjzrd25d0ZYuzP6vzOVp5i6ykWT4v/3'
    'tz/89MsPPF4/fXr343++ePvji0XwF9cfrn++/vjpxf9+9+lPL97K//9ffrr++N3Vvfjdn64vPup/e/x0/f7n//Gf3j7ql+9+/NP7'
    'P7//z+uP1/c/Pb54/NPbD9cXb/8oI3wBL75/J3CPMqjHJ4jvr59EDEF4+p/9b0H4Ff3m1y9e3qB8ePvxk7NJ92xr/BcR7sHowZKc'
    'uilpvybGorUhSTfiiiW0/PH2Tm+wOx9sviwHGYEWuELWYCUvmrBmFulfg1Kjc6EoelNIFMQ8gi9l5B8sHq2WW2b0IslSadovsq2J'
    'Mstfw1KmDvS9Vczi2meTSXiwuLTVYbyqj+PVjoGcb+UfvoRL+9D1aL/UZJ5i5x/O9WgfTnVoL1aHVh9XsVoY7wMCeXiydWvW1NNf'
    'V7ecgzW6WP1aJAnM0QfIEXLm4H/eFCu21dOfUaIlSjF79bFTick+ji9l9S4m1xZ9clqHhLKY9SRq8STfiliz/Dkn7XkdoihTAZ+C'
    'SUEuBs+2Oor6ILaP4XyTd/kiju2l59h+kZk8xd5d/kv7tZf/yn5t7dZ7fWVY9OmcvlikmGOG68vin64qKsy7p0ta1FsGORaytkYr'
    'el8+srOVG/PbgYSlDH6EWHxZKs9cX5V/XlWuWXtPN5skfi+KACWqixDw+oqyYShnmpyzrtsf331/fVQ4bXLx9e9/6XXR/Pd//srn'
    '/7kxNZ/ev/n+nQzkf13//vlP/OH66a1+/t0Pbx8f9T+8e3zz9vvH9x8/6Ff6h18O78//s5yn79999yf90z99jGf/5fZ/IFjyp4/6'
    '3x8/vftOBvafb757f/3jH/Uv/+dYfjqna3/7BbAh3R8/vv/zIt8vi/H/fPr08d0ffvr0zxV5EJT/7yoIv6yIqu2P71+8/eV/KNLJ'
    'n65fNZbm00eFln/7+iu+w5f/hv+qHUj+7e7N7x7+Fe/w337+7uGnj398+93189aMhjZOJO6wdzlqtanyC0ezC9Uo95CD03rxWkCQ'
    'i4/RgNQvW4QBXSqoB1pZaoN3EEddmrRPj5cxaryMWa8m8y+F9bp4jTycBMhemx09tbYUY2UeWu0Zr4wMOWvRgqgd5iEl89AqPZhA'
    'A3LxZVELwP9StKCLdJvf3SLd7SvzabE6HZaW9+4Zgjjdmb1PcQhTmRbZQkV8fEoctR44dTB++9cRpcqlHH0pQUZFOf/CexyBVRWH'
    'nF6pyHLpNbqmJm1YXdURTG3KpMVcUHdCGe8Che6V+wqiMIE1xRmKOJrZBtis9bUNrlUhRfD0BBcDhnlpUQkTw6vBeZ9BOz4HZRNr'
    '16hoA1yX+dom6Ko+ypSEyzZplEfZBrR7joYvBcQ/s6vU4KkA36hUtmF1VYqfqxSN17FbPw+c/3xjRJ9sgM1ebNvgWgoleNMK9cGu'
    'UHL2Gge4et+0UdCVQk1J2CuZtw1o9xx9O+QGMqFWogseQOtwYYk2uAYz8KktaQyaiVYnL9jQBtXyILolv6ZUA5+Bxvbx2x4BEJeK'
    'NJSDOAniOhLY4JqPbLbBtfqqi7DiFGEIzD4yxInBrZudkbbk0S70S31XTsGGtn4xs03GW4WaEe7bNmNvE8y+ybkzaBI4tmrSuKIG'
    'Fbsm2etOQpjVpLu+JoFLU9virq9Jm+CamhS0G8SEJt0dqkl3DU3aJONak+zC3fU0aQPMvskZvURZyr9nEDAt8wWlO6bBQxRkCXRF'
    'fSJpdCmINqyuEglm1grJKSpXt2RD8NytLBm01jVpYU7ZGgmjCa2hQZuwWu6dyBkkIk/iGivLP2f7yCr3F7H4wKC3KiFAgmICu9We'
    'TfKtvLoZwTo1JLfA7JuY1+NDSHOSMjHi/4YQiHOywbXqSYiMKStPUHum9AOa1+ZDiMHl5dpIdEhOzfHF0ev+GZRcKgyheCU+eko2'
    'vPYhtA2vdQot96ZiYpUeBnOjqxlacQly1IbX2lYM2YZWOYW2Cbk6hiake905hrbA7Judi0GXtGmIUZcMtVnIrksXuy75SV26jHQJ'
    '57bFZaRLW/A6ukRTunQ5VJcuTV3aImRNl6zSXfq6NA2zb3a+6eqStoZm8TLRQ/IhMSQONrC1Jmnz2uiyJo+SbPtu/PKNRYk00qIn'
    '6qI+miL2ZXxr901Th77GnFwEClCKLASJp29Dq2mQbK2NaDX9EV9fbAVi0O7fJNFH4Imh3WDJ9kCvpBFE2WLFZxvUM93ZLt4zzZmT'
    'q/cIT45EH9SW6msWsaVJO5X6AVjzrlXMgmajdLdLbEXl+hKwmEa2fmfoBEDczKWtITHpwNg0sEo31uhTSnoCedDbQ4Fqh6AwyAxr'
    'U1cHWVlxlCl28mXQTwx7J8ufAhBqaWcv65gNUN2zUSG1FyTKhMWcxeuMoYM5yg2TKx60ky0FOWl9CNdXPhrwWm80QyQQw6NVqMX5'
    'L530KYySw+TA6yMaLY0dVdA0M7ZKSJJKyCUnLyrABTp+DzSzw5vkW52Is4J10sPRQ/QFQM7FCKmUMISppodLQeCUsza5yz0MS3pY'
    '9ntgUR0Svc5sA2ukh702es1qiiFkD2QDG+SHPUYOhTiKIlGh8T4Y5YcTEigzlknGmzHaANttizfBtfPDCVl2qrgWYhrFG4CJ4dVT'
    'NdrJNxZMENgn7cZrQ6y0LN4kaSVBPCFiP0G8BWj/JFkyxM+0imxgjQzxjVbZsAYZ4udKxeOVHKSIcXprdFPE2+DaKWL8fJ/kkiaG'
    'Z9guwMYJXKeItwlaSRFPSNhPEW8B2j1H4xRxwuyiEr30QUxM2QZWvwXBpblN8T7nGJY3bDa0wS1IyaL2UUao17CJ/djOdhPEXLyT'
    'sQGQhNAeObANr3UNshWv1YCGJMJPSalzJGZpZnBr37G4zLL/F3ZCKkas1R3IVglXbWfsonXyw1tQ9szMnUGHkgObDt2NdSjZdcie'
    'GtZbrDkduhvpkJ/bEXcjHdqC12xGWLS5pl2H7g7UobumDm2RcN2D0Cxat//gPMqemRmmheXgkANNovilZWj0wQRWTwujuK8paNIb'
    'ozbmRRNWPy1MjtGz12ZoKI6FwTEZpIVRgtQcMYQojgFiMOE1E8Ob0Nqp4ejj0k1Sn2CWCPaxVTOguLD1fFha1NmGtk4Nb5Kwkhy2'
    'i9ZNDs/D7JuacXI4hei0N5wyNUSFghGtcQpFvXUVveYlH5+jDWzQUhDBxRQDkte+xxDH4cLr/iEUXCaKpWg1D47FBtc+gzbBNd04'
    'dvr4nL14/DnTzOBqlhaC9wxIUf5ZONjQKqfQJhnXjpxduNc9T24DzL7JuRj0KDgw6tEwL4yhmPXI3poT/aweXUZ6RFOb4jLSow1w'
    'HT3iKT26HKpHl6YebZCxpkdW4S59PZqG2Tc5o6Rw0joyRIGCcmUBog2rlhNGrYXtNXeUs7L+sw2qlxVGpQ5mCAxe/kF+rECdpDBn'
    'lL3gZcok+oPM2QZWzwlvBKumhIOct6jpV0YonH2ZGNhtdjnrI+4UUk4SOkRfgg3rJiW8UbrnGeEZsfoJ4aAP0ovYZpaNytdX2N2m'
    '3XywZrij6I6EeQVlj15fYtef6+aDAyrxsBRISe28DIzIMrBKPrhQQcoSnHmPEuddX0F7znH0UphCYfF2lTYYil6sGqDqL4VJ3GdZ'
    'xZy15JoupAGp/1I4qYnQTLrGoj6lDqDpobAarQQFOKUstjAb8Fqbw+tT2iK+eYYYMnQoKGh5KayEMIkYPCetVEAd1jMOHwqT3gYF'
    'iFrGqxPTYjMTvEm42kPhGanaiWA5aDgpu5xCKlodeYhSzQMnAspB9I9L52hHSxpY2eQlUMraPTqEZENr5IHl9JNZpsXYYCYb1iAN'
    'LE7D/9/dtffGkSP3rzJA/hgbtht8P5zcAUFwkYBF4gO0FwRYGDo9xh5lZUmRxvH6LvfdU9UjydI0yS4+elq53cXaGk3/WMVmvcni'
    'diO+tOCfuvHVNFYGxpZ0/d4MkB08MkADjJaBy+DiZWA8neHAaQP7z5mzPIO8YDkGJg5z49qATeNg1YgEDqvAZYwGqsAZHKarwCVA'
    '1XNEKALL5zJFA4sUgTNEilwEfi5SfvxF3qQlyj9fGYIGGJWoMri4RPlny8TYDPJaSdRNUKLKGA1IVAaHqSJwGVD1HP2JcIeI6Ljx'
    'As94YbcVbmhwkc3wzHa4O9lJbC8GUZanoaWzHs53ArtM4+E6A87GuOJOHxOGENB48Iqx1YAASEvDi26GL8SLiJVQeHKb4yFw4XSy'
    '24AYrwNz12F1RXjcqyohHjA0tOFu+EIud2Uqi71ELbgMp25+DgnixHBvJE2cxg8LM0MXJ3JF2LlccTocEyeetzAOx8SpBC8hTipP'
    'nA6bitNhVJxKuAyJE5m9w7Q45ePUzc/o3XW490RoYcHKKQ1RuSOBhUvDuvMOAkQjpOz3tEsSVro0bPBMpmDCKQ822fNxNyNZGsau'
    'iBa3VTPHuLVJ93a0MlwGFnP1JB7jk0JpL3CnNTN00kLVTwehPihHiLM1KDUaabsiVMbgwMXL4SxRFy6BqZuZ8bowhDWdhbmRAiYJ'
    'FqqkocUaV0hQENJ5r4UC9eAUDW28cYXDXfsGd6RIrcczUelDwwJ8RWyeL7Q3wjilaXhxY1SGFzVGpnMCV6uCJQJRQA55Q2VrO+zR'
    'p4QTmFOXNKyAKSrjcWiKMpj715QpKsGpmR3CVYuGd4IoSuNHhjFdTRUl+pFhrnJFKX1mWLjO5i2L9JnhQryEKMk8UTpoKEqRI8OF'
    'PIZEiczcQVqU8nFqZmesOiwVNoVWBpxMpvHYMA0reGIYN0M4iYcuhBXY+JSGlTw0zPBaLYZpRpAlrQglltShYaxXKs6N5xbb4koa'
    'WOTMcBlYsD6MNx8wfJ+M4+IA1ZFB2Q4WLA6nJecMC46GOSJdu0eGy7h7Xh/OYit9baeG+Bg9ey5BpUqzgpXBRsCit3Zyp430Eq+H'
    '5NhpefXGexJhgQoVAyiD12bg1kHLNRJmKYQNFWhfAhTw5oTU4LJyuXqXOJ0r2zWTls2aSUtiidhg0aADvcwFKrHEyVfZuJm0bNdM'
    'WhJKxMCpgnXrpcUcs2WCSthwqWmOcAaMGBd4lt8RoMp7SctUiTiHq1SF2Gnw4CREjcygRRxFGW5J63BfOV4CIzh2mE0gNGwjLRu2'
    'kZY59WGrLHYlABHEu5Pk6Mtr1kZatm0jLWn1YYkNWDVeEmHxLl8tM+gLCKNQsFw98w7dJsMEkb6KLtJypDycw2C6PlyEVDlHDbtI'
    'y4ZdpGVOefiZRBFeZKs20rJtG2lJKw+7J6tEMaYyyGsjT5VNpOVIcTiDv3RxuASocoaatpCWTVtIy4zSsOiwpQleEAJxqVFm9F02'
    '6iAt23aQlpQO0hpPv8J7lcxIPCOaQdzQk3Ed7n7GPdoa26h6GlhFA2mZbCCdwVuqgXQJTNXcNO0fLZv2j5YZJWGeK0aN2kfLtu2j'
    'JaV9tMIDsDlidNhSjGq7R8tk9+gM3lLdo0tgquamYfNo2bB5tCSXgnXnmcCTWZgyMtaNS1Cb5tGyYfNoSSsEMw3vErQanrAWXtFJ'
    'C6SzrFLegKuOeRkumSOBFXePliOFYDpn6UpwPk7d1DTtHy2b9o+WGbVg5jqFm6Yk+OXeSjGumVs1kJaNG0hLSgNpDXrI4lkm5bU2'
    '3GRQN9S1pgPjYZ3EYxSCE2Kj6v7RMtk/OoO5VP/oEpiqyWnaPlo2bR8tM2rBuA83T5Ra9Y+WjftHS0r/aN23+s0QpYOWolTdPlom'
    '20dnMJdqH10CUzU5DbtHy1bdoyW1EOx1p5yWWBqTnKVrUC2bR8umzaPlePNocPWxzONxwwh4LC6Dsh0o0IuwyrmVRghhAVDRsMqb'
    'R8tE8+gMvhr2jpYte0fLVClYgOworEPxvoyrPBCWnPF4JVh2uAGZKwYBH8e+vKt3CYOhRgrBRuDOdyxaCGXBUHoCUrioBXRJ4TQH'
    'S8vxOlsKTemSlsSDbaCMYXVagFUJwLEyMPYlAgYV9woiPyEZNo7WBMDY4gBXX3UWFqsDP0CkzuSqsUKw7sDic/BPFMRERnKVQ1po'
    '0wGsDqvxkFyvrCmUDbLuJewNmmZk8pVoGw0CrbQHFa+wD0Di9lKV7BoNioFhzh43faUwKNVgVHoae9Jq4XjiWJcilIM5rG7msCMI'
    '0KWS0kyvB6MgCtmrQonHrUff4Fg92OBFl8bj6Qfs/yZogNF6cBlcvHxl0L/n2PwND4PrHPLC7VthrcG7kNJqLbDPEA1wWBAuYzRQ'
    'wMrgMF0PLgGqniNKQfiZUAkaWKQgnCNT5IrwjkyNv8mRijDPXhrJinAZXLxrNM8WqZvWIhWuCZcxGugancFhumt0CVD1HI1XhbUS'
    'HVcOvHzJ+lskaGiR7Ic12ArRCO4thILK0sDG7s4yYJph8sDV65vFjy+KZFFYGogF8fiZwuuSTKIZgqIUhQvhYqkPCFR5v1UVwgE8'
    'n5BB3DCm8PA2sI8YB8cdogFFRBvkPgp5HKQ+MphLVYVLYOom55AgR2A1iXI0XhW2mixH9M7RSufK0WFajlTnsxbFYVqOiuCicqTA'
    'icmRo8OmcnQYkaMiHodyRGcuVRYugambHEL3aGedMN5ojp3JDAkrXBaW2OhOgy/WF5oVJ0GNXSlssOu3dYpZMMJufB2MHBDG012S'
    '481XeDqUk+CiB4RLwOKdo4XpWxVwbGHvrKeTFmyPzD1u2RfGwMwJTQIbHhAuYTDQOJrOWbJxdD5M3cyMV4W15dh8nTHttcf7dWho'
    'kYa3DKjDPu5M4DkLz2lgIzYIKDTMM0w3KGxENW6DkjVhaVnXX8oMK6O/E4EGF7VBZXBRG+QBDWs0mIY1imcQF1Kz8F7BUzcQ/Cru'
    'NQ1saILKWByaIDpvqYJwCUzV3IwXhLXx2LeTJEXj9WBgkCpF9HIwvMNMKTpIe3K+81lr4iDtyRXBRaXIAVqOFB20lKKDiCNXxOJQ'
    'iui8pWrBJTBVczNWC9YaAhhhteD9ceVkNDRWCvYGU3UQCylmwEIyQcNKHgs2/dU8koM7x/q+gaPvL1EOlhoUBjfOe8/7Ih4NLFwN'
    'LgQLF4OdA03mBLxVD26TthmE7Z4wxvIrTBY2NMb+3Zo4YzvF4ELudmrBGWylasGiE1Iy7rAAZUE1K2yqbPgIWtT9VhC4KGyHrJkU'
    'Wq7egNInURao92FFAG8ZYHgPCMPjylZR6AqVlYEkvDkPAhbg1CFW3KLpkWKwtKBrUPfhTb1caUdAihSD8XgLllx5vyPZEoBG7vWB'
    'FYqN/C3EsxA+JgqJerQY7PqmARLbRjtvOd6+TMKL5d1BC+JFMwJegof5c45M2+CFmk7CSoXXCf6594CYQ1roDmEhIYTBGwhxn2Di'
    'qJKO14JL2Ns1hbl8JWrBSgl8ceB2CYgTjRpFCdSCneg7YSuP99M5lVqelFqwBesswKc0QJdMUkSoBaOeYcxqzzELQcMaKwUbBlLj'
    'LAPJESpxXkRTjwbjRh3s6g+QLHW9q6YdDS6CS5SCOQc7BtGHwW0D3GWQF27i6rBNGFNeAZlS0+ACJ4OL2AwVgun8jRSCC4AqZ4hS'
    'Bn4uTzSwWBmYLk70KvAzcSIsh7FzwdnrIn0uuAguUQXOlqabttIUORdcxGaoBpwhBOkacAFQ5QwRzgU73imPgSPHI9SJXRWaUAHW'
    'uMtPW4FbIg1LGk56BRjvieUKvESLd0s6O/om0wVggdcQawvOBgc6jabBRdMdZXDRve94HMFgz1ajTGqnvyYUgAXWQJjxeHmm094r'
    'Gtow31HG43DvO5255LHgApi6ySGcC7YQFhHFaLwArAVZjOgFYAji88QoXf8VtrNZayJd/y2DSxyuN1lidNhUjCL13zIeQ6frqcwd'
    'pk/XZ8PUTQ7hXDDequDwIoSRQHL8VDDzePyae8+sZzSqRsu/XuF9Xqy/l8iL0dc3cigY4l3FwEMU1nlrSGjRQ8EFWPHir4N/cEM9'
    'R0iWQVkgwwBLQqMPxqUDb0VaEtjwTHABf4HaL52xZO03H6ZuYgi1Xw4Or1Uer9yG0IhxGlps/5HF2/0ck0ZL8JytoKGN2B+tOwZO'
    'OXZ1kuDBjjvk6dqvlHiouq+fw/QZRYOL2p8yuKj9MR0z2uAVG8CttTqDupCOlYIrqxn+y5WggQ3tTxmPQ/uTwVzyOHAJTtXsEMq/'
    'DGwQUZAOKBtiyYJEr/9qlSlIB2OCJLJWxcGYIBXARQVJdzpPkA5aCtJBVJAKeBwKUgZzycPAJThVszN6GtjLznksGTIjrU/tUdCj'
    'JWCLN4cw9DDxajdhiIQlS8DK4W0kVmiFJ+vtuFuSqgAL2UnT3+gjgEilFQ0tUgIuRIscCNadBA+/vztNC68zKNutAeMROTyaahw4'
    'LYrg/gZLwIXc7Z4HprOVqgFz3G+Kp26xciukxa7JXI2hRZ1wKYRyRkHkAZLotVm94UqRSAuc4nWMMSsVGCJrQddjdVqTKAtUgZnY'
    '9uzFI8beS+QyWpxegEDf3V18vlqd/y8jZD6cwRAQLz/CEp7SPhs4sgPR+g50LGgQ7MwBBjkbN21GhcTe9a7PfTJuRDyqeD4AITcC'
    'cw0BiwUx0bhK4worihyzrvXIscKyxIPBDKYCQhvhZCHJA1xlOw14DA98K2nikhrFHVjf+jkYVJ/LmE8kV2oRW83juMPr0eyDDsVb'
    'svs8TjZwWHy3yS7jvAT9LJ1nJht4RH4d74zQ3BirwRUWKmcZJD1iCMs77Rz41vCvccxmI0fFtxo5Jr7bfqwMvBntBLOqjOThsjMd'
    'l9gfyWI3PGN0Nu5QfKvnYCC+ZcwnPOpaxFbzOHpJg8HOdHj9Ct7EIkQeavi+Bm6dsaJTDCIJgbf+5YGmr27QxisHdh1iFedNojNm'
    '6OWn/DjUXk4qmAkjsM9M6vaLMHZEZh2eIbLg/FqjcOOjKKE4sMUIXBq8v0BZjm6ZMoUEB5Cl5NqCsycMU5rlyddwe1cl/7uyWsN4'
    'YtMXE+DiWilhVUlvvPE5iAHnu794y2gObgbwTERLRRq665vUQJShmAB3mWNXngzc6G4O45TETXxeYzsXmM43QrtcegN7UJVjyoN2'
    'hncuZb9xVNhcegeweDUduDC4a5czwYUG1IgKOD25XS1+Plpsvt+sEGLz9eZy9f7V8vLibrOEB1gn9MfXUYK+fEXlQ4tguGayM0rh'
    'HV/gURrO82Br45cg6FgOsHMc67gaxNMqZinohMiF4022oD/xyjPHhOE6Dzfm+NTixtQoxAGdg1nAPaPcO1tA7TBcNrAasNKE28Ot'
    'iO91D4MOHJ5a3gcqtIDpRKhSBddk8sbKwl50Hpu0gCHCq9ziJeYgZnjjn+vASmpM/UkLNoNnQSZlU4MqAWiBbxsPRSvy206fFlad'
    'MRIiSq491qFlFmzs2EIVaKyA7LB8aJlHNwRv/rL5pAaq0tjyWGH/FC49+CPSZKEOjhNXcT4oLZewnCgx18A1mrqUMwMOFxEhsu4u'
    'rj5lkRC6HC2HgoAjosBL5B6cPIkt6Dmei4lL6vlqdXN2ffOdlFHBFQU6UOIG5WSjwwhsdT4lDDuSTeGd0k5bvDTCeC5IRBNyKRx8'
    'qs6BqFnL8WqphG8aBo57FJXAMZdCW91x7N6MfhvWbUsIHoYUzHTCO8khCoCAwuZSG/AqKvkfuBVFjCeSKJWAbaawVI3tQBTosSAR'
    'WYosREOVJvty8VuvF0fPWHAPFoM54zBX5TBYJwOGk0oOzwwazfqbQ5yMHTEK4KXzSZj0wrbollkNTpdMw1KOW7DO4vWpoGqlAC0b'
    'vb4rgBk9v1SMGPWwILJUWqK/Di6m4zaPxiEg2BYlwCMWoEecyAEcHmMq5nboVeWxmTp9UQpVPVXj6QcQ3Y5jz1k8iCRdrMVyADCy'
    '6wh82g774HILmkFGFWUAcMRHUNimmiljOF60R3qxyWzDdhuGgvgYfBqDmwokGTOWECtHjAibxY2/aMSwB4FkPo/CARxo0447LDpr'
    'zqSQdLzBEadyVnclLY/HRDKhEKh2lsYyCGARO+yGbh3upQDJkFS8oIhhVxe8M1gogzdEGTJ1SfnCg/UO7JjGY9TOCtLrTOYMgGup'
    'sECEF7pzpRQVMSJcxXgxO2bgtWjmhMSdLsz5LPqGcP29Ylw60x+zU9Gofgi4K1vFnA5sWB6LiZxAGVD9JBECXpgiPEjrNcf7Iqwn'
    'A0YMmAADBk6+xX1iQGdss0MAMG3AJBedchzcEzyqYmKHtJ6/1YO0BeOq4144eCFO9zs+yJjRdhHFiDEL5hw2abQCGyvAtLo8Eoch'
    'BxMduHYafBWLJ8kkGW/YO6KY14EJy2MyEbeWItXOUypUxW6WjINRcEzhFd189Ub5cbjIEhN4xR5OuQSvUwNlZvVOMyp19Bh2QEru'
    'o3w8VBWsU4z3x89gqjVYZTJgOFTF9m/KGu2xwzZECmS4sUhVK1hLDl6gkxCHuDQuLVSF9SkYdqnTDGxCOvzlpFC1GDEeqkKsACtM'
    'OnBVQdZNHo2h+MtDjIRZL5QpLTgZcBiqFnMbCFWz2EyHqmVQ1VM1HqoarzqcLhA1cI2ElWTAsKX3zHa4Q1JbvDFPKjLcSHW871Gl'
    'pMBUOao6yntNR6oCXAduIHRwSnJs80WGjOngYsDYlg0IvSAOhHVj8TJpo/MoHHoN0nYcL7MQ3CoW3cIawNuVs3JWB1cG5fGYCFRL'
    'kWqnaTRSVdiOSYP1EZwxb8lwYWPGTIfXlDvVXxXIxjQAMVK1usPb+bTWFm/8kyT5SkeqphMMe3ULvBAKAmAqYixSLcWLRqq2w358'
    'ss+y46bQLAIDNy/jeV0hRf9apAMPkQo4CFVLWR2Gqnk8pmLVMqT6aRoPVp10HQO744RQRkXbMwUAI8EqgxiG4Q2AgAceuhJkwLFs'
    'K0iZ6oMjmEgw3qQVMhKtguTirksDmgBPvllFxoxFq+WIMTvmRScU3qsIcZOxIpPEoYI2DmJMww3HDTmC5i+Go9VyXgeGLI/JRLRa'
    'ilQ7T+nWqoYZ3P2ElyQYI+zqjTXjcDFd3uGuTC2VgBAa7KJYvbOWSlygg6Zg2vTXwAoPvqzHjbiOSBw9fsXtq5RKK/i/GNBreHux'
    'Y7tDqKAmcp2yGAAndm8MkYIq6A//+S+Ln7/frP5we3t9+36x/PfrqxX+vFxcn/7X6myzuLhbXF3DH5vV7cnp5So5GCGQ5V1fUMML'
    'rTAJxDgVMLo3pBRwZ81MNRHP19JUowy3jJROy4P2akppIASeBn+aiR4NlgWoLQM+AQMfWVOhYhVd2TFwWZi1aHd8zMcb4u1LvkfK'
    'vLhdXak+E6qwuYanQkZz5KWA00t4IKSeapRhOr10WiaR8ET4PWY34/F2Jo9j8bbUHcOjH9iWDevDiogW3lWO26a8wk4cYNNF9Ej5'
    'AG1fYpqKwTlebwXzyTnvb3SWnggYtcKlgNPL6NE+jPBR0AaXTsokEno0rQk+mtQCj8f6EkIj4QTHToAY8isqXsQMGwhsnBWgLzAF'
    'DtBUvH3J90j0L1mntMdTzbDuQIlqKmTMDBcDTi/iB3sxw+E8QfG0TCLkB+VmOJ4tyOQxlS1Qne7b+GgBJh3Mplu90WYULVra5t4b'
    'ow23kjHltF29i10vMqBtmpUyzB40hOeUFAPHafVMeuUcFSu88Q2Ml1PWW+U8njogo02tAEkFc9H1HdMhIPNK6DHqCXmGYsDplhvf'
    'S54hWVYvn5YJ1B+fOM/Ap80zEIryqsNGhExjFGPxFC8VLuzkaNdZ4wUXSlopuDNUuH2JeDrVYHDfsAP3jDkwBF4ZKmJExovxphfx'
    'aRMNyYp+8axMIuHFeYZUXT+PxdE0g+ukY0rAPyBZ3loiWlBGNd6FLEHeLV5c5wwngu1LQpNZBtNp0CtC9O1pnJOOCBjNMpQCTi+g'
    'R/swweEsQ+mkTCKfR9Ma4KNJ7S8hyyA7bzjnRlv4T0Q7PgwB49l+K4TDjbnKiOj1H0O8fQl4Os1gPXgQuBnKMNzsKjwVMSLixXjT'
    'S/jBXkxwMMlQPCuTiPhBuQlO7EjIYjGdYpDGMIZ7pGTfE231RqpRtGiKAWJp1R//lNqCi6BW76Qm0jbNOpk0xSDiKYaT29uT76/u'
    'J+b1L0vTeek9k5YLyd3y7WL5bH/D9oOn2YjlR+rAz3Tl7riuY3hpDDYuNHg8oh/62YYI/ADvP7JMSGeEdYo+9NRqVaSSF7us8o6r'
    'fveRYRLbivWsDir7+CGmwiSE4A73z8E3vR1hOZ7x2CXiXZCKd0Ey3tXQMZ3QiL0kSkQoUTLbbE6g+sXE+RUxbX5FxPMru28JrxYG'
    'vaFBdTkl8aYrvZWyJ9s88INBPmbk/cQyMsNVgncqKOf7W4mV92K7SgZ7Q/qPcQeud1aBneIYJtKJ2Je2C+Zxwkx77BdqTN/f9Z7p'
    '3U0A/ceWd+AzY99Kj1t7rSeJRij9M9C6ITLCVFQQMb22mzZnJEI5o3mmchJVF0g0If5/nFx+fRjgbrXZXFx9XpxcLXrGF6vL1ZfV'
    '1Wbx7WKzXpzA7//76+rqbNUtfl6vFrf4091mdX7/5fXJHT55cbW+/nL9eXW1uv56t7hbn9ysFiefgMIFX5xfANwdEHW3hThfbYAN'
    'QNh+7RsgvJJvXy/e7KDcnNxuOhp3z5bG3wlzR0QPVoLVtRbva1LCY29IiQtxsEuo/3A3pzeyOo9ovqzSQAE2uBIKgxXXS8JwZxF+'
    'qnFrtPPSgNx4CQJCpmBfSv6I4tFiu2UlGHDSd5pmPW/DjTL9p7pvU8fxvJVx4No7kko4ori0QTLehel4V0HI9Fr+aB8u7VHSo93X'
    'ZE6i54+m9WiPJnVoD6gOLR6uUqhhGNOCS8a3um64a2r76SDLOfKODqh+rZAQmAumuTPcOaXZ/aIY7LbafiwgWpLWOIY+tvXG0unY'
    'l9Y7ILm2gtkO+5BIB2rdglhs+RtsrOk/dhbvvNYGhMlzZjVJQA4Inm2QijAR5TRMr/IO9uLYHqQc273M5CT67uDv2q89+Hv2a0NZ'
    '72HK0OPROTyxKI0zjq/eeLZNVQR23m2TtAKzDGAWHF6N5jFfPqZnAxnzXUJ03wbfcOOZ7zvPrN75x1TlcNfeNrMpwe8VwIA36CJo'
    'sXonHYGUKVXOVOn2u4vz1R3C4SUX7395uOsi+ufjKE//HpmazfXx+QUQ8uvq+9Mh/hmf/cMJ/v90ten/PLs8ubvDv5xf3K76h/GH'
    'i/P+/3fHJ+d317c3Dx8/mPanfwdre31xtsaPHj2QZz/sfgGw4KNb/Pluc3H2K8ji8dn16tMn/OSH0d5a8dBnTwC/3q2Ov1xv/nL8'
    '7eIuOhmfbq+/9NMxKLwa0MgK77HXGNpFXtPmFp+DP94v1aF480H8Dm8j+XB4/PPR78Sh+LDcPnf8ebXZ0ne3s1weLjN5Onu7zsny'
    'dQTlh3yFYH7MeOx5VvEsrycfF2oFBcvflvU0bBXTL+zj6wpK7kH42wW/x9m1K6jqN7dfwYb8D366uP70w8T0puXL9S18Yw0fwqQ8'
    'Wh3QFSdfTi8+fwUT0C3+dAd2pDu5+v7q9eL6Fv96efkqQNOOwnvg6ZkEUiZo15oEgR5nKgrAah7mLVgYLLRMInZXWiEZkbWWScwL'
    'W2yswUJjNYuMlS4wVru4WMXCYvWLilUvKPbSFhOvN4y8xiryUpPIK+0hrzCGvNoS8mozyF/aShL1K0nUrCRRupJE5UoSFStJVK8k'
    'Ub2SxEtbSTidDWxcD1Nh5vrnWcWzvAH95fauf7za5PUotVbvKchLWWRLiLerFRaCVKgsfJyVP8qraS9XXPh0repCjFrl9QTjxays'
    'ZQPltVzWqK7lslRxLZe1amu5rFBay2W9ylouqxXW8sUtql8+NlhUAFKxqOBpVvwkr6a8fFHBw9WLCjBqF9UPiBezqNjHehuIIBU2'
    'EB9n5Y/yatrLbSA+XWsDEaPWBj7BeCkr6+qmw4V1XL+8HpEq1tgjBqt8nrdhpXzJPULUrrtHoNrFtwv0UlbgD3LEx9dvo+XnGWmK'
    'F/xnJIq9NIL4SyPoUXhfEE0P2uAFkbSjV14eZS9MUcHn55vvN6vfPWzZyNVZqy83m+/3RA4p+XP/i+7u4i+rxe8X7M+LzfXibL06'
    '+xXZ2Pxg736vRA/WZRCbq8zmpZb9v6GU/7+hNFMvzktsnsKcl9YiTfoiSM5WsdNRfXNyd3e8+u2m3/r36tPx1cmX1fnbv/4ttIPs'
    '7PryEr7X/dPl9Rmotd93918HRf7l4u4Odyvyfifixe3qfHFzvfW1Ty5h+M9f0RK8XyxPHvYhfbq+PVv1w+9z1F12f/1GH/XXb/WM'
    '7mG8XRbvVpef6IPit3OGxe8HOd3fsM8Z/qn7stqsqSNvv137Xvc25g6r9BGPjy+uLjbHx9Wc0sesHDSimOAL7xf8b09jcnRf3y7k'
    '64RiGX8qpBjCT/3y8XVMssceCIvm06f2LqD7GzwspoEpW+JvlmAi4b/XcWEjPjkQmfBL0q/Diz33lT5bcLiBGf5k8Odf4E+/C8NI'
    'yzYHJb6Mx1BGl/UowCv4PVDz+u3iFXzj7cK/Ji38MO5MgjAHMSnBSE56lqBkI0UEZ3Q1JgVpdBH1awh+NypgZ/C4fbvoYcXb+xnF'
    'mV0+wxS9mrdJKSuDCooaHSolbxkor+DLSBQKXf81/PpyVPLGRti/+M1LUUQGiS/iQXwiK60F3FAa6Yskattq5/y5j/cZYssvXy83'
    'FzDuNnq9W3zCDN/9lKdm/Icw/gYE6B+08Hki0RnICOqTUjJaxar7JiCirkqpaK2k5qAjoprKSGkb7+6fiKEaLCWhZURcSsQE6vN0'
    'Rp15OqOiPJ1FO57OpxJP59SDpzMrv9PZNN7pTGrudDbddlqq0Brn/EC9/voNnrqDH2RZApAMkUyjxCEoOZTE068efomUUHMnu3jz'
    'JU72S8lI1iQyzbkpkwyYeL4k/sr1WLIksVoefve4ULY/H59cXl5/+yE+/WOn19eX7/utCE+KlQ+0Hj/M8N2zZx5Y3fZh6JswLKND'
    '/frtxzi4P2NsmPvvPxkjAv1TFv0/PUN9yIfccxAb4acc0n+KDRFD71dUHhM/HglyEn0Nl6urrIEevo+C+s+bze3F6dfNY7eQ068X'
    '4IteHX/6erVthnF9e4x0XZ8/9g/BJjNX14uTh0cXy+Pjs+vz1fHxMkygDukF/VCXPlmAXrjETiT3A6Sp13HaL642GUT2hXuAv1jd'
    '0/tqeSiWIIR/xLRIx/52vy1m253k1fJn1M+MddtM9x8xUQN//0hG403RRAO0cQ45CYU3QRH1KE+OKNbj8EY4DfjSLZjSLTjSLdj5'
    'ZftNid8c5Uxm4vHGeKIeb3lyuozsscPGP+jv3H5ffL05PwE99dDg63Eb5T+wXpmB1v68WS/4Py4Eas4Hl4kwMp9tZDHTyGfzTffZ'
    'fPN9NtOE/7J1FjmIhP5I0lT49+0jH3Og+XTQoiX0XwFg68f/dvzoyf91+d99RB0yunwwzuODbx8frByVzzKqmGLUD1lemh9T0B+y'
    '3LRMuGo/7QPJUfM0GN4GptoH+ED01TwViLcCasGabsKXbsKUbsJRlsfmcwF5a8Bqn+3DM6etjrInPlgDoBks/IfnPlU1E2fNpuNs'
    'rvnIc3mI6zfD08lHbOjgfCjwcEpsaKY703yICXyXddME07ppgmndNMG0bpJgWjdJMK2bJJjWjRJM60YJpnWjBNO6RYJp3SLBtG6R'
    'YFo3TjCtGyeY1o0TTOvZEkzr2RJM69kSTOv5Ekzr+RJM6/kSTOvpEkzr6RJM6+kSTOtZEkzrWRJM67kSTMc/H7WtBA4QeXNE0Qix'
    'QVXwEYk3QxJtkNpUCJ9g8YZYjXjUrRjUrbjTrVhrWzkMYPIJMEUbzLmqiE9G57OOLmYc/WzeqT+bd+7PZpz8yaqLIXg+LbxoDT9H'
    'pZE0Mp9t5AkcwpauYEsnsKX718Lxa+HytXD22rh5bRy8Nq5dA6eugTvXwJFr68K1dd7aum1zOWxzuWpzOWmzuWezOWazuWSTOWOT'
    'uWGTOWBzuF5zOF1zuFsPX27ndAUQeXNE0Qix2g17gsSbIYk2SC0cs2dYvCFWIx51KwZ1K+50K9ZaOm9BTD4BpmiDOY8792x0Puvo'
    'YsbRz+ad+rN55/5sxsmfyOULw/Np4UVr+P07gcSR+Wwjt3cIdTtPULdzAXU730/XO3263tvT9W6ebuHf6RaOnW7h0elqV05X+3C6'
    '2nnTLb023dJd0y39ND2Pg6bn8cz0PC6ZnskX0zM5YXom70tP5HbpifwtPZGjpffvYen9u1Z6ap+qvxXi+GKzusU2G8fYFOMVovWw'
    'd5vb98semy8T3+97kvx4YNuiJPkEisePB/Cn9PcvrrII6m/XyHkAPQJsQPLjmYdP3rPUc/DVnWGSX78676/d+PHI/QfvxSg3RuXw'
    'c7Q52fzb6mwdeObj/wEnfHms')


def main():
    import sys, json, zlib, base64
    ref = json.loads(zlib.decompress(base64.b64decode(REFERENCE)).decode())
    got = collect()
    bad = 0
    if len(ref) != len(got):
        print('WRONG: %d records, the original tree gives %d' % (len(got), len(ref)))
        bad += 1
    for (l0, r0), (l1, r1) in zip(ref, got):
        if l0 != l1 or r0 != r1:
            bad += 1
            if bad <= 20:
                print('DIFFERENT %s: %s  (original tree: %s)' % (l1, r1[:200], r0[:200]))
    print('%d comparisons with the outputs of the original tree (values bit for bit, exception types and texts), '
          '%d differences' % (len(ref), bad))
    sys.exit(1 if bad else 0)


if __name__ == '__main__':
    main()
