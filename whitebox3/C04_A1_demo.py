"""C04_A1: entropy / heat capacities of a reaction state with units ignore the pressure (and every other keyword)
that the dimensionless twin receives.  Run with PYTHONPATH=<tree>; exit 1 + WRONG on the changed tree, exit 0 on the
pristine tree."""
import sys
import warnings
import numpy as np
warnings.simplefilter('ignore')
from pmutt import constants as c
from pmutt.empirical.nasa import Nasa
from pmutt.reaction import Reaction

# GRI-Mech NASA-7 polynomials (gas species: the constructor attaches GasPressureAdj)
H2 = Nasa(name='H2', elements={'H': 2}, phase='G', T_low=200., T_mid=1000., T_high=3500.,
          a_low=[2.34433112E+00, 7.98052075E-03, -1.94781510E-05, 2.01572094E-08, -7.37611761E-12, -9.17935173E+02, 6.83010238E-01],
          a_high=[3.33727920E+00, -4.94024731E-05, 4.99456778E-07, -1.79566394E-10, 2.00255376E-14, -9.50158922E+02, -3.20502331E+00])
O2 = Nasa(name='O2', elements={'O': 2}, phase='G', T_low=200., T_mid=1000., T_high=3500.,
          a_low=[3.78245636E+00, -2.99673416E-03, 9.84730201E-06, -9.68129509E-09, 3.24372837E-12, -1.06394356E+03, 3.65767573E+00],
          a_high=[3.28253784E+00, 1.48308754E-03, -7.57966669E-07, 2.09470555E-10, -2.16717794E-14, -1.08845772E+03, 5.45323129E+00])
H2O = Nasa(name='H2O', elements={'H': 2, 'O': 1}, phase='G', T_low=200., T_mid=1000., T_high=3500.,
           a_low=[4.19864056E+00, -2.03643410E-03, 6.52040211E-06, -5.48797062E-09, 1.77197817E-12, -3.02937267E+04, -8.49032208E-01],
           a_high=[3.03399249E+00, 2.17691804E-03, -1.64072518E-07, -9.70419870E-11, 1.68200992E-14, -3.00042971E+04, 4.96677010E+00])
rxn = Reaction(reactants=[H2, O2], reactants_stoich=[1., 0.5], products=[H2O], products_stoich=[1.])

bad = 0
for state in ('reactants', 'products'):
    for T in (298.15, 500., 900.):
        for P in (1., 10.):
            for kw in ({'P': P}, {'P': P, 'H2_kwargs': {'P': 3. * P}}):
                for units in ('J/mol/K', 'cal/mol/K', 'eV/K'):
                    got = rxn.get_S_state(state=state, units=units, T=T, **kw)
                    want = rxn.get_SoR_state(state=state, T=T, **kw) * c.R(units)
                    if not np.isclose(got, want, rtol=1e-12, atol=0.):
                        bad += 1
                        if bad <= 4:
                            print('WRONG get_S_state(%r, %r, T=%g, %s) = %.6f, get_SoR_state * R = %.6f'
                                  % (state, units, T, kw, got, want))
                # energies for completeness (they are right on both trees)
                g = rxn.get_G_state(state=state, units='kJ/mol', T=T, **kw)
                w = rxn.get_GoRT_state(state=state, T=T, **kw) * T * c.R('kJ/mol/K')
                if not np.isclose(g, w, rtol=1e-12, atol=0.):
                    bad += 1
                    print('WRONG get_G_state', state, T, kw, g, w)
print('%d comparisons differ' % bad)
sys.exit(1 if bad else 0)
