"""C07 x2: an interface whose reactions have no BEP relation (the ordinary mechanism) declares no BEP relations: its
CTI entry has no beps= keyword and the XML file derived from it no <bepArray>.  Run with PYTHONPATH=<tree>."""
import ast
import os
import sys
import tempfile
import numpy as np
from pmutt.empirical.nasa import Nasa
from pmutt.omkm.phase import IdealGas, InteractingInterface
from pmutt.omkm.reaction import SurfaceReaction
from pmutt.omkm.units import Units
from pmutt.io.omkm import write_cti


def nasa(name, elements, hf, n_sites=None):
    a = np.array([3.5, 1e-3, 0., 0., 0., hf, 4.0])
    return Nasa(name=name, T_low=200., T_mid=1000., T_high=3000., a_low=a, a_high=a.copy(),
                elements=elements, n_sites=n_sites)


H2 = nasa('H2', {'H': 2}, -1000.)
PT_S = nasa('PT(S)', {'Pt': 1}, 0., 1)
H_S = nasa('H(S)', {'H': 1, 'Pt': 1}, -3000., 1)
NH_S = nasa('NH(S)', {'N': 1, 'H': 1, 'Pt': 1}, -4000., 1)
NH2_S = nasa('NH2(S)', {'N': 1, 'H': 2, 'Pt': 1}, -5500., 1)
rxns = [SurfaceReaction(reactants=[NH2_S, PT_S], reactants_stoich=[1., 1.], products=[NH_S, H_S],
                        products_stoich=[1., 1.]),
        SurfaceReaction(reactants=[H2, PT_S], reactants_stoich=[1., 2.], products=[H_S], products_stoich=[2.],
                        is_adsorption=True)]
gas = IdealGas(name='gas', species=[H2])
surf = InteractingInterface(name='terrace', species=[PT_S, H_S, NH_S, NH2_S], site_density=2.5e-9, phases=[gas],
                            reactions=rxns)
tmp = tempfile.mkdtemp()
fname = os.path.join(tmp, 'thermo.cti')
write_cti(phases=[gas, surf], species=[H2, PT_S, H_S, NH_S, NH2_S], reactions=rxns, units=Units(), filename=fname,
          T=500.)
text = open(fname).read()
entry = [n.value for n in ast.parse(text).body if getattr(n.value.func, 'id', '') == 'interacting_interface'][0]
kws = {k.arg: ast.unparse(k.value) for k in entry.keywords}
xml = open(os.path.join(tmp, 'thermo.xml')).read()
print('interacting_interface keywords:', sorted(kws))
print('beps keyword:', kws.get('beps'), '| <bepArray> in the XML file:', 'bepArray' in xml)
ok = 'beps' not in kws and 'bepArray' not in xml
print('OK' if ok else 'WRONG: the interface declares an (empty) array of BEP relations; the model has none')
sys.exit(0 if ok else 1)
