"""C20 A1 - class decorator that checks "T, P, V, n must be positive" also sees the phase flag: the liquid root cannot be
requested any more.  Tree is taken from PYTHONPATH.  Exit 1 / WRONG with the change, exit 0 without."""
import sys

from pmutt.eos import vanDerWaalsEOS

co2 = vanDerWaalsEOS(a=0.364, b=4.27e-5)          # Tc = 303.8 K, Pc = 73.9 bar
bad = 0
for T, P, n in [(250., 30., 2.), (250., 200., 0.5), (500., 10., 2.), (100., 1.e-3, 1.)]:
    for gas in (True, False):
        try:
            V = co2.get_V(T=T, P=P, n=n, gas_phase=gas)
            Pb = co2.get_P(T=T, V=V, n=n)
            Tb = co2.get_T(V=V, P=P, n=n)
            nb = co2.get_n(V=V, P=P, T=T, gas_phase=gas)
            ok = abs(Pb / P - 1.) < 1e-6 and abs(Tb / T - 1.) < 1e-9 and abs(nb / n - 1.) < 1e-9
            print('%s T=%g P=%g n=%g gas_phase=%s: V=%.6e, back: P=%.9g T=%.9g n=%.9g'
                  % ('right' if ok else 'WRONG', T, P, n, gas, V, Pb, Tb, nb))
        except Exception as e:                         # noqa
            ok = False
            print('WRONG T=%g P=%g n=%g gas_phase=%s: %s: %s' % (T, P, n, gas, type(e).__name__, e))
        bad += not ok
print('%d wrong' % bad)
sys.exit(1 if bad else 0)
