"""C13_A1 - Nasa answers from the StatMech model it was fitted to outside [T_low, T_high] (early return) and forgets the
attached corrections there.  Exit 1 / WRONG with the change, exit 0 without."""
import sys, warnings
import numpy as np
from pmutt import constants as c
from pmutt.empirical.nasa import Nasa
from pmutt.empirical import GasPressureAdj
from pmutt.mixture.cov import PiecewiseCovEffect
from pmutt.statmech import StatMech, presets
from ase.build import molecule
warnings.simplefilter('ignore')

def build(phase, misc=None):
    sm = StatMech(name='H2O', atoms=molecule('H2O'), symmetrynumber=2, spin=0, potentialenergy=-14.2209,
                  vib_wavenumbers=[3825.434, 3710.2642, 1582.432], **presets['idealgas'])
    return Nasa.from_model(name='H2O', model=sm, T_low=300., T_high=1500., phase=phase, misc_models=misc,
                           elements={'H': 2, 'O': 1})

bad = 0
def check(label, got, want):
    global bad
    ok = np.allclose(got, want, rtol=1e-12, atol=1e-12)
    print('%-62s got %-28s want %-28s %s' % (label, np.round(got, 6), np.round(want, 6), 'ok' if ok else 'WRONG'))
    bad += not ok

gas = build('G')
assert [type(m) for m in gas.misc_models] == [GasPressureAdj]
for T in (500., 1500., 1800., 250.):
    for P in (1e-3, 10., 100.):
        # S(P) = S(1 bar) - ln(P/bar), G accordingly
        check('gas  T=%6.1f P=%g  S(P)-S(1bar)' % (T, P), gas.get_SoR(T=T, P=P) - gas.get_SoR(T=T, P=1.), -np.log(P))
        check('gas  T=%6.1f P=%g  G(P)-G(1bar)' % (T, P), gas.get_GoRT(T=T, P=P) - gas.get_GoRT(T=T, P=1.), np.log(P))
Ts = np.array([400., 1600., 1000., 1800.])
check('gas  array T  S(P=10)-S(1bar)', gas.get_SoR(T=Ts, P=10.) - gas.get_SoR(T=Ts, P=1.), -np.log(10.) * np.ones(4))
check('gas  get_S kJ/mol/K T=1800 P=10 minus 1 bar', gas.get_S(T=1800., units='kJ/mol/K', P=10.) - gas.get_S(T=1800., units='kJ/mol/K', P=1.),
      -np.log(10.) * c.R('kJ/mol/K'))
cov = PiecewiseCovEffect(name_i='H2O', name_j='CO(S)', intervals=[0., 0.4], slopes=[-20., -35.])
surf = build('S', [cov])
for T in (500., 1800.):
    for x in (0.25, 0.7):
        check('surf T=%6.1f x=%g  H(x)-H(0)' % (T, x), surf.get_HoRT(T=T, x=x) - surf.get_HoRT(T=T, x=0.), cov.get_HoRT(x=x, T=T))
print('WRONG' if bad else 'all ok')
sys.exit(1 if bad else 0)
