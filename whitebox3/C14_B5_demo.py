"""C14_B5 (equivalent): _parse_reaction returns a collections.namedtuple (fields with defaults None for the transition
state) instead of a plain tuple; Reaction.from_string unpacks it as before. Compared with a verbatim copy of the original
on random reaction strings: the six values, their unpacking, equality with the plain tuple, and Reaction.from_string.
exit 0 on both trees. The tree is taken from PYTHONPATH."""
import random
import sys
import pmutt.reaction as rx


def original(reaction_str, species_delimiter='+', reaction_delimiter='='):
    reaction_states = reaction_str.split(reaction_delimiter)
    reactants_state = reaction_states[0]
    products_state = reaction_states[-1]
    reactants, reactants_stoich = rx._parse_reaction_state(reaction_str=reactants_state,
                                                           species_delimiter=species_delimiter)
    products, products_stoich = rx._parse_reaction_state(reaction_str=products_state,
                                                         species_delimiter=species_delimiter)
    if len(reaction_states) > 2:
        transition_state_state = reaction_states[1]
        transition_state, transition_state_stoich = rx._parse_reaction_state(reaction_str=transition_state_state,
                                                                             species_delimiter=species_delimiter)
    else:
        transition_state = None
        transition_state_stoich = None
    return (reactants, reactants_stoich, products, products_stoich, transition_state, transition_state_stoich)


def outcome(f, *a, **k):
    try:
        r = f(*a, **k)
        a1, a2, a3, a4, a5, a6 = r
        return ('value', tuple(r), (a1, a2, a3, a4, a5, a6), len(r), isinstance(r, tuple), r == tuple(r), r[4], r[-1])
    except Exception as e:
        return ('raises', type(e).__name__, str(e))


rnd = random.Random(14)
names = ['H2', 'O2', 'H2O', 'H2O_TS', 'A(g)', '*', 'CH3*', 'X_1', 'E1', '']
n = bad = 0
for _ in range(5000):
    sd, rd = rnd.choice([('+', '='), ('.', '>>'), (' + ', ' <=> '), (' & ', '->'), ('+', '<=>')])
    states = []
    for _s in range(rnd.choice([1, 2, 2, 3, 3, 4])):
        states.append(sd.join(rnd.choice(['', '2', '0.5', '12.25 ', '3 ']) + rnd.choice(names) + rnd.choice(['', ' '])
                              for _k in range(rnd.randint(1, 4))))
    s = rd.join(states)
    a, b = outcome(original, s, sd, rd), outcome(rx._parse_reaction, s, sd, rd)
    n += 1
    if a != b:
        bad += 1
        if bad < 6:
            print('DIFFERENT %r: original %r, tree %r' % (s, a, b))


class Sp:
    def __init__(self, name):
        self.name = name


sp = {k: Sp(k) for k in names if k}
for text, kw in (('H2 + 0.5O2 = H2O_TS = H2O', {}), ('H2 + 0.5O2 = H2O', {}), ('H2 = missing = H2O', {'raise_error': False,
                                                                                                 'raise_warning': False})):
    r = rx.Reaction.from_string(text, sp, **kw)
    print(text, '->', [x.name for x in r.reactants], r.reactants_stoich, [x.name for x in r.products], r.products_stoich,
          None if r.transition_state is None else [x.name for x in r.transition_state], r.transition_state_stoich)
print('%d strings compared, %d differences' % (n, bad))
sys.exit(1 if bad else 0)
