"""C02_A1 demo: Shomate getters must return, for an array of temperatures, exactly the values obtained one temperature
at a time - in the caller's order.  exit 1 / WRONG with the change, exit 0 without."""
import sys
import warnings
import numpy as np
from pmutt.empirical.shomate import Shomate

warnings.simplefilter('ignore')
# water, NIST Shomate coefficients (500-1700 K)
a = np.array([30.09200, 6.832514, 6.793435, -2.534480, 0.082139, -250.8810, 223.3967, -241.8264])
sp = Shomate(name='H2O', T_low=500., T_high=1700., a=a, units='J/mol/K')
T = np.array([1500., 600., 1100., 800.])          # inside the range, not sorted
bad = False
for q in ('get_CpoR', 'get_HoRT', 'get_SoR', 'get_GoRT'):
    arr = np.asarray(getattr(sp, q)(T=T.copy()))
    each = np.array([getattr(sp, q)(T=float(T_i)) for T_i in T])
    ok = arr.shape == each.shape and np.allclose(arr, each, rtol=1e-12, atol=0.)
    print('%-8s array      %s' % (q, np.array2string(arr, precision=6)))
    print('%-8s one by one %s  %s' % (q, np.array2string(each, precision=6), 'ok' if ok else 'WRONG'))
    bad |= not ok
# consequence for the differential identities on an unsorted grid: Cp(T_i) no longer belongs to T_i
h = 1e-3
dH = (np.array([sp.get_HoRT(T=float(t) + h) * (t + h) - sp.get_HoRT(T=float(t) - h) * (t - h) for t in T])) / (2 * h)
cp = np.asarray(sp.get_CpoR(T=T.copy()))
print('d(T*H/RT)/dT at T  ', np.array2string(dH, precision=5))
print('get_CpoR(T) (array)', np.array2string(cp, precision=5), 'ok' if np.allclose(dH, cp, rtol=1e-5) else 'WRONG')
bad |= not np.allclose(dH, cp, rtol=1e-5)
sys.exit(1 if bad else 0)
