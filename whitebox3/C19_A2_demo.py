"""C19 / A2: entry [i][j] of the 1-D table must be reaction i's own delta G/RT at grid point j divided by factor i
(times RT with units), the stable phase the arg-min over the reactions at that point, identically in 1-D and 2-D.
Checked for 1-4 reactions on grids of 1-6 values (the scrambling of a wrongly ordered reshape is invisible with one
reaction or one grid value). Exit 1 / WRONG on disagreement, exit 0 otherwise."""
import sys
import numpy as np
from pmutt import constants as c
from pmutt.reaction import Reaction
from pmutt.reaction.phasediagram import PhaseDiagram


class Sp:
    """species with an ideal-gas like Gibbs energy depending on T and P"""
    def __init__(self, name, h, s, elements, gas=False):
        self.name, self.h, self.s, self.elements, self.gas = name, h, s, elements, gas
        self.phase = 'G' if gas else 'S'

    def get_GoRT(self, T=298.15, P=1., **kwargs):
        return self.h / T - self.s + (np.log(P) if self.gas else 0.)

    def get_G(self, units, T=298.15, **kwargs):
        return self.get_GoRT(T=T, **kwargs) * T * c.R('{}/K'.format(units))


sp = {'M': Sp('M', 0., 0., {'M': 1}), 'O2': Sp('O2', 0., 25., {'O': 2}, gas=True),
      'MO': Sp('MO', -30000., 5., {'M': 1, 'O': 1}), 'MO2': Sp('MO2', -52000., 9., {'M': 1, 'O': 2}),
      'M2O': Sp('M2O', -36000., 7., {'M': 2, 'O': 1})}
all_rx = [Reaction.from_string(s, sp) for s in ('M = M', 'M + 0.5O2 = MO', 'M + O2 = MO2', '2M + 0.5O2 = M2O')]
all_nf = [1., 1., 1.5, 2.]
T_all = [600., 900., 1200., 1500., 1800., 2100.]
bad = 0
for nr in (1, 2, 3, 4):
    rx, nf = all_rx[:nr], all_nf[:nr]
    pd = PhaseDiagram(rx, norm_factors=list(nf))
    for nx in (1, 2, 3, 5, 6):
        T = T_all[:nx]
        for units in (None, 'kJ/mol'):
            want = np.array([[r.get_delta_GoRT(T=t, P=1e-6) / n * (c.R(units + '/K') * t if units else 1.) for t in T]
                             for r, n in zip(rx, nf)])
            want_st = np.nanargmin(want, axis=0)
            G, st = pd.get_GoRT_1D('T', T, G_units=units, P=1e-6)
            G2, st2 = pd.get_GoRT_2D('T', T, 'P', [1e-6], G_units=units)
            ok = np.shape(G) == want.shape and np.allclose(G, want, rtol=1e-12) and list(st) == list(want_st)
            same_2d = np.shape(G) == want.shape and np.allclose(G, G2[:, :, 0], rtol=1e-12) and \
                list(st) == [int(v) for v in st2[:, 0]]
            if not (ok and same_2d) or (nr, nx) in ((1, 6), (4, 1)):
                print('reactions=%d grid=%d units=%-6s stable 1D=%s 2D=%s expected=%s  %s' % (
                    nr, nx, units, [int(v) for v in st], [int(v) for v in st2[:, 0]], [int(v) for v in want_st],
                    'ok' if ok and same_2d else 'WRONG'))
            if not ok and nr == 3 and nx == 5 and units is None:
                print('   table 1D:\n%s\n   reactions\' own values / factor:\n%s' % (np.round(G, 3), np.round(want, 3)))
            bad += not (ok and same_2d)
sys.exit(1 if bad else 0)
