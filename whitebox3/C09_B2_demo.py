"""C09 / B2 (equivalence): internal-energy, enthalpy and Gibbs-energy of a BEP transition state and everything the
reactions derive from it, for both BEP classes, all eight descriptors, a grid of slopes / intercepts / temperatures /
pressures and three reaction classes.  Every value is compared BIT FOR BIT (==) with forward barrier + reactants
evaluated by hand through the public state getters of the reaction; the digest printed at the end is the same on the
original and on the refactored tree.  Exit 0 on both trees."""
import hashlib
import itertools
import sys
import numpy as np
from pmutt.statmech import StatMech, presets
from pmutt.empirical.nasa import Nasa
from pmutt.reaction import Reaction, ChemkinReaction
from pmutt.reaction.bep import BEP
from pmutt.omkm.reaction import BEP as OmkmBEP


def adsorbate(name, E, *wavenumbers):
    return StatMech(name=name, potentialenergy=E, vib_wavenumbers=list(wavenumbers), **presets['harmonic'])


def nasa(name, H, S, cp=3.5, phase='G'):
    a = np.array([cp, 1e-3, -2e-7, 0., 0., H, S])
    return Nasa(name=name, T_low=100., T_mid=1000., T_high=3000., a_low=a, a_high=a, phase=phase)


DESC = ('delta_H', 'rev_delta_H', 'reactants_H', 'products_H', 'delta_E', 'rev_delta_E', 'reactants_E', 'products_E')
out, bad = [], 0
for cls, desc in itertools.product((BEP, OmkmBEP), DESC):
    bep = cls(slope=0.5, intercept=10., name='bep', descriptor=desc)
    sm = {'A': adsorbate('A', -1.2, 450., 1200., 3100.), 'B': adsorbate('B', -0.4, 300., 900.),
          'C': adsorbate('C', -1.1, 250., 700., 1500., 2900.), 'bep': bep}
    ns = {'A': nasa('A', -1000., 20.), 'B': nasa('B', 500., 25., cp=4.), 'C': nasa('C', -2500., 22., cp=3.8), 'bep': bep}
    rxns = [Reaction.from_string('A + B = bep = 2C', sm), Reaction.from_string('2C = bep = A + B', sm)]
    if desc.endswith('_H'):       # empirical species carry no electronic energy
        rxns += [Reaction.from_string('A + B = bep = 2C', ns), ChemkinReaction.from_string('A + B = bep = 2C', ns)]
    for rxn, (slope, icpt), T, P in itertools.product(rxns, ((0., 0.), (0.3, 17.5), (1., 60.)), (300., 650.), (1., 20.)):
        bep.slope, bep.intercept = slope, icpt
        Ef = bep.get_EoRT_act(reaction=rxn, rev=False, T=T, P=P)
        U, H = bep.get_UoRT(reaction=rxn, T=T, P=P), bep.get_HoRT(reaction=rxn, T=T, P=P)
        wantU = Ef + rxn.get_UoRT_state(state='reactants', T=T, P=P)
        wantH = Ef + rxn.get_HoRT_state(state='reactants', T=T, P=P)
        bad += not (U == wantU) or not (H == wantH)
        vals = [U, H, bep.get_GoRT(reaction=rxn, T=T, P=P), bep.get_H(reaction=rxn, T=T, P=P, units='kJ/mol'),
                bep.get_U(reaction=rxn, T=T, P=P, units='eV')]
        for rev in (False, True):
            vals += [rxn.get_delta_HoRT(T=T, P=P, rev=rev, act=True), rxn.get_delta_UoRT(T=T, P=P, rev=rev, act=True),
                     rxn.get_delta_GoRT(T=T, P=P, rev=rev, act=True), rxn.get_H_act(units='kcal/mol', T=T, P=P, rev=rev),
                     rxn.get_G_act(units='eV', T=T, P=P, rev=rev), rxn.get_A(T=T, P=P, rev=rev)]
        out += vals
# positional and default arguments
bep = BEP(slope=0.4, intercept=20., name='bep', descriptor='delta_H')
rxn = Reaction.from_string('A + B = bep = 2C', {'A': adsorbate('A', -1.2, 450.), 'B': adsorbate('B', -0.4, 300.),
                                                'C': adsorbate('C', -1.1, 250.), 'bep': bep})
out += [bep.get_UoRT(rxn), bep.get_HoRT(rxn), bep.get_UoRT(rxn, 500.), bep.get_HoRT(rxn, 500.), bep.get_HoRT(rxn, T=500.)]
print('%d values, %d offsets differ bitwise from forward barrier + reactants' % (len(out), bad))
print('digest', hashlib.sha256(np.array(out, dtype=float).tobytes()).hexdigest())
sys.exit(1 if bad else 0)
