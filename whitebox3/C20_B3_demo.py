"""C20 B3 - equivalence demo: the real roots selected by zipping the roots with the np.isreal mask instead of calling np.isreal per root
Compares every getter of pmutt.eos (tree taken from PYTHONPATH) bit for bit AND by result type with the f5552c6
algorithms written out below, over gases x temperatures x pressures x amounts x spellings of the flag x number types.
Exit 0 when nothing differs (on the unchanged and on the refactored tree)."""
import itertools
import sys

import numpy as np

from pmutt import constants as c
from pmutt.eos import IdealGasEOS, vanDerWaalsEOS


class RefIdeal:
    def get_V(self, T, P, n):
        return n * c.R('m3 bar/mol/K') * T / P

    def get_P(self, T, V, n):
        return n * c.R('m3 bar/mol/K') * T / V

    def get_T(self, V, P, n):
        return P * V / c.R('m3 bar/mol/K') / n

    def get_n(self, V, P, T):
        return P * V / c.R('m3 bar/mol/K') / T


class RefVdW:
    def __init__(self, a, b):
        self.a = a
        self.b = b

    def get_Vm(self, T, P, gas_phase):
        P_SI = P * c.convert_unit(initial='bar', final='Pa')
        Vm = np.roots([P_SI, -(P_SI * self.b + c.R('J/mol/K') * T), self.a, -self.a * self.b])
        real_Vm = np.real([Vm_i for Vm_i in Vm if np.isreal(Vm_i)])
        if gas_phase:
            return np.max(real_Vm)
        else:
            return np.min(real_Vm)

    def get_V(self, T, P, n, gas_phase):
        return self.get_Vm(T=T, P=P, gas_phase=gas_phase) * n

    def get_P(self, T, V, n):
        Vm = V / n
        return (c.R('J/mol/K') * T / (Vm - self.b) - self.a * (1. / Vm)**2) * c.convert_unit(initial='Pa', final='bar')

    def get_T(self, V, P, n):
        Vm = V / n
        return (P * c.convert_unit(initial='bar', final='Pa') + self.a / Vm**2) * (Vm - self.b) / c.R('J/mol/K')

    def get_n(self, V, P, T, gas_phase):
        return V / self.get_Vm(T=T, P=P, gas_phase=gas_phase)

    def get_Pc(self):
        return self.a / 27. / self.b**2 * c.convert_unit(initial='Pa', final='bar')

    def get_Tc(self):
        return 8. * self.a / 27. / self.b / c.R('J/mol/K')

    def get_Vc(self, n):
        return 3. * n * self.b

    @classmethod
    def from_critical(cls, Tc, Pc):
        Pc_SI = Pc * c.convert_unit(initial='bar', final='Pa')
        a = 27. / 64. * (c.R('J/mol/K') * Tc)**2 / Pc_SI
        b = c.R('J/mol/K') * Tc / 8. / Pc_SI
        return cls(a=a, b=b)


def bits(x):
    return (type(x).__name__, np.float64(x).tobytes())


ndiff = ncmp = 0


def cmp(what, got, want):
    global ndiff, ncmp
    ncmp += 1
    if bits(got) != bits(want):
        ndiff += 1
        if ndiff <= 10:
            print('DIFFERENT %s: %r (%s) vs reference %r (%s)' % (what, got, type(got).__name__, want,
                                                                 type(want).__name__))


gases = [(0.364, 4.27e-5), (0.5537, 3.05e-5), (0.003, 1e-5), (3., 2e-4), (0.003461, 2.374e-5), (2.484, 1.744e-4),
         (0.137, 3.87e-5)]
Ts = [50., 100., 250., 303.7848, 500, np.float64(647.1), np.int64(1000), 3000.]
Ps = [1e-3, 0.1, 1, 30., np.float64(73.77), np.int64(200), 1000.]
ns = [1e-3, 1, 2., np.int64(5), np.float64(1000.)]
flags = [True, False, 1, 0, np.True_, np.False_]

ig, rig = IdealGasEOS(), RefIdeal()
for T, P, n in itertools.product(Ts, Ps, ns):
    V = rig.get_V(T, P, n)
    cmp('ideal get_V', ig.get_V(T=T, P=P, n=n), V)
    cmp('ideal get_P', ig.get_P(T=T, V=V, n=n), rig.get_P(T, V, n))
    cmp('ideal get_T', ig.get_T(V=V, P=P, n=n), rig.get_T(V, P, n))
    cmp('ideal get_n', ig.get_n(V=V, P=P, T=T), rig.get_n(V, P, T))
cmp('ideal defaults', ig.get_V(), rig.get_V(c.T0('K'), c.P0('bar'), 1.))
cmp('ideal positional', ig.get_P(300., 0.02, 2.), rig.get_P(300., 0.02, 2.))

for a, b in gases:
    e, r = vanDerWaalsEOS(a=a, b=b), RefVdW(a, b)
    e2 = vanDerWaalsEOS(a, b)                    # positional construction
    assert (e2.a, e2.b) == (a, b) and e == e2 and e.to_dict() == {'class': str(vanDerWaalsEOS), 'a': a, 'b': b}
    assert vanDerWaalsEOS.from_dict(e.to_dict()) == e and sorted(vars(e)) == ['a', 'b']
    cmp('Tc', e.get_Tc(), r.get_Tc())
    cmp('Pc', e.get_Pc(), r.get_Pc())
    for n in ns:
        cmp('Vc', e.get_Vc(n=n), r.get_Vc(n))
    f, rf = vanDerWaalsEOS.from_critical(Tc=r.get_Tc(), Pc=r.get_Pc()), RefVdW.from_critical(r.get_Tc(), r.get_Pc())
    cmp('from_critical a', f.a, rf.a)
    cmp('from_critical b', f.b, rf.b)
    assert type(f) is vanDerWaalsEOS
    for T, P in itertools.product(Ts, Ps):
        for g in flags:
            cmp('get_Vm', e.get_Vm(T=T, P=P, gas_phase=g), r.get_Vm(T, P, g))
            for n in ns:
                V = r.get_V(T, P, n, g)
                cmp('get_V', e.get_V(T=T, P=P, n=n, gas_phase=g), V)
                cmp('get_n', e.get_n(V=V, P=P, T=T, gas_phase=g), r.get_n(V, P, T, g))
                if g is True or g is False:
                    cmp('get_P', e.get_P(T=T, V=V, n=n), r.get_P(T, V, n))
                    cmp('get_T', e.get_T(V=V, P=P, n=n), r.get_T(V, P, n))
    cmp('defaults', e.get_V(), r.get_V(c.T0('K'), c.P0('bar'), 1., True))
    cmp('positional', e.get_V(300., 2., 3., False), r.get_V(300., 2., 3., False))
print('%d values compared, %d different' % (ncmp, ndiff))
sys.exit(1 if ndiff else 0)
