"""C07: three defects of the UNMODIFIED tree (f5552c6) the checker passes over.  Prints what happens; exits 1 when any
of them is present.  Run with PYTHONPATH=<tree>."""
import sys
import warnings
import numpy as np
import yaml
warnings.simplefilter('ignore')
from pmutt.empirical.nasa import Nasa
from pmutt.omkm.phase import IdealGas
from pmutt.omkm.units import Units
from pmutt.io.omkm import write_yaml, write_thermo_yaml

bad = 0
u = Units()
# D1: NumPy numbers for options that carry no unit
for kw in ({'T': np.float64(500.), 'nodes': np.int64(3)}, {'multi_T': np.array([500., 600.])}, {'atol': np.float64(1e-10)}):
    text = write_yaml(units=u, **kw)
    try:
        print('D1', sorted(kw), '->', yaml.safe_load(text))
    except yaml.YAMLError as e:
        bad += 1
        print('D1', sorted(kw), '-> the reactor file does not load:', str(e).splitlines()[0][:110])
# D2: the caller's section dictionary is written into; the next file repeats the first value
r = {'custom': 1}
a = yaml.safe_load(write_yaml(reactor=r, V=1.0, units=u))
b = yaml.safe_load(write_yaml(reactor=r, V=2.0, units=u))
print('D2 first file', a, '| second file (V=2.0 asked)', b, '| reactor dict now', r)
bad += b['reactor']['volume'] != '2.0 cm3'
# D3: quote stripping: a species called NO (nitric oxide) reads back as a boolean with a YAML 1.1 loader
x = np.array([3.5, 1e-3, 0., 0., 0., -100., 4.0])
sp = [Nasa(name=n, T_low=200., T_mid=1000., T_high=3000., a_low=x, a_high=x.copy(), elements=e)
      for n, e in (('NO', {'N': 1, 'O': 1}), ('N2', {'N': 2}))]
t = write_thermo_yaml(phases=[IdealGas(name='gas', species=sp)], species=sp)
docs = [d for d in yaml.safe_load_all(t.replace('\n\n-', '\n-')) if d]
names = [s['name'] for d in docs if 'species' in d for s in d['species']]
print('D3 species names read back:', names)
bad += names != ['NO', 'N2']
sys.exit(1 if bad else 0)
