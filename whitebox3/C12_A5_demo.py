"""C12_A5 (finite witnesses once more - a variation of round-2 A1, listed because the remedy of round 2 leaves it
open): in an array argument, entries between -1e-12 and 1e-12 are taken for round-off noise and converted to exactly 0.
Molecular energies in J (kB T = 4.1e-21 J, a vibrational quantum 2e-20 J) are such numbers.
Property: conversions are proportional maps of their argument for "arbitrary numeric arguments"; invertibility
(J -> eV -> J of [4.1e-21, 2e-20] is [0, 0]).
Takes the tree from PYTHONPATH; exit 1 and WRONG lines with the change, exit 0 on the original tree."""
import sys
import numpy as np
import pmutt.constants as c

bad = 0
E = np.array([4.11e-21, 2.0e-20, 1.0])
got = c.convert_unit(E, 'J', 'eV')
want = E * 6.2415090744607553e+18
ok = np.allclose(got, want, rtol=1e-12, atol=0.)
print('%s convert_unit(%r, J, eV) = %r (right %r)' % ('right' if ok else 'WRONG', E.tolist(), got.tolist(), want.tolist()))
bad += not ok
back = c.convert_unit(c.convert_unit(E, 'J', 'eV'), 'eV', 'J')
ok = np.allclose(back, E, rtol=1e-12, atol=0.)
print('%s J -> eV -> J of %r = %r' % ('right' if ok else 'WRONG', E.tolist(), back.tolist()))
bad += not ok
m = np.array([9.109e-31, 1.673e-27])
got = c.convert_unit(m, 'kg', 'amu')
ok = np.allclose(got, m * 6.022e+26, rtol=1e-12, atol=0.)
print('%s convert_unit(%r, kg, amu) = %r (right %r)' % ('right' if ok else 'WRONG', m.tolist(), got.tolist(), (m * 6.022e+26).tolist()))
bad += not ok
# the same numbers one by one are right in both trees
assert c.convert_unit(4.11e-21, 'J', 'eV') == 4.11e-21 * 6.2415090744607553e+18
print('%d wrong' % bad)
sys.exit(1 if bad else 0)
