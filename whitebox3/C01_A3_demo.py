"""C01_A3: with ``imaginary_substitute`` given, EVERY imaginary mode counts as a mode of the substitute wavenumber
(documented behaviour; "harmonic vibrations with imaginary modes dropped or substituted"), whatever its magnitude.
Each getter must be the textbook harmonic-oscillator / quasi-RRHO sum over the modes that count."""
import sys
import numpy as np
from pmutt import constants as c
from pmutt.statmech.vib import HarmonicVib, QRRHOVib
from pmutt.statmech import StatMech
from pmutt.statmech.elec import GroundStateElec

bad = 0
def check(ok, msg):
    global bad
    if not ok:
        bad += 1
        print('WRONG:', msg)

def ho(wavenumbers, T):
    x = np.array([c.h('J s') * c.c('cm/s') * w / c.kb('J/K') for w in wavenumbers]) / T
    e = np.exp(-x)
    return {'UoRT': np.sum(x / 2. + x * e / (1. - e)), 'SoR': np.sum(x * e / (1. - e) - np.log(1. - e)),
            'CvoR': np.sum(x**2 * e / (1. - e)**2), 'q': np.prod(np.exp(-x / 2.) / (1. - e))}

SUB = 50.
cases = {'transition state, reaction coordinate 650i': [2900., 1200., 450., 300., 80., -650.],
         'two imaginary modes, 30i and 500i': [-500., 1000., 2000., -30.],
         'soft imaginary mode only (30i)': [1500., 700., -30.]}
for label, given in cases.items():
    count = [w if w > 0. else SUB for w in given]
    for T in (100., 298.15, 1000.):
        want = ho(count, T)
        hv = HarmonicVib(given, imaginary_substitute=SUB)
        for q in ('UoRT', 'SoR', 'CvoR', 'q'):
            got = getattr(hv, 'get_' + q)(T=T)
            check(abs(got - want[q]) < 1e-9 * max(1., abs(want[q])),
                  'HarmonicVib(%s, substitute=50) T=%g: %s = %.6f, textbook sum over %s = %.6f'
                  % (label, T, q, got, count, want[q]))
    # the number of modes that count
    hv = HarmonicVib(given, imaginary_substitute=SUB)
    zpe_want = 0.5 * c.kb('eV/K') * sum(c.wavenumber_to_temp(w) for w in count)
    check(abs(hv.get_ZPE() - zpe_want) < 1e-12, '%s: ZPE %.6f eV, expected %.6f eV' % (label, hv.get_ZPE(), zpe_want))
    # quasi-RRHO shares the filter: S(substitute) - S(no substitute) is the entropy of the substituted modes
    n_imag = sum(1 for w in given if w < 0.)
    one = QRRHOVib([SUB]).get_SoR(T=298.15)
    dS = QRRHOVib(given, imaginary_substitute=SUB).get_SoR(T=298.15) - QRRHOVib(given).get_SoR(T=298.15)
    check(abs(dS - n_imag * one) < 1e-9, 'QRRHOVib(%s): S(substitute) - S(dropped) = %.6f, expected %d x %.6f'
          % (label, dS, n_imag, one))
# through a species
sp = StatMech(name='TS', vib_model=HarmonicVib(cases['transition state, reaction coordinate 650i'], imaginary_substitute=SUB),
              elec_model=GroundStateElec(-30.5, 0.))
want = ho([2900., 1200., 450., 300., 80., SUB], 500.)['SoR']
check(abs(sp.get_SoR(T=500.) - want) < 1e-9, 'species S/R(500 K) = %.6f, expected %.6f' % (sp.get_SoR(T=500.), want))
print('%d wrong' % bad)
sys.exit(1 if bad else 0)
