"""C02_B2: the conversion T = float(np.squeeze(T)) of get_nasa9_HoRT / get_nasa9_SoR hoisted into a decorator.
Equivalence: 2562 results - every getter of Nasa, Nasa9, SingleNasa9, Shomate and the module-level evaluators on scalars of every
number type, 0-d / 1-element / long / empty / masked / object / 2-D arrays, lists, tuples, ranges, temperatures on, next to and outside
the bounds, segments listed descending / with a gap / re-assigned bounds, to_dict / from_dict of the segments, refusals (type and
text) and warning texts - are hashed bit for bit and compared with the digest recorded on the unchanged tree f5552c6.
exit 0 on the unchanged tree and on the refactored tree (exit 1 if any result differs).  Takes pmutt from PYTHONPATH."""
import hashlib
import sys
import warnings
import numpy as np
from pmutt.empirical.nasa import (Nasa, Nasa9, SingleNasa9, get_nasa_CpoR, get_nasa_HoRT, get_nasa_SoR,
                                  get_nasa9_CpoR, get_nasa9_HoRT, get_nasa9_SoR)
from pmutt.empirical.shomate import (Shomate, get_shomate_CpoR, get_shomate_HoRT, get_shomate_SoR, get_shomate_GoRT)

EXPECTED = '3b1ca2533fd314ff9ec627a418761275043c66ca8dcfdd5a3224af3e90545b1e'      # digest recorded on the unchanged tree (f5552c6)

h = hashlib.sha256()
n_items = [0]


def rec(tag, v):
    """type, shape and exact bits of a result (or the exception it raised)"""
    n_items[0] += 1
    h.update(tag.encode())
    if isinstance(v, BaseException):
        h.update(('EXC:' + type(v).__name__ + ':' + str(v)).encode())
        return
    h.update(type(v).__name__.encode())
    arr = np.asarray(v)
    h.update(str(arr.dtype).encode() + str(arr.shape).encode())
    h.update(np.ascontiguousarray(arr).tobytes())


def call(tag, f, *a, **k):
    with warnings.catch_warnings(record=True) as w:
        warnings.simplefilter('always')
        try:
            v = f(*a, **k)
        except Exception as e:        # refusals are part of the behaviour
            v = e
    rec(tag, v)
    for x in w:
        if issubclass(x.category, (RuntimeWarning, UserWarning)):
            h.update(('W:' + x.category.__name__ + ':' + str(x.message)).encode())


rng = np.random.RandomState(20260928)
# ---- NASA-7 ---------------------------------------------------------------------------------------------------
sets7 = [(np.array([4.19864056E+00, -2.03643410E-03, 6.52040211E-06, -5.48797062E-09, 1.77197817E-12,
                    -3.02937267E+04, -8.49032208E-01]),
          np.array([3.03399249E+00, 2.17691804E-03, -1.64072518E-07, -9.70419870E-11, 1.68200992E-14,
                    -3.00042971E+04, 4.96677010E+00]))]
for _ in range(4):
    sets7.append((rng.randn(7) * [3, 1e-3, 1e-6, 1e-9, 1e-12, 1e4, 5], rng.randn(7) * [3, 1e-3, 1e-6, 1e-9, 1e-12, 1e4, 5]))
scalars = [200., 200.0000001, 298.15, 300, 999.9999999, np.nextafter(1000., 0.), 1000., 1000, np.nextafter(1000., 2000.),
           1000.0000001, np.float64(1500.), np.int64(2000), np.float32(2500.), 3500., np.array(650.), 150., 3600.]
arrays = [np.array([300., 1000., 2000.]), np.array([1000.]), np.arange(300, 3500, 400), [250., 999., 1000., 1001.],
          (400, 1000, 3000), np.linspace(200., 3500., 41), np.array([3000., 1000., 200.]), [1000],
          np.array([150., 500., 3600.]), np.array([700., 700., 1000., 1000.])]
for k, (lo, hi) in enumerate(sets7):
    sp = Nasa(name='s%d' % k, T_low=200., T_mid=1000., T_high=3500., a_low=lo, a_high=hi, elements={'H': 2, 'O': 1})
    for q in ('get_CpoR', 'get_HoRT', 'get_SoR', 'get_GoRT'):
        for T in scalars + arrays:
            call('N7%d%s' % (k, q), getattr(sp, q), T=T)
        call('N7%d%sSel' % (k, q), getattr(sp, q), T=arrays[0], **({'S_elements': True} if q in ('get_SoR', 'get_GoRT') else {}))
    for T in scalars:
        call('N7a', sp.get_a, T=T)
    for u in ('J/mol/K', 'cal/mol/K'):
        call('N7Cp', sp.get_Cp, T=arrays[0], units=u)
        call('N7S', sp.get_S, T=arrays[2], units=u)
    call('N7H', sp.get_H, T=arrays[0], units='kJ/mol')
    call('N7G', sp.get_G, T=np.array([300., 1000., 2000.]), units='kJ/mol')
    for T in (300., 300, np.float64(1000.), np.int64(1500)):
        call('f7', get_nasa_CpoR, a=lo, T=T), call('f7', get_nasa_HoRT, a=lo, T=T), call('f7', get_nasa_SoR, a=hi, T=T)
spl = Nasa(name='tl', T_low=200., T_mid=[1000.], T_high=3500., a_low=sets7[0][0], a_high=sets7[0][1])
call('N7list', spl.get_CpoR, T=1000.)
rec('N7list_Tmid', np.asarray(spl.T_mid))
# ---- NASA-9 ---------------------------------------------------------------------------------------------------
scale9 = np.array([1e4, 1e2, 3, 1e-3, 1e-6, 1e-9, 1e-13, 1e4, 10])
co2 = [np.array([4.943650540E+04, -6.264116010E+02, 5.301725240E+00, 2.503813816E-03, -2.127308728E-07,
                 -7.689988780E-10, 2.849677801E-13, -4.528198460E+04, -7.048279440E+00]),
       np.array([1.176962419E+05, -1.788791477E+03, 8.291523190E+00, -9.223156780E-05, 4.863676880E-09,
                 -1.891053312E-12, 6.330036590E-16, -3.908350590E+04, -2.652669281E+01]),
       np.array([-1.544423287E+09, 1.016847056E+06, -2.561405230E+02, 3.369401080E-02, -2.181184337E-06,
                 6.991420840E-11, -8.842351500E-16, -8.043214510E+06, 2.254177493E+03])]
layouts = [[(200., 1000.), (1000., 6000.), (6000., 20000.)], [(200., 1000.), (1000., 6000.)], [(50., 6000.)],
           [(1000., 6000.), (200., 1000.)], [(200., 800.), (1000., 6000.)], [(50., 400.), (400., 1000.), (1000., 3000.), (3000., 6000.)]]
scal9 = [200., 200, 300, 300., 799.5, 900., 1000., 1000, np.nextafter(1000., 0.), np.nextafter(1000., 2000.), 1000.004,
         np.float64(2500.), np.int64(3000), 6000., 6000.0001, 150., 25000., np.array(450.), np.array([450.]), [450]]
arr9 = [np.array([300., 1000., 2000.]), np.arange(300, 1000, 100), [250., 999., 1000., 1001.], np.array([3000., 500.]),
        np.array([1000.]), [700], (400., 5000.), np.array([300., 150.]), np.array([500., 500., 1000.004, 1000.])]
for k, lay in enumerate(layouts):
    coeffs = [co2[i] if k == 0 else rng.randn(9) * scale9 for i in range(len(lay))]
    segs = [SingleNasa9(T_low=b[0], T_high=b[1], a=a) for b, a in zip(lay, coeffs)]
    sp = Nasa9(name='n%d' % k, nasas=segs, elements={'C': 1, 'O': 2})
    rec('N9copy', np.array([sp.nasas is segs, sp.nasas == segs, len(sp), sp[0] is segs[0]]))
    segs_after = list(segs)
    for q in ('get_CpoR', 'get_HoRT', 'get_SoR', 'get_GoRT'):
        for T in scal9 + arr9:
            call('N9%d%s' % (k, q), getattr(sp, q), T=T)
    call('N9S', sp.get_SoR, T=arr9[0], S_elements=True)
    call('N9G', sp.get_G, T=np.array([300., 900.]), units='kJ/mol')
    call('N9Tl', lambda: sp.T_low), call('N9Th', lambda: sp.T_high)
    for s_ in segs:
        for T in (s_.T_low, 0.5 * (s_.T_low + s_.T_high), int(s_.T_high), np.array([s_.T_low + 1.]), [s_.T_high],
                  np.array([s_.T_low, s_.T_high]), np.arange(int(s_.T_low), int(s_.T_high), 97)):
            call('S9c', s_.get_CpoR, T=T), call('S9h', s_.get_HoRT, T=T), call('S9s', s_.get_SoR, T=T)
    a = coeffs[0]
    for T in (300., 300, np.float64(300.), np.int64(300), np.array(300.), np.array(300), np.array([300.]), np.array([300]),
              [300.], [300], np.float32(300.), np.array([[300.]]), np.array([300., 400.]), True, 1e-3, 5999.999999):
        call('f9c', get_nasa9_CpoR, a=a, T=T), call('f9h', get_nasa9_HoRT, a=a, T=T), call('f9s', get_nasa9_SoR, a=a, T=T)
    call('f9h_list_a', get_nasa9_HoRT, a=list(a), T=450.), call('f9s_list_a', get_nasa9_SoR, a=list(a), T=np.float64(450.))
    # replacing the segments of an existing species
    sp.nasas = list(reversed(segs))
    call('N9rev', sp.get_HoRT, T=np.array([lay[0][0] + 1., lay[-1][1] - 1.]))
    segs.append('x')
    rec('N9len', np.array([len(sp)]))
# ---- Shomate --------------------------------------------------------------------------------------------------
a_sh = np.array([30.09200, 6.832514, 6.793435, -2.534480, 0.082139, -250.8810, 223.3967, -241.8264])
from pmutt import constants as c
for units in ('J/mol/K', 'cal/mol/K', 'kJ/mol/K', 'eV/K'):
    a_u = a_sh * c.R(units) / c.R('J/mol/K')
    for a_ in (a_u, list(a_u)):
        sp = Shomate(name='H2O', T_low=500., T_high=1700., a=a_, units=units, elements={'H': 2, 'O': 1})
        for q in ('get_CpoR', 'get_HoRT', 'get_SoR', 'get_GoRT'):
            for T in (500., 500, 1000., np.float64(1700.), np.array([600., 1700.]), [700], np.arange(500, 1700, 300),
                      (500., 800.), 400., np.array([1800., 900.])):
                call('SH' + q, getattr(sp, q), T=T)
    for f in (get_shomate_CpoR, get_shomate_HoRT, get_shomate_SoR, get_shomate_GoRT):
        call('fsh', f, a=a_u, T=np.array([500., 1100.]), units=units), call('fsh', f, a=a_u, T=np.arange(500, 900, 100), units=units)


# ---- additions of round 3 ---------------------------------------------------------------------------------------
import copy as _copy
seg = SingleNasa9(T_low=200., T_high=1000., a=co2[0])
rec('S9attr', np.array([seg.T_low, seg.T_high]))
rec('S9dict', np.frombuffer(repr(sorted((k_, repr(v_)) for k_, v_ in seg.to_dict().items())).encode(), dtype=np.uint8))
seg2 = _copy.deepcopy(seg)
seg2.T_high = 1200.
seg2.T_low = 150
rec('S9set', np.array([seg.T_low, seg.T_high, seg2.T_low, seg2.T_high]))
sp = Nasa9(name='moved', nasas=[seg2, SingleNasa9(T_low=1200., T_high=6000., a=co2[1])])
for q in ('get_CpoR', 'get_HoRT', 'get_SoR', 'get_GoRT'):
    for T in (150, 1100., 1200., np.array([175., 1199., 1201.]), 149.9):
        call('N9moved' + q, getattr(sp, q), T=T)
rec('N9dict', np.frombuffer(repr(sorted((k_, repr(v_)) for k_, v_ in sp.to_dict().items())).encode(), dtype=np.uint8))
rec('S9from', np.array([SingleNasa9.from_dict(seg2.to_dict()).T_low, SingleNasa9.from_dict(seg2.to_dict()).T_high]))
# containers of every kind for the array branches of NASA-7 / NASA-9
sp7 = Nasa(name='c', T_low=200., T_mid=1000., T_high=3500., a_low=sets7[0][0], a_high=sets7[0][1])
sp9 = Nasa9(name='c9', nasas=[SingleNasa9(T_low=200., T_high=1000., a=co2[0]), SingleNasa9(T_low=1000., T_high=6000., a=co2[1])])
conts = [[300, 1200], (300., 1200), np.array([300, 1200], dtype=np.int32), np.array([300., 1200.], dtype=np.float32),
         np.ma.masked_array([300., 1200.], mask=[False, False]), np.array([[300., 1200.]]), [], np.array([]), range(300, 1500, 400),
         np.array([300, 1200], dtype=object), [np.float64(300.), 1200], np.array([True, False])]
for T in conts:
    for q in ('get_CpoR', 'get_HoRT', 'get_SoR', 'get_GoRT'):
        call('cont7' + q, getattr(sp7, q), T=T)
        call('cont9' + q, getattr(sp9, q), T=T)
# module-level Shomate evaluators with a list (refused by the division) and integer arrays
for f in (get_shomate_CpoR, get_shomate_HoRT, get_shomate_SoR, get_shomate_GoRT):
    call('fshl', f, a=a_sh, T=[500., 1100.], units='J/mol/K')
    call('fshi', f, a=list(a_sh), T=np.array([500, 1100]), units='J/mol/K')
    call('fsh1', f, a=a_sh, T=np.array([750.]), units='cal/mol/K')
    Tkeep = np.array([600., 900.])
    call('fshk', f, a=a_sh, T=Tkeep, units='J/mol/K')
    rec('fshkeep', Tkeep)

digest = h.hexdigest()
print('%d results, digest %s' % (n_items[0], digest))
if EXPECTED.startswith('@@'):
    sys.exit(0)
if digest != EXPECTED:
    print('DIFFERENT from the unchanged tree (expected %s)' % EXPECTED)
    sys.exit(1)
print('identical to the unchanged tree (types, shapes, bits, refusals and warning texts)')
