"""C20 A5 - get_Tc / get_Pc keep their first result on the object; the documented public attributes a and b can be
re-assigned (a fitted parameter, a corrected value), after which the critical constants are those of the old gas.
Tree is taken from PYTHONPATH.  Exit 1 / WRONG with the change, exit 0 without."""
import sys

from pmutt import constants as c
from pmutt.eos import vanDerWaalsEOS

R = c.R('J/mol/K')
bad = 0
eos = vanDerWaalsEOS(a=0.364, b=4.27e-5)                # CO2
print('CO2: Tc=%.6g K Pc=%.6g bar' % (eos.get_Tc(), eos.get_Pc()))
for name, a, b in (('H2O', 0.5537, 3.05e-5), ('N2', 0.137, 3.87e-5), ('n-hexane', 2.484, 1.744e-4)):
    eos.a = a
    eos.b = b
    Tc, Pc, Vc = eos.get_Tc(), eos.get_Pc(), eos.get_Vc(n=2.)
    wTc, wPc = 8. * a / (27. * b * R), a / (27. * b**2) * 1e-5
    # the critical point must be the stationary inflection point of the isotherm of THIS gas: P(Tc, Vc) = Pc
    Pat = eos.get_P(T=Tc, V=Vc, n=2.)
    ok = abs(Tc / wTc - 1.) < 1e-12 and abs(Pc / wPc - 1.) < 1e-12 and abs(Pat / Pc - 1.) < 1e-9
    bad += not ok
    print('%s %s a=%g b=%g: get_Tc=%.6g (8a/27bR = %.6g) get_Pc=%.6g (a/27b^2 = %.6g) get_P(Tc, Vc)=%.6g'
          % ('right' if ok else 'WRONG', name, a, b, Tc, wTc, Pc, wPc, Pat))
# the same through a rebuilt object is right in both trees
w = vanDerWaalsEOS.from_critical(Tc=647.1, Pc=220.64)
ok = abs(w.get_Tc() / 647.1 - 1.) < 1e-12 and abs(w.get_Pc() / 220.64 - 1.) < 1e-12
bad += not ok
print('%d wrong' % bad)
sys.exit(1 if bad else 0)
