"""C17_A3: np.any(<generator>) is always true, so an insert above all breakpoints takes np.argmax of an all-False
array (= 0) and lands in front of the first breakpoint.  exit 1 + WRONG with the change, exit 0 without."""
import sys
from pmutt.mixture.cov import PiecewiseCovEffect

R = 1.9872036e-3
T = 500.
bad = []


def U(m, x):
    return m.get_UoRT(x=x, T=T) * R * T


m = PiecewiseCovEffect('A', 'B', [0., 0.25], [1., 3.])
m.insert(0.1, 2.)                       # between: fine
print('insert(0.1, 2.)  ->', m.intervals, m.slopes)
if m.intervals != [0., 0.1, 0.25] or m.slopes != [1., 2., 3.]:
    bad.append('WRONG: insert between gives %r / %r' % (m.intervals, m.slopes))
m.insert(0.75, 5.)                      # above all existing breakpoints
print('insert(0.75, 5.) ->', m.intervals, m.slopes)
if m.intervals != [0., 0.1, 0.25, 0.75] or m.slopes != [1., 2., 3., 5.]:
    bad.append('WRONG: insert above all breakpoints gives intervals %r slopes %r (right [0, 0.1, 0.25, 0.75] / '
               '[1, 2, 3, 5])' % (m.intervals, m.slopes))
right = {0.05: 0.05, 0.2: 0.3, 0.5: 1.15, 0.9: 2.65, 1.0: 3.15}
for x, want in right.items():
    got = U(m, x)
    print('U(%g) = %.6f (right %.6f)' % (x, got, want))
    if abs(got - want) > 1e-9:
        bad.append('WRONG: U(%g) = %.6f, right %.6f' % (x, got, want))
# a model of one breakpoint extended by insert at coverage 1
m1 = PiecewiseCovEffect('A', 'B', [0.], [2.])
m1.insert(1., 4.)
if m1.intervals != [0., 1.]:
    bad.append('WRONG: [0] + insert(1., 4.) gives intervals %r' % (m1.intervals,))
for b in bad:
    print(b)
print('FAIL' if bad else 'OK')
sys.exit(1 if bad else 0)
