"""C08 A3: equilibrium constants of reactions whose species carry electronic-structure energies.

(1) Two adsorbate conformers A(S) = [TS(S)] = B(S), harmonic StatMech models with DFT-sized electronic energies
    (-300 eV, i.e. G/RT of about -1.2e4 at 300 K - the magnitude the checker's own concrete reaction N1 has);
(2) H2 + 0.5 O2 = [H2O_TS] = H2O of the test-suite (energies of -6 ... -14 eV) at 150 K.
K must equal exp(-delta G/RT) for the four (rev, act) combinations and K_forward * K_reverse must be 1.
"""
import sys
import warnings
import numpy as np
from ase.build import molecule
from pmutt.statmech import StatMech, presets
from pmutt.reaction import Reaction, ChemkinReaction
from pmutt.omkm.reaction import SurfaceReaction

warnings.filterwarnings('ignore')
vib = [3000., 1500., 1200., 800., 400.]
A = StatMech(name='A(S)', potentialenergy=-300.000, vib_wavenumbers=vib, **presets['harmonic'])
B = StatMech(name='B(S)', potentialenergy=-300.002, vib_wavenumbers=vib, **presets['harmonic'])
TS = StatMech(name='TS(S)', potentialenergy=-299.600, vib_wavenumbers=vib[:-1], **presets['harmonic'])
ig = presets['idealgas']
H2O = StatMech(name='H2O', atoms=molecule('H2O'), symmetrynumber=2, vib_wavenumbers=[3825.434, 3710.2642, 1582.432],
               potentialenergy=-6.7598, spin=0., **ig)
H2 = StatMech(name='H2', atoms=molecule('H2'), symmetrynumber=2, vib_wavenumbers=[4306.1793],
              potentialenergy=-14.2209, spin=0., **ig)
O2 = StatMech(name='O2', atoms=molecule('O2'), symmetrynumber=2, vib_wavenumbers=[2205.], potentialenergy=-9.862407,
              spin=1., **ig)
H2O_TS = StatMech(name='H2O_TS', atoms=molecule('H2O'), symmetrynumber=1., vib_wavenumbers=[4000., 3900., 1600.],
                  potentialenergy=-14.0, spin=0., **ig)
for sp in (A, B, TS, H2O, H2, O2, H2O_TS):
    sp.phase = 'S' if sp.name.endswith('(S)') else 'G'
    sp.cat_site = None

bad = 0
cases = (('A(S) = [TS(S)] = B(S), 300 K', dict(reactants=[A], reactants_stoich=[1.], products=[B],
                                               products_stoich=[1.], transition_state=[TS],
                                               transition_state_stoich=[1.]), {'T': 300.}),
         ('H2 + 0.5 O2 = [H2O_TS] = H2O, 150 K', dict(reactants=[H2, O2], reactants_stoich=[1., 0.5], products=[H2O],
                                                      products_stoich=[1.], transition_state=[H2O_TS],
                                                      transition_state_stoich=[1.]), {'T': 150., 'P': 1.}))
for text, sides, kw in cases:
    for cls in (Reaction, ChemkinReaction, SurfaceReaction):
        rxn = cls(**sides)

        def G(which):
            return sum(nu * sp.get_GoRT(**kw) for sp, nu in zip(getattr(rxn, which), getattr(rxn, which + '_stoich')))
        for rev, act in ((False, False), (True, False), (False, True), (True, True)):
            ini = 'products' if rev else 'reactants'
            fin = 'transition_state' if act else ('reactants' if rev else 'products')
            dG = G(fin) - G(ini)
            if abs(dG) > 600.:
                continue        # exp(-dG) itself is outside the range of a double
            K = rxn.get_Keq(rev=rev, act=act, **kw)
            if not np.isclose(K, np.exp(-dG), rtol=1e-6):
                bad += 1
                print('WRONG %s, %s: get_Keq(rev=%s, act=%s) = %r, exp(-delta G/RT) = %.8g (delta G/RT = %.6f, '
                      'G/RT of the two states %.1f and %.1f)' % (cls.__name__, text, rev, act, K, np.exp(-dG), dG,
                                                                 G(ini), G(fin)))
        dG = G('products') - G('reactants')
        if abs(dG) < 600.:
            KK = rxn.get_Keq(**kw) * rxn.get_Keq(rev=True, **kw)
            if not np.isclose(KK, 1., rtol=1e-6):
                bad += 1
                print('WRONG %s, %s: K_forward * K_reverse = %r, not 1' % (cls.__name__, text, KK))
print('violations: %d' % bad)
sys.exit(1 if bad else 0)
