"""C04_B2: _ModelBase gets the class attribute ``elements = None`` and its seven dimensional getters read
``self.elements`` instead of ``getattr(self, 'elements', None)`` / try-except.  Equivalence: every getter of every
model class returns bit-identical numbers in every unit, per-mass units are refused with the same exception type and
text for objects without a composition and work for objects with one, dictionaries written by to_dict are the same.
The digest below was recorded on the pristine tree (f5552c6).  Run with PYTHONPATH=<tree>; exit 0 on both trees."""
import hashlib
import sys
import warnings
import numpy as np
warnings.simplefilter('ignore')
from pmutt import constants as c
from pmutt.empirical import GasPressureAdj
from pmutt.empirical.nasa import Nasa, SingleNasa9
from pmutt.mixture.cov import PiecewiseCovEffect
from pmutt.reaction import Reaction
from pmutt.reaction.bep import BEP
from pmutt.statmech import StatMech, EmptyMode, ConstantMode, presets, trans, vib, rot, elec, nucl
from pmutt.statmech.lsr import LSR

EXPECTED = 'e49297d082b23866'
out = []


def rec(label, fn):
    try:
        v = fn()
        out.append('%s %s %s' % (label, type(v).__name__, np.asarray(v, dtype=float).tobytes().hex()))
    except Exception as e:      # noqa
        out.append('%s raises %s %r' % (label, type(e).__name__, e.args))


modes = {
    'FreeTrans': (trans.FreeTrans(n_degrees=3, molecular_weight=18.015), {'P': 2.}),
    'HarmonicVib': (vib.HarmonicVib(vib_wavenumbers=[3825.434, 3710.2642, 1582.432]), {}),
    'QRRHOVib': (vib.QRRHOVib(vib_wavenumbers=[3825.434, 3710.2642, 1582.432, 80.]), {}),
    'EinsteinVib': (vib.EinsteinVib(einstein_temperature=320., interaction_energy=-0.2), {}),
    'DebyeVib': (vib.DebyeVib(debye_temperature=400., interaction_energy=-0.1), {}),
    'RigidRotor': (rot.RigidRotor(symmetrynumber=2, rot_temperatures=[39.4, 20.9, 13.6], geometry='nonlinear'), {}),
    'GroundStateElec': (elec.GroundStateElec(potentialenergy=-14.22, spin=0.), {}),
    'EmptyNucl': (nucl.EmptyNucl(), {}),
    'EmptyMode': (EmptyMode(), {}),
    'ConstantMode': (ConstantMode(U=-1.5, H=-1.4, F=-2., G=-1.9, S=1e-3, Cv=2e-4, Cp=3e-4), {}),
    'GasPressureAdj': (GasPressureAdj(), {'P': 5.}),
    'PiecewiseCovEffect': (PiecewiseCovEffect(name_i='CO', name_j='O', intervals=[0., 0.3, 1.], slopes=[-10., -40.]), {'x': 0.45}),
    'SingleNasa9': (SingleNasa9(T_low=200., T_high=1000., a=[-3.9e4, 5.7e2, 0.93, 7.2e-3, -7.3e-6, 4.9e-9, -1.3e-12, -3.3e4, 17.2]), {}),
    'BEP without elements': (BEP(slope=0.5, intercept=20., descriptor='delta_H'), None),
    'BEP with elements': (BEP(slope=0.5, intercept=20., descriptor='delta_H', elements={'H': 2, 'O': 1}), None),
}
h2 = StatMech(name='H2', potentialenergy=-6.77, **presets['electronic'])
o2 = StatMech(name='O2', potentialenergy=-9.86, **presets['electronic'])
h2o = StatMech(name='H2O', potentialenergy=-14.22, **presets['electronic'])
rxn = Reaction(reactants=[h2, o2], reactants_stoich=[1., 0.5], products=[h2o], products_stoich=[1.])
UNITS = ('J/mol/K', 'kJ/mol/K', 'cal/mol/K', 'eV/K', 'Ha/K', 'L atm/mol/K', 'J/g/K', 'kJ/kg/K', 'bogus/K')
for name, (m, extra) in sorted(modes.items()):
    kw = {'reaction': rxn} if extra is None else extra
    out.append('%s hasdict %r' % (name, sorted(vars(m))))
    for T in (298.15, 650.):
        for u in UNITS:
            for q in ('Cv', 'Cp', 'S'):
                rec('%s.get_%s(%s,%g)' % (name, q, u, T), lambda: getattr(m, 'get_' + q)(units=u, T=T, **kw))
            for q in ('U', 'H', 'F', 'G'):
                rec('%s.get_%s(%s,%g)' % (name, q, u[:-2], T), lambda: getattr(m, 'get_' + q)(units=u[:-2], T=T, **kw))
    for q in ('U', 'H', 'F', 'G'):       # default temperature
        rec('%s.get_%s default T' % (name, q), lambda: getattr(m, 'get_' + q)(units='kJ/mol', **kw))
    try:
        out.append('%s to_dict %r' % (name, sorted(m.to_dict().items(), key=lambda kv: kv[0])))
    except Exception as e:      # noqa
        out.append('%s to_dict raises %s' % (name, type(e).__name__))
# an LSR standing in for the electronic mode of an adsorbate (its getters call the reaction's)
lsr = LSR(slope=0.5, intercept=2., reaction=-10., surf_species=-3., gas_species=-1.)
for u in ('kJ/mol', 'eV', 'kJ/kg'):
    for q in ('U', 'H', 'F', 'G'):
        rec('LSR.get_%s(%s)' % (q, u), lambda: getattr(lsr, 'get_' + q)(units=u, T=400.))
# species that carry a composition are untouched
n = Nasa(name='H2O', elements={'H': 2, 'O': 1}, phase='G', T_low=200., T_mid=1000., T_high=3500.,
         a_low=[4.19864056E+00, -2.03643410E-03, 6.52040211E-06, -5.48797062E-09, 1.77197817E-12, -3.02937267E+04, -8.49032208E-01],
         a_high=[3.03399249E+00, 2.17691804E-03, -1.64072518E-07, -9.70419870E-11, 1.68200992E-14, -3.00042971E+04, 4.96677010E+00])
n0 = Nasa(name='X', T_low=200., T_mid=1000., T_high=3500., a_low=n.a_low, a_high=n.a_high)
for sp in (n, n0):
    for u in ('J/mol/K', 'J/g/K'):
        rec('Nasa[%s].get_Cv(%s)' % (sp.name, u), lambda: sp.get_Cv(units=u, T=500.))
        rec('Nasa[%s].get_Cp(%s)' % (sp.name, u), lambda: sp.get_Cp(units=u, T=500.))
        rec('Nasa[%s].get_F(%s)' % (sp.name, u[:-2]), lambda: sp.get_F(units=u[:-2], T=500.))
digest = hashlib.sha256('\n'.join(out).encode()).hexdigest()[:16]
print('digest', digest, '(%d values, %d of them refusals)' % (len(out), sum(' raises ' in o for o in out)))
if EXPECTED != 'PLACEHOLDER' and digest != EXPECTED:
    print('DIFFERENT from the pristine tree (%s)' % EXPECTED)
    sys.exit(1)
sys.exit(0)
