"""C09 / B4 (equivalence): clamped activation enthalpies and Gibbs energies of ChemkinReaction and SurfaceReaction
(dimensionless and in four unit systems), with and without transition state, exothermic / endothermic, barrierless /
high barrier, both directions, keyword and positional calls, what the Chemkin / OpenMKM writers print.  Every value is
compared BIT FOR BIT (==) with max(0, delta(act), delta) of the plain base class Reaction; signatures are compared
with the documented ones; the digest printed at the end is the same on both trees.  Exit 0 on both trees."""
import hashlib
import inspect
import itertools
import sys
import numpy as np
from pmutt import constants as c
from pmutt.empirical import GasPressureAdj
from pmutt.empirical.nasa import Nasa
from pmutt.chemkin import CatSite
from pmutt.reaction import ChemkinReaction, Reaction
from pmutt.omkm.reaction import SurfaceReaction
from pmutt.omkm.phase import InteractingInterface
from pmutt.cantera.phase import IdealGas


def nasa(name, H, S, phase='G', cat_site=None, cp=3.5, gas=False):
    a = np.array([cp, 1e-3, 0., 0., 0., H, S])
    return Nasa(name=name, T_low=100., T_mid=1000., T_high=3000., a_low=a, a_high=a, phase=phase, cat_site=cat_site,
                misc_models=[GasPressureAdj()] if gas else None)


def chemkin_species(H_ts):
    site = CatSite(name='RU(S)', site_density=2.5e-9, density=12.1, bulk_specie='RU(B)')
    return {'H2': nasa('H2', 0., 10., gas=True), 'RU(S)': nasa('RU(S)', 0., 0., 'S', site, cp=0.),
            'H(S)': nasa('H(S)', -3000., 1., 'S', site, cp=1.), 'O(S)': nasa('O(S)', -9000., 2., 'S', site, cp=1.5),
            'OH(S)': nasa('OH(S)', -11000., 3., 'S', site, cp=2.), 'TS(S)': nasa('TS(S)', H_ts, 6., 'S', site, cp=2.5)}


def omkm_species(H_ts):
    sp = chemkin_species(H_ts)
    gas = IdealGas(name='gas', species=[sp['H2']])
    surf = InteractingInterface(name='terrace', species=[], site_density=2.5e-9)
    for k, v in sp.items():
        v.phase = gas if k == 'H2' else surf
    return sp


STEPS = ('H2 + 2RU(S) = 2H(S)', '2H(S) = H2 + 2RU(S)', 'H2 + 2RU(S) = TS(S) + RU(S) = 2H(S)',
         'H(S) + O(S) = TS(S) + RU(S) = OH(S) + RU(S)', 'OH(S) + RU(S) = TS(S) + RU(S) = H(S) + O(S)')
out, bad = [], 0
for (cname, cls, mk), H_ts, step in itertools.product((('ChemkinReaction', ChemkinReaction, chemkin_species),
                                                        ('SurfaceReaction', SurfaceReaction, omkm_species)),
                                                       (-20000., -6000., 2000., 30000.), STEPS):
    rxn = cls.from_string(step, mk(H_ts))
    ref = Reaction.from_string(step, chemkin_species(H_ts))
    act = ref.transition_state is not None
    for T, P, rev in itertools.product((300., 500., 900.), (0.01, 1., 50.), (False, True)):
        for X in ('H', 'G'):
            d = getattr(ref, 'get_delta_%soRT' % X)
            want = np.max([0., d(rev=rev, act=act, T=T, P=P), d(rev=rev, act=False, T=T, P=P)])
            got = [getattr(rxn, 'get_%soRT_act' % X)(rev=rev, T=T, P=P), getattr(rxn, 'get_%soRT_act' % X)(rev, T=T, P=P)]
            if X == 'G':        # documented (and ignored) parameter of get_GoRT_act
                got += [rxn.get_GoRT_act(rev, True, T=T, P=P), rxn.get_GoRT_act(rev=rev, act=True, T=T, P=P)]
            bad += sum(not (g == want) for g in got)
            out += got + ([rxn.get_A(T=T, P=P, rev=rev), rxn.get_A(T=T, P=P, include_entropy=False, sden_operation="min")] if X == "H" else [])
            for u in ('kcal/mol', 'J/mol', 'eV', 'kJ/mol'):
                out.append(getattr(rxn, 'get_%s_act' % X)(units=u, T=T, P=P, rev=rev))
    # what the classes hand to the kinetic-model files
    if cls is SurfaceReaction:
        out.append(float(np.sum([ord(ch) for ch in rxn.to_cti(T=500., P=2.)])))
# the public signatures
for cls in (ChemkinReaction, SurfaceReaction):
    s1, s2 = str(inspect.signature(cls.get_HoRT_act)), str(inspect.signature(cls.get_GoRT_act))
    bad += (s1, s2) != ('(self, rev=False, **kwargs)', '(self, rev=False, act=False, **kwargs)')
    bad += not (cls.get_HoRT_act.__doc__ and cls.get_GoRT_act.__doc__)
print('%d values, %d clamps differ bitwise from max(0, delta(act), delta) of the base class' % (len(out), bad))
print('digest', hashlib.sha256(np.array(out, dtype=float).tobytes()).hexdigest())
sys.exit(1 if bad else 0)
