"""C09 / B4 (equivalence): BEP barriers for both BEP classes, all eight descriptors, both directions, a grid of slopes
(0-1) / intercepts (0-60 kcal/mol) / temperatures, three unit systems, exothermic and endothermic steps (negative
barriers included), StatMech and empirical species.  Every barrier is compared BIT FOR BIT (==, and the type of the
result) with ((slope or slope-1) * descriptor + intercept) * R(units)/R(kcal/mol) evaluated by hand; the digest printed
at the end is the same on both trees.  Exit 0 on both trees."""
import hashlib
import itertools
import sys
import numpy as np
from pmutt import constants as c
from pmutt.statmech import StatMech, presets
from pmutt.empirical.nasa import Nasa
from pmutt.reaction import Reaction
from pmutt.reaction.bep import BEP
from pmutt.omkm.reaction import BEP as OmkmBEP


def adsorbate(name, E, *wavenumbers):
    return StatMech(name=name, potentialenergy=E, vib_wavenumbers=list(wavenumbers), **presets['harmonic'])


def nasa(name, H, S, cp=3.5):
    a = np.array([cp, 1e-3, -2e-7, 0., 0., H, S])
    return Nasa(name=name, T_low=100., T_mid=1000., T_high=3000., a_low=a, a_high=a, phase='G')


DESC = ('delta_H', 'rev_delta_H', 'reactants_H', 'products_H', 'delta_E', 'rev_delta_E', 'reactants_E', 'products_E')
out, types, bad = [], set(), 0
for cls, desc in itertools.product((BEP, OmkmBEP), DESC):
    bep = cls(slope=0.5, intercept=10., name='bep', descriptor=desc)
    sm = {'A': adsorbate('A', -1.2, 450., 1200., 3100.), 'B': adsorbate('B', -0.4, 300., 900.),
          'C': adsorbate('C', -1.1, 250., 700., 1500., 2900.), 'bep': bep}
    ns = {'A': nasa('A', -1000., 20.), 'B': nasa('B', 500., 25., cp=4.), 'C': nasa('C', -9500., 22., cp=3.8), 'bep': bep}
    rxns = [Reaction.from_string('A + B = bep = 2C', sm), Reaction.from_string('2C = bep = A + B', sm)]
    if desc.endswith('_H'):
        rxns += [Reaction.from_string('A + B = bep = 2C', ns), Reaction.from_string('2C = bep = A + B', ns)]
    for rxn, slope, icpt, T, rev in itertools.product(rxns, (0., 0.3, 0.75, 1.), (0., 17.5, 60.), (300., 650.), (False, True)):
        bep.slope, bep.intercept = slope, icpt
        val = bep._get_descriptor_val(reaction=rxn, T=T)
        adj = (slope if rev else slope - 1.) if 'rev_delta' in desc else (slope - 1. if rev else slope)
        for u in ('kcal/mol', 'J/mol', 'eV'):
            got = bep.get_E_act(units=u, reaction=rxn, rev=rev, T=T)
            want = (adj * val + icpt) * c.R(u + '/K') / c.R('kcal/mol/K')
            bad += not (got == want) or type(got) is not type(want)
            types.add(type(got).__name__)
            out.append(got)
        out += [bep.get_EoRT_act(reaction=rxn, rev=rev, T=T), bep.get_HoRT(reaction=rxn, T=T), bep.get_UoRT(reaction=rxn, T=T),
                rxn.get_delta_HoRT(T=T, rev=rev, act=True), rxn.get_A(T=T, rev=rev)]
print('%d values (barrier types: %s), %d barriers differ bitwise from the hand formula' % (len(out), sorted(types), bad))
print('digest', hashlib.sha256(np.array(out, dtype=float).tobytes()).hexdigest())
sys.exit(1 if bad else 0)
