"""C12_B5: c() states the defined value once: ``c_dict = {'m/s': 299792458.}; c_dict['cm/s'] = c_dict['m/s'] * 100.``
299792458. * 100. is 29979245800.0 exactly (an integer below 2**53) = the literal 299792458.e2: c('cm/s') and every
helper that uses it return bit for bit what they returned.
Takes the tree from PYTHONPATH.  Runs the digest of C12_B_dump.py (24959 observations: convert_unit for every ordered pair
of units incl. refusals and messages, numbers, float/int/float32/0-d/empty/2-D arrays, argument modification; every key
of R/kb/h/c; P0/T0/m_e/m_p/V0 for every unit; all helpers; element tables; molar masses - values bit-exact by float.hex)
and compares it with the digest of the original tree f5552c6.  exit 0 on both trees, exit 1 on any difference."""
import os
import subprocess
import sys

import pmutt.constants as k
if k.c('cm/s') != 299792458.e2 or k.c('m/s') != 299792458. or type(k.c('cm/s')) is not float:
    sys.exit('c changed')

ORIGINAL = '6eed1ad733d24fa4b1ea796b862c127d51a58cfe356ee8523a07c424aec9b812'
here = os.path.dirname(os.path.abspath(__file__))
r = subprocess.run([sys.executable, os.path.join(here, 'C12_B_dump.py'), '--expect', ORIGINAL])
sys.exit(r.returncode)
