"""C15_A4: the NASA coefficient arrays are started as np.array([0] * N_NASA_COEFFS) instead of np.zeros(7).  A list of
Python ints makes an INTEGER array: every coefficient stored afterwards is truncated (4.198 -> 4, -2.03e-3 -> 0).
exit 1 / WRONG with the change, exit 0 without.  Tree from PYTHONPATH."""
import os
import sys
import tempfile
import warnings

import numpy as np
import openpyxl

from pmutt.io.excel import read_excel

warnings.simplefilter('ignore')
a_low = [4.19864056, -2.0364341e-03, 6.52040211e-06, -5.48797062e-09, 1.77197817e-12, -30293.7267, -0.849032208]
a_high = [2.67703787, 2.97318329e-03, -7.7376969e-07, 9.44336689e-11, -4.26900959e-15, -29885.8938, 6.88255571]
header = ['name', 'phase', 'T_low', 'T_mid', 'T_high'] + ['nasa.a_low.%d' % i for i in range(7)] + \
    ['nasa.a_high.%d' % i for i in range(7)]
comment = [''] * len(header)
rows = [['H2O', 'G', 200., 1000., 3500.] + a_low + a_high,
        ['OH', 'G', 200., 1000., 3500.] + [3.99, None, None, None, None, 3615.08, None] + [None] * 7]
with tempfile.TemporaryDirectory() as tmp:
    path = os.path.join(tmp, 'book.xlsx')
    wb = openpyxl.Workbook()
    ws = wb.active
    for r in [header, comment] + rows:
        ws.append(r)
    wb.save(path)
    got = read_excel(path)
ok = len(got) == 2 and np.array_equal(got[0]['a_low'], a_low) and np.array_equal(got[0]['a_high'], a_high) and \
    np.array_equal(got[1]['a_low'], [3.99, 0, 0, 0, 0, 3615.08, 0]) and 'a_high' not in got[1]
print('H2O a_low  got     ', got[0]['a_low'].tolist())
print('           expected', a_low)
print('H2O a_high got     ', got[0]['a_high'].tolist())
print('           expected', a_high)
print('OH  a_low  got     ', got[1]['a_low'].tolist())
print('           expected', [3.99, 0, 0, 0, 0, 3615.08, 0])
print('OK' if ok else 'WRONG: the NASA coefficients are truncated to integers')
sys.exit(0 if ok else 1)
