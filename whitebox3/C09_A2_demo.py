"""C09 / A2: ChemkinReaction.get_A for species whose phase letter is written in lower case.  pMuTT accepts both
spellings (`_is_gas_phase` and the Chemkin writers compare `phase.upper()`, EmpiricalBase accepts 'g' and 'gas'), so a
mechanism whose thermdat carries 's' / 'g' must get the same factors as one written with 'S' / 'G':
A = (kB/h) / (effective site density)^(n_surf - 1).
Exit 1 / WRONG when the lower-case mechanism gets another factor."""
import sys
import numpy as np
from pmutt import constants as c
from pmutt.empirical.nasa import Nasa
from pmutt.chemkin import CatSite
from pmutt.reaction import ChemkinReaction


def nasa(name, H, S, phase, cat_site=None, cp=3.5):
    a = np.array([cp, 0., 0., 0., 0., H, S])
    return Nasa(name=name, T_low=100., T_mid=1000., T_high=3000., a_low=a, a_high=a, phase=phase, cat_site=cat_site)


def species(lower):
    f = (lambda x: x.lower()) if lower else (lambda x: x)
    site = CatSite(name='RU(S)', site_density=2.5e-9, density=12.1, bulk_specie='RU(B)')
    return {'H2': nasa('H2', 0., 10., f('G')), 'RU(S)': nasa('RU(S)', 0., 0., f('S'), site, cp=0.),
            'H(S)': nasa('H(S)', -3000., 1., f('S'), site, cp=1.), 'O(S)': nasa('O(S)', -9000., 2., f('S'), site, cp=1.5),
            'OH(S)': nasa('OH(S)', -11000., 3., f('S'), site, cp=2.), 'RU(B)': nasa('RU(B)', 0., 0., f('S'), site, cp=0.)}


T = 500.
kb_h = c.kb('J/K') / c.h('J s')
bad = 0
for step, n_surf, n_dens in (('H2 + 2RU(S) = 2H(S)', 2, 2), ('H(S) + O(S) = OH(S) + RU(S)', 2, 2),
                             ('2H(S) + O(S) = H2 + O(S) + 2RU(S)', 3, 3), ('OH(S) = OH(S)', 1, 1)):
    for op, eff in (('sum', n_dens * 2.5e-9), ('min', 2.5e-9), ('max', 2.5e-9), ('mean', 2.5e-9)):
        want = kb_h / eff ** (n_surf - 1)
        for lower in (False, True):
            rxn = ChemkinReaction.from_string(step, species(lower))
            got = rxn.get_A(T=T, sden_operation=op)
            ok = np.isclose(got, want, rtol=1e-10)
            bad += not ok
            print('%-36s phases %-5s op=%-4s get_A = %.6e   (kB/h)/sden_eff^(n_surf-1) = %.6e%s'
                  % (step, "'s/g'" if lower else "'S/G'", op, got, want, '' if ok else '   <-- WRONG'))
if bad:
    print('WRONG: %d pre-exponential factors do not scale as site density^(1 - number of surface reactants)' % bad)
    sys.exit(1)
print('ok')
