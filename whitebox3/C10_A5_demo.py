"""C10_A5: a reference set grown with extend() and fitted again (H2 | + H2O, CH4; 3 species x 3 elements, full
rank) must reproduce the experimental enthalpy of every reference species.  Exit 1 / WRONG when it does not."""
import sys
import warnings

import numpy as np

from pmutt import constants as c
from pmutt.empirical.references import Reference, References
from pmutt.statmech import StatMech

warnings.simplefilter('ignore')
T0 = c.T0('K')


class Dft:
    """stands for the statistical-mechanical model of a species: H/RT = h0 * T0 / T (constant energy)"""

    def __init__(self, h0):
        self.h0 = h0

    def get_HoRT(self, T):
        return self.h0 * T0 / T

    def get_SoR(self, T):
        return 0.

    def get_CpoR(self, T):
        return 0.


true_offset = {'C': -378.585, 'H': -131.75, 'O': -192.426}      # H_dft - H_exp per atom, in RT units
species = {'H2': {'H': 2}, 'H2O': {'H': 2, 'O': 1}, 'CH4': {'C': 1, 'H': 4}}
h_dft = {'H2': -263.5, 'H2O': -553.467, 'CH4': -935.679}
h_exp = {n: h_dft[n] - sum(true_offset[e] * k for e, k in comp.items()) for n, comp in species.items()}


def reference(n):
    return Reference(name=n, elements=dict(species[n]), T_ref=T0, HoRT_ref=h_exp[n], model=Dft(h_dft[n]))


def reproduced(refs):
    """number of reference species whose adjusted enthalpy is not the experimental one"""
    bad = 0
    for n, comp in species.items():
        sp = StatMech(name=n, elec_model=Dft(h_dft[n]), elements=dict(comp), references=refs)
        got = sp.get_HoRT(T=T0)
        ok = abs(got - h_exp[n]) < 1e-6
        print('  %-4s adjusted H/RT %12.4f   experimental %12.4f   %s' % (n, got, h_exp[n], 'ok' if ok else 'WRONG'))
        bad += not ok
    return bad


refs = References(references=[reference('H2')])
try:
    refs.extend([reference('H2O'), reference('CH4')])
    refs.fit_HoRT_offset()
except Exception as e:
    print('WRONG: extending the reference set and fitting again raised %s: %s' % (type(e).__name__, e))
    sys.exit(1)
print('%d reference species, offsets %s' % (len(refs), {k: round(float(v), 3) for k, v in refs.offset.items()}))
if len(refs) != 3 or reproduced(refs):
    print('WRONG: the references are not reproduced after extend + refit')
    sys.exit(1)
print('all reference species reproduced')
