"""C13_B3 - Shomate getters: T = np.atleast_1d(T) instead of the `if not _is_iterable(T): T = [T]` / np.array(T) pair and `T.size == 1` instead of `len(T) == 1`.

Spread of inputs over the anchored code of C13 (EmpiricalBase.__init__, GasPressureAdj, _get_mix_quantity and its call
sites in Nasa/Nasa9/Shomate, _get_specie_kwargs, PiecewiseCovEffect).  Every value is printed with repr (full precision),
together with type/dtype/shape, raised exceptions and emitted warnings; the output of the original and of the refactored
tree must be byte-identical (cmp), and a few independent identities are asserted.  Takes the tree from PYTHONPATH.
Exit 0 on both trees.
Usage: PYTHONPATH=<tree> python C13_B3_demo.py > out.txt on the original and on the refactored tree, then cmp the two
files (the last line carries the number of lines and the SHA-256 of everything above it)."""
import copy, hashlib, io, sys, warnings
import numpy as np
import pmutt
from pmutt import _get_specie_kwargs, _is_iterable, constants as c
from pmutt.empirical import EmpiricalBase, GasPressureAdj
from pmutt.empirical.nasa import Nasa, Nasa9, SingleNasa9
from pmutt.empirical.shomate import Shomate
from pmutt.mixture import _get_mix_quantity
from pmutt.mixture.cov import PiecewiseCovEffect

out = io.StringIO()


def show(v):
    if isinstance(v, np.ndarray):
        return 'ndarray%s %s %r' % (v.shape, v.dtype, v.tolist())
    if isinstance(v, (list, tuple)):
        return '%s[%s]' % (type(v).__name__, ', '.join(show(x) for x in v))
    if isinstance(v, dict):
        return '{%s}' % ', '.join('%r: %s' % (k, show(x)) for k, x in v.items())
    if isinstance(v, pmutt._pmuttBase):
        return '<%s>' % type(v).__name__
    return '%s %r' % (type(v).__name__, v)


def call(label, fn, *args, **kwargs):
    with warnings.catch_warnings(record=True) as w:
        warnings.simplefilter('always')
        try:
            r = show(fn(*args, **kwargs))
        except Exception as e:            # noqa
            r = 'RAISES %s: %s' % (type(e).__name__, str(e)[:120])
    ws = ['%s:%s' % (x.category.__name__, str(x.message)[:80]) for x in w]
    out.write('%s -> %s%s\n' % (label, r, (' WARN ' + ' | '.join(ws)) if ws else ''))
    return r


a_low = [4.04618796E+00, -6.87238823E-04, 2.79722240E-06, -1.42318006E-09, 2.34551159E-13, -3.02826236E+04, -2.50036531E-01]
a_high = [2.41854323E+00, 3.35448922E-03, -9.66398101E-07, 1.34441829E-10, -7.18940063E-15, -2.97582484E+04, 8.37839787E+00]
n9 = [[200., 1000., [-3.94796083E+04, 5.75573102E+02, 9.31782653E-01, 7.22271286E-03, -7.34255737E-06, 4.95504349E-09,
                     -1.33693325E-12, -3.30397431E+04, 1.72420578E+01]],
      [1000., 6000., [1.03497210E+06, -2.41269856E+03, 4.64611078E+00, 2.29199831E-03, -6.83683048E-07, 9.42646893E-11,
                      -4.82238053E-15, -1.38428651E+04, -7.97814851E+00]]]
sho = [30.09200, 6.832514, 6.793435, -2.534480, 0.082139, -250.8810, 223.3967, -241.8264]
EL = {'H': 2, 'O': 1}


def cov(j, k):
    return PiecewiseCovEffect(name_i='H2O(S)', name_j=j, intervals=[0., 0.3 + 0.1 * k, 0.8], slopes=[-20. + k, -35., 4.5 * (k + 1)])


def forms():
    return {'None': None, '[]': [], '[cov]': [cov('CO(S)', 0)], '[cov,cov]': [cov('CO(S)', 0), cov('O(S)', 1)],
            '[adj]': [GasPressureAdj()], '[adj,cov]': [GasPressureAdj(), cov('CO(S)', 0)],
            '[cov,adj,cov]': [cov('Ag', 0), GasPressureAdj(), cov('CO_s', 1)], '(cov,)': (cov('CO(S)', 0),),
            '[entry,cov]': [{'class': "<class 'pmutt.empirical.GasPressureAdj'>"}, cov('CO(S)', 0)]}


def build(kind, phase, misc, **extra):
    if kind == 'Nasa':
        return Nasa(name='H2O', T_low=200., T_mid=1610.97, T_high=5000., a_low=a_low, a_high=a_high, phase=phase,
                    misc_models=misc, elements=dict(EL), **extra)
    if kind == 'Nasa9':
        return Nasa9(name='H2O', nasas=[SingleNasa9(T_low=lo, T_high=hi, a=a) for lo, hi, a in n9], phase=phase,
                     misc_models=misc, elements=dict(EL), **extra)
    return Shomate(name='H2O', T_low=500., T_high=1700., a=np.array(sho), phase=phase, misc_models=misc,
                   elements=dict(EL), **extra)


TS = {'float': 700., 'int': 800, 'np.float64': np.float64(650.), '0-d': np.array(900.), 'list': [600., 900.],
      'tuple': (1500., 600.), 'len1 list': [750.], 'len1 array': np.array([750.]), 'int array': np.array([600, 1200, 1650]),
      'int list': [600, 1700], 'unsorted+dup': np.array([1650., 600., 1650., 1000., 600.]),
      'linspace50': np.linspace(520., 1690., 50), 'float32': np.array([600., 900.], dtype=np.float32), 'empty': [],
      'out of range': [450., 1800.], 'out of range scalar': 150., '2-D': np.array([[600., 900.]])}
CONDS = [{}, {'P': 10.}, {'P': 1e-3, 'x': 0.35}, {'x': 0.7}, {'x': 1}, {'x': 0.}, {'P': 100, 'x': 0.3},
         {'P': 2., 'CO(S)_kwargs': {'x': 0.25}, 'O(S)_kwargs': {'x': 0.6}, 'Ag_kwargs': {'x': 0.1}, 'CO_s_kwargs': {'x': .9}},
         {'x': 0.2, 'CO(S)_kwargs': {'x': 0.5}}, {'P': 1.000008}]
for kind in ('Nasa', 'Nasa9', 'Shomate'):
    for phase in ('g', 'gas', 'G', 'Gas', 's', 'S', None):
        for fname in forms():
            for add in (True, False):
                if not add and fname not in ('None', '[cov]', '[adj,cov]'):
                    continue
                tag = '%s phase=%r misc=%s add=%s' % (kind, phase, fname, add)
                handed = forms()[fname]
                before = None if handed is None else list(handed)
                try:
                    sp = build(kind, phase, handed, add_gas_P_adj=add)
                except Exception as e:        # noqa
                    out.write('%s RAISES %s\n' % (tag, type(e).__name__))
                    continue
                out.write('%s models=%s caller-list-unchanged=%s\n' % (
                    tag, None if sp.misc_models is None else [type(m).__name__ for m in sp.misc_models],
                    before is None or [type(m) for m in handed] == [type(m) for m in before]))
                full = fname in ('None', '[cov,cov]', '[cov,adj,cov]') and add and phase in ('G', 'S', None)
                for tname, T in TS.items():
                    if not full and tname not in ('float', 'list', 'len1 array'):
                        continue
                    for cond in (CONDS if full and tname in ('float', 'unsorted+dup', 'int list') else CONDS[1:3]):
                        for q in ('get_CpoR', 'get_HoRT', 'get_SoR', 'get_GoRT'):
                            call('%s %s T=%s %r' % (tag, q, tname, cond), getattr(sp, q), T=copy.deepcopy(T), **cond)
                        if full:
                            call('%s get_SoR(S_elements) T=%s %r' % (tag, tname, cond), sp.get_SoR, T=copy.deepcopy(T),
                                 S_elements=True, **cond)
                            call('%s get_GoRT positional T=%s %r' % (tag, tname, cond), sp.get_GoRT, copy.deepcopy(T), **cond)
                            for q, u in (('get_Cp', 'J/mol/K'), ('get_H', 'kJ/mol'), ('get_S', 'cal/mol/K'),
                                         ('get_G', 'eV'), ('get_G', 'kJ/g'), ('get_S', 'J/g/K')):
                                call('%s %s[%s] T=%s %r' % (tag, q, u, tname, cond), getattr(sp, q), T=copy.deepcopy(T),
                                     units=u, **cond)
                # reload
                cur = sp
                for cyc in (1, 2):
                    try:
                        cur = type(sp).from_dict(cur.to_dict())
                        out.write('%s cycle %d models=%s eq=%s\n' % (tag, cyc, None if cur.misc_models is None else
                                  [type(m).__name__ for m in cur.misc_models], cur == sp))
                    except Exception as e:    # noqa
                        out.write('%s cycle %d RAISES %s\n' % (tag, cyc, type(e).__name__))
                        break
                call('%s deepcopy get_SoR' % tag, copy.deepcopy(sp).get_SoR, T=700., P=10., x=0.2)
# the helpers on their own
for name in ('CO', 'CO2', 'O', 'Ag', 'CO_s', 'kwargs_A', 'CO(S)', '', 'a%sb', '{}', None, 5, ('t', 1), 2.5):
    kw = {'T': 300., 'P': 2., 'CO_kwargs': {'P': 1.}, 'CO2_kwargs': {'P': 3.}, 'CO(S)_kwargs': {'x': .5}, '_kwargs': {'z': 1},
          'kwargs_A_kwargs': {'x': .1}, 'None_kwargs': {'n': 0}, '5_kwargs': {'five': 5}, "('t', 1)_kwargs": {'t': 1},
          'a%sb_kwargs': {'pct': 1}, '{}_kwargs': {'brace': 1}, '2.5_kwargs': 7, 'Ag_kwargs': None}
    call('_get_specie_kwargs(%r)' % (name,), _get_specie_kwargs, name, **kw)
    call('_get_specie_kwargs(%r) no blocks' % (name,), _get_specie_kwargs, name, T=300., P=2.)
for models in (None, [], [GasPressureAdj()], [cov('CO(S)', 0), None, GasPressureAdj()], (GasPressureAdj(),)):
    for m in ('get_SoR', 'get_HoRT', 'get_q', 'get_nothing'):
        for opts in ({}, {'raise_error': False, 'raise_warning': False, 'default_value': 1.5}):
            call('_get_mix_quantity(%s, %s, %r)' % (show(models), m, opts), _get_mix_quantity, models, m, T=500., P=3.,
                 x=0.45, **opts)
for v in (5., 'abc', [1], (), None, np.array(3.), np.array([1.]), {}, {'a': 1}, GasPressureAdj(), b'x', range(3), iter([1])):
    call('_is_iterable(%s)' % type(v).__name__, _is_iterable, v)
g = GasPressureAdj()
for P in (1e-3, 1, 1., 10, np.array([1., 10.]), np.float32(2.)):
    call('GasPressureAdj.get_SoR(%r)' % (P,), g.get_SoR, P=P)
    call('GasPressureAdj.get_GoRT(%r)' % (P,), g.get_GoRT, P=P)
call('GasPressureAdj.get_SoR()', g.get_SoR)
call('GasPressureAdj.to_dict', g.to_dict)
import pmutt.empirical.nasa as _nasa_mod
import pmutt.empirical.shomate as _sho_mod
for fname_, mod_, a_ in (('get_nasa_CpoR', _nasa_mod, a_low), ('get_nasa_HoRT', _nasa_mod, a_high), ('get_nasa_SoR', _nasa_mod, a_low),
                         ('get_nasa9_CpoR', _nasa_mod, n9[0][2]), ('get_nasa9_HoRT', _nasa_mod, n9[1][2]),
                         ('get_nasa9_SoR', _nasa_mod, n9[0][2])):
    for T_ in (500., 1200, np.array([400., 900.]), np.array([300, 2000])):
        call('%s.%s(T=%r)' % (mod_.__name__, fname_, T_), getattr(mod_, fname_), a=np.array(a_), T=T_)
for fname_ in ('get_shomate_CpoR', 'get_shomate_HoRT', 'get_shomate_SoR', 'get_shomate_GoRT'):
    call('shomate.%s' % fname_, getattr(_sho_mod, fname_), a=np.array(sho), T=np.array([600., 1200.]), units='J/mol/K')
text = out.getvalue()
sys.stdout.write(text)
# independent identities
sp = build('Shomate', 'G', None)
assert abs((sp.get_SoR(T=700., P=10.) - sp.get_SoR(T=700., P=1.)) + np.log(10.)) < 1e-12
sp = build('Nasa', 'S', [cov('CO(S)', 0)])
assert abs(sp.get_HoRT(T=700., x=0.2) - build('Nasa', 'S', None).get_HoRT(T=700.) - (-20. * 0.2) / (c.R('kcal/mol/K') * 700.)) < 1e-12
print('lines=%d sha256=%s' % (text.count('\n'), hashlib.sha256(text.encode()).hexdigest()))
sys.exit(0)
