"""C16_A1 demo: the solver run whose amounts are returned failed, and nothing is signalled.

Takes pMuTT from PYTHONPATH.  The solver is watched (scipy's minimize is wrapped, not replaced) so that the success flag of
every run made by get_net_comp is known.  WRONG (exit 1): the run that produced the returned amounts reported
success=False and the caller got neither a warning nor an exception.  Also printed: the distance of the returned
composition from reaction equilibrium, max |deltaG/RT + ln Q| over the reactions among species with x > 1e-6."""
import os
import sys
import warnings

import numpy as np

import pmutt
import pmutt.equilibrium._equilibrium as M
from pmutt.equilibrium import Equilibrium
from pmutt.io.thermdat import read_thermdat

THERMDAT = os.path.join(os.path.dirname(pmutt.__file__), 'tests', 'equilibrium', 'thermdat_equilibrium_unittest.txt')

# (network with feed / mol, T / K, P / atm): 3-10 gas species over C/H/O, every element in the feed
CASES = [
    ({'H2O': 0.0, 'CH2CHCH3': 0.0, 'CH3CH3': 0.0, 'CO': 0.044, 'CH2CH2': 0.117}, 339.0, 2.068),
    ({'CO2': 2.37, 'CH4': 0.0, 'H2': 0.029, 'CO': 0.0, 'CH2CHCH3': 0.0, 'CH3CH3': 0.0, 'H2O': 0.067,
      'CH3CH2CH3': 0.0}, 1048.0, 0.586),
    ({'CH2CH2': 0.637, 'CH3CH2CH3': 0.0, 'CH4': 0.0, 'CO2': 0.644, 'CO': 0.0, 'H2O': 0.0, 'CHCH': 0.051, 'H2': 4.499,
      'CH2CHCH3': 0.815}, 340.0, 0.206),
    ({'CHCH': 0.0, 'CO': 0.019, 'CH2CHCH3': 0.223, 'CH3CH2CH3': 0.425, 'H2': 2.006, 'CH3CH3': 0.0, 'CH2CH2': 0.0,
      'CO2': 8.615, 'CH4': 0.025}, 1462.0, 0.057),
    ({'CHCH': 1.146, 'CH2CHCH3': 0.083, 'CH2CH2': 0.0, 'H2O': 0.0, 'CO': 0.03}, 416.0, 0.925),
]

runs = []
_minimize = M.minimize


def watched(*args, **kwargs):
    sol = _minimize(*args, **kwargs)
    runs.append((bool(sol.success), int(sol.status), sol.message))
    return sol


M.minimize = watched


def residual(eq, r, T, P):
    x = r.moles
    n = x.sum()
    g = np.array([eq.model[s].get_GoRT(T=T) for s in eq.species])
    keep = x / n > 1e-6
    mu = g[keep] + np.log(x[keep] * P * 1.01325 / n)
    A = eq.mol_elem[keep]
    lam = np.linalg.lstsq(A, mu, rcond=None)[0]
    return np.abs(mu - A.dot(lam)).max()


def main():
    model = read_thermdat(THERMDAT, 'dict')
    wrong = 0
    for network, T, P in CASES:
        eq = Equilibrium(model, network)
        del runs[:]
        signalled = False
        with warnings.catch_warnings(record=True) as w:
            warnings.simplefilter('always')
            with np.errstate(all='ignore'):
                try:
                    r = eq.get_net_comp(T=T, P=P)
                except Exception as e:                                  # an exception is a signal too
                    print('exception', type(e).__name__)
                    continue
        signalled = any('did not converge' in str(x.message) for x in w)
        last_ok, status, message = runs[-1]
        line = ('%d species, T=%g K, P=%g atm: %d solver run(s) %s, signalled=%s, distance from equilibrium %.2g'
                % (len(network), T, P, len(runs), [ok for ok, _, _ in runs], signalled, residual(eq, r, T, P)))
        if not last_ok and not signalled:
            wrong += 1
            line = 'WRONG: ' + line + (' - the run that gave the returned amounts failed (status %d, %s) and nothing '
                                       'was signalled' % (status, message))
        print(line)
    print('%d of %d cases returned an unconverged composition silently' % (wrong, len(CASES)))
    return 1 if wrong else 0


if __name__ == '__main__':
    sys.exit(main())
