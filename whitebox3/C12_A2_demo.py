"""C12_A2: convert_unit takes ``result = num.astype(float, copy=False)`` and scales it in place.  For an integer array
astype makes a new float array (fine); for a float64 array ``copy=False`` hands back the caller's own array, so the
conversion overwrites its argument: the second conversion of the same quantity starts from converted numbers.
Property: conversions are proportional maps of their argument for "arbitrary numeric arguments and compositions"
(the checker states the obligation itself: EFFECT.argument, "the caller's array left as it was").
Takes the tree from PYTHONPATH; exit 1 and WRONG lines with the change, exit 0 on the original tree."""
import sys
import numpy as np
import pmutt.constants as c

bad = 0


def report(ok, text):
    global bad
    bad += not ok
    print(('right ' if ok else 'WRONG ') + text)


E = np.array([1., 2., 3.])                      # energies in eV
kJ = c.convert_unit(E, 'eV', 'kJ').copy()
report(np.array_equal(E, [1., 2., 3.]), 'after convert_unit(E, eV, kJ) the caller\'s E is %r (right [1.0, 2.0, 3.0])' % E.tolist())
kcal = c.convert_unit(E, 'eV', 'kcal')
want = np.array([1., 2., 3.]) * 0.000239006 / 6.2415090744607553e+18
report(np.allclose(kcal, want, rtol=1e-12, atol=0.), 'second conversion convert_unit(E, eV, kcal) = %r (right %r)' % (kcal.tolist(), want.tolist()))
P = np.array([1., 10.])                         # pressures in bar
c.convert_unit(P, 'bar', 'kPa')
Pa = c.convert_unit(P, 'bar', 'Pa')
report(np.allclose(Pa, [1e5, 1e6]), 'convert_unit(P, bar, Pa) after convert_unit(P, bar, kPa) = %r (right [100000.0, 1000000.0])' % Pa.tolist())
# integer arrays and numbers are right in both trees
assert np.allclose(c.convert_unit(np.array([1, 2, 3]), 'kJ', 'J'), [1000., 2000., 3000.])
assert c.convert_unit(2., 'kJ', 'J') == 2000.
print('%d wrong' % bad)
sys.exit(1 if bad else 0)
