"""C13_A4 - the species' own <name>_kwargs block is recognised with re.fullmatch(r'(\\w+)_kwargs', key): names with a
character outside \\w - CO(S), H2O(S), O*, O-fcc: the package's own spelling of adsorbates - never match, the coverage
effect is evaluated at the default coverage 0.  Exit 1 / WRONG with the change, exit 0 without."""
import sys, warnings
import numpy as np
from pmutt.empirical.nasa import Nasa, Nasa9, SingleNasa9
from pmutt.empirical.shomate import Shomate
from pmutt.mixture.cov import PiecewiseCovEffect
warnings.simplefilter('ignore')

a_low = [4.04618796E+00, -6.87238823E-04, 2.79722240E-06, -1.42318006E-09, 2.34551159E-13, -3.02826236E+04, -2.50036531E-01]
a_high = [2.41854323E+00, 3.35448922E-03, -9.66398101E-07, 1.34441829E-10, -7.18940063E-15, -2.97582484E+04, 8.37839787E+00]
n9 = [-3.94796083E+04, 5.75573102E+02, 9.31782653E-01, 7.22271286E-03, -7.34255737E-06, 4.95504349E-09, -1.33693325E-12,
      -3.30397431E+04, 1.72420578E+01]
sho = [30.09200, 6.832514, 6.793435, -2.534480, 0.082139, -250.8810, 223.3967, -241.8264]


def build(kind, misc):
    if kind == 'Nasa':
        return Nasa(name='H2O(S)', T_low=200., T_mid=1610.97, T_high=5000., a_low=a_low, a_high=a_high, phase='S',
                    misc_models=misc)
    if kind == 'Nasa9':
        return Nasa9(name='H2O(S)', nasas=[SingleNasa9(T_low=200., T_high=1000., a=n9)], phase='S', misc_models=misc)
    return Shomate(name='H2O(S)', T_low=500., T_high=1700., a=np.array(sho), phase='S', misc_models=misc)


bad = 0
for kind in ('Nasa', 'Nasa9', 'Shomate'):
    for names in (('CO(S)',), ('CO',), ('O*', 'CO2'), ('H2O(S)', 'O-fcc', 'Ag')):
        covs = [PiecewiseCovEffect(name_i='H2O(S)', name_j=n, intervals=[0., 0.4], slopes=[-20. - j, -35.])
                for j, n in enumerate(names)]
        sp, bare = build(kind, covs), build(kind, None)
        xs = {n: 0.1 + 0.12 * j for j, n in enumerate(names)}
        blocks = {n + '_kwargs': {'x': xs[n]} for n in names}
        for T in (600., np.array([550., 900.])):
            got = sp.get_HoRT(T=T, **blocks)
            want = bare.get_HoRT(T=T) + sum(m.get_HoRT(x=xs[m.name_j], T=T) for m in covs)
            ok = np.allclose(got, want, rtol=1e-12, atol=1e-12)
            bad += not ok
            print('%-8s coverage effects of %-28s T=%-12s got %-28s want %-28s %s'
                  % (kind, ','.join(names), T, np.round(got, 6), np.round(want, 6), 'ok' if ok else 'WRONG'))
print('WRONG' if bad else 'all ok')
sys.exit(1 if bad else 0)
