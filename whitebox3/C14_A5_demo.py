"""C14_A5: Reaction.from_string keeps the reactions it built in a module-level table keyed by class, string, delimiters
and options - not by the species dictionary. The same string parsed with another dictionary gives back the species of
the first one, and a dictionary that lacks a species is no longer noticed.
exit 1 / WRONG with the change, exit 0 without. The tree is taken from PYTHONPATH."""
import sys
from pmutt.reaction import Reaction


class Sp:
    def __init__(self, name, tag):
        self.name, self.tag = name, tag

    def __repr__(self):
        return '%s<%s>' % (self.name, self.tag)


names = ('H2', 'O2', 'H2O', 'H2O_TS')
nasa = {n: Sp(n, 'nasa') for n in names}
statmech = {n: Sp(n, 'statmech') for n in names}
text = 'H2 + 0.5O2 = H2O_TS = H2O'
bad = 0

first = Reaction.from_string(text, nasa)
ok = first.reactants == [nasa['H2'], nasa['O2']] and first.products == [nasa['H2O']]
print('%-5s %r with the NASA species -> %s %s -> %s' % ('ok' if ok else 'WRONG', text, first.reactants,
                                                     first.transition_state, first.products))
bad += not ok

second = Reaction.from_string(text, statmech)
ok = all(a is b for a, b in zip(second.reactants + second.transition_state + second.products,
                                [statmech['H2'], statmech['O2'], statmech['H2O_TS'], statmech['H2O']]))
print('%-5s %r with the statmech species -> %s %s -> %s' % ('ok' if ok else 'WRONG', text, second.reactants,
                                                         second.transition_state, second.products))
bad += not ok

incomplete = {n: statmech[n] for n in ('H2', 'H2O', 'H2O_TS')}
try:
    r = Reaction.from_string(text, incomplete)
    got = 'no error: %s -> %s' % (r.reactants, r.products)
    ok = False
except KeyError as e:
    got = 'KeyError: %s' % e
    ok = '"O2"' in str(e)
print('%-5s %r with a dictionary without O2 -> %s' % ('ok' if ok else 'WRONG', text, got))
bad += not ok

# print -> parse with the species of the printed reaction
printed = Reaction([statmech['H2'], statmech['O2']], [2., 1.], [statmech['H2O']], [2.]).to_string()
Reaction.from_string(printed, nasa)
back = Reaction.from_string(printed, statmech)
ok = back.reactants == [statmech['H2'], statmech['O2']] and back.products == [statmech['H2O']]
print('%-5s printed %r, parsed back -> %s -> %s' % ('ok' if ok else 'WRONG', printed, back.reactants, back.products))
bad += not ok
sys.exit(1 if bad else 0)
