"""C19 / B2 (equivalent refactoring): get_GoRT_1D collects the table in one pass over the grid, one column after the
other, in a flat list and shapes it with reshape((n_reactions, n_grid), order='F') (column-major = column after column).
The same floating-point operations on the same operands as before: dG/nf, then times (R*T).
Compares the tree's get_GoRT_1D/get_GoRT_2D bit for bit (values, shapes, dtypes, tuple protocol) with a literal copy of
the original algorithm (f5552c6) on a spread of inputs: 1-8 reactions, 1-30 grid values, lists / arrays / ranges,
T / P / per-species (O2_kwargs) scans with further fixed conditions, NaN entries, with and without units (kJ/mol, eV),
factors as list / tuple / array / ints / negative / default, 2-D scans in both orders.
Exit 0 when everything is identical (on the original tree and on the refactored one)."""
import sys
import itertools
import warnings
import numpy as np
from pmutt import constants as c
from pmutt.reaction import Reaction
from pmutt.reaction.phasediagram import PhaseDiagram


class Sp:
    def __init__(self, name, h, s, elements, gas=False):
        self.name, self.h, self.s, self.elements, self.gas = name, h, s, elements, gas
        self.phase = 'G' if gas else 'S'

    def get_GoRT(self, T=298.15, P=1., **kwargs):
        return self.h / T - self.s + (np.log(P) if self.gas else 0.)

    def get_G(self, units, T=298.15, **kwargs):
        return self.get_GoRT(T=T, **kwargs) * T * c.R('{}/K'.format(units))


def ref_1D(pd, x_name, x_values, G_units=None, **kwargs):
    GoRT = np.zeros(shape=(len(pd.reactions), len(x_values)))
    for i, (reaction, norm_factor) in enumerate(zip(pd.reactions, pd.norm_factors)):
        for j, x in enumerate(x_values):
            kwargs[x_name] = x
            GoRT[i, j] = reaction.get_delta_GoRT(**kwargs) / norm_factor
            if G_units is not None:
                GoRT[i, j] *= c.R('{}/K'.format(G_units)) * kwargs['T']
    return GoRT, np.nanargmin(GoRT, axis=0)


def ref_2D(pd, x1_name, x1_values, x2_name, x2_values, G_units=None, **kwargs):
    GoRT = np.zeros(shape=(len(pd.reactions), len(x1_values), len(x2_values)))
    for i, (reaction, norm_factor) in enumerate(zip(pd.reactions, pd.norm_factors)):
        for j, x1 in enumerate(x1_values):
            kwargs[x1_name] = x1
            for k, x2 in enumerate(x2_values):
                kwargs[x2_name] = x2
                GoRT[i, j, k] = reaction.get_delta_GoRT(**kwargs) / norm_factor
                if G_units is not None:
                    GoRT[i, j, k] *= c.R('{}/K'.format(G_units)) * kwargs['T']
    GoRT_T = GoRT.transpose((1, 2, 0))
    stable = np.zeros((len(x1_values), len(x2_values)))
    for i, row in enumerate(GoRT_T):
        stable[i, :] = np.nanargmin(row, axis=1)
    return GoRT, stable


def same(a, b):
    a, b = np.asarray(a), np.asarray(b)
    return a.dtype == b.dtype and a.shape == b.shape and np.array_equal(a, b, equal_nan=True)


def same_result(got, want):
    """a 2-tuple (or a tuple subclass) that unpacks and indexes like (GoRT, stable_phases), bit for bit"""
    if not (isinstance(got, tuple) and len(got) == 2):
        return False
    G, st = got
    return same(G, want[0]) and same(st, want[1]) and got[0] is G and got[1] is st and \
        isinstance(G, np.ndarray) and isinstance(st, np.ndarray)


warnings.simplefilter('ignore')
rng = np.random.RandomState(19)
sp = {'M': Sp('M', 0., 0., {'M': 1}), 'O2': Sp('O2', 0., 25., {'O': 2}, gas=True)}
strs = ['M = M']
for n, (a, b) in enumerate(itertools.product((1, 2, 3), (1, 2, 3))):
    name = 'M%dO%d' % (a, 2 * b)
    sp[name] = Sp(name, -20000. * (a + b) + rng.uniform(-9000, 9000), rng.uniform(2, 12), {'M': a, 'O': 2 * b})
    strs.append('%dM + %dO2 = %s' % (a, b, name))
all_rx = [Reaction.from_string(s, sp) for s in strs]
bad = n_cases = 0
for nr in range(1, 9):
    rx = all_rx[:nr]
    for kind in ('default', 'list', 'array', 'ints', 'tuple', 'negative'):
        nf = {'default': None, 'list': list(rng.uniform(0.3, 4., nr)), 'array': rng.uniform(0.3, 4., nr),
              'ints': [int(v) for v in rng.randint(1, 5, nr)], 'tuple': tuple(rng.uniform(0.3, 4., nr)),
              'negative': list(rng.uniform(-4, -0.3, nr))}[kind]
        pd = PhaseDiagram(rx, norm_factors=nf)
        for units in (None, 'kJ/mol', 'eV'):
            nx = int(rng.randint(1, 31))
            grids = {'T': [list(rng.uniform(300, 2500, nx)), np.linspace(400., 2400., nx), range(300, 300 + 70 * nx, 70),
                           np.arange(300, 300 + 70 * nx, 70)],
                     'P': [list(10. ** rng.uniform(-30, 2, nx)), np.logspace(-30, 0, nx), [1] * nx,
                           [-1.] + list(10. ** rng.uniform(-30, 2, nx - 1))],
                     'O2_kwargs': [[{'P': p} for p in 10. ** rng.uniform(-30, 2, nx)]]}
            for x_name, fixed in (('T', {'P': 1e-9}), ('T', {}), ('P', {'T': 777.}), ('P', {'T': 1500, 'V': 3.}),
                                  ('O2_kwargs', {'T': 900., 'P': 1.}), ('T', {'O2_kwargs': {'P': 1e-12}})):
                for xs in grids[x_name]:
                    got = pd.get_GoRT_1D(x_name, xs, G_units=units, **dict(fixed))
                    want = ref_1D(pd, x_name, xs, G_units=units, **dict(fixed))
                    n_cases += 1
                    if not same_result(got, want):
                        bad += 1
                        print('DIFFERENT 1D nr=%d factors=%s units=%s scan=%s fixed=%s' % (nr, kind, units, x_name, fixed))
            for (n1, n2), (a, b) in itertools.product((('T', 'P'), ('P', 'T')), ((0, 1), (1, 3), (3, 0))):
                x1, x2 = grids[n1][a], grids[n2][b]
                x1, x2 = x1[:7], x2[:5]
                got = pd.get_GoRT_2D(n1, x1, n2, x2, G_units=units)
                want = ref_2D(pd, n1, x1, n2, x2, G_units=units)
                n_cases += 1
                if not same_result(got, want):
                    bad += 1
                    print('DIFFERENT 2D nr=%d factors=%s units=%s %s x %s' % (nr, kind, units, n1, n2))
        # the diagram itself is left as it was
        if nf is not None and not same(pd.norm_factors, nf):
            bad += 1
            print('factors changed')
print('%d cases compared, %d different' % (n_cases, bad))
sys.exit(1 if bad else 0)
