"""C13_A2 - Nasa9 array branch: loop over the segments outside, the temperatures inside, values accumulated with +=.
A temperature on the common bound of two segments (1000 K for the usual 200-1000-6000 K fit) is answered by both
segments: polynomial AND every attached correction are added twice (array T only; the scalar branch is untouched).
Exit 1 / WRONG with the change, exit 0 without."""
import sys, warnings
import numpy as np
from pmutt.empirical.nasa import Nasa9, SingleNasa9
from pmutt.empirical import GasPressureAdj
from pmutt.mixture.cov import PiecewiseCovEffect
warnings.simplefilter('ignore')

# H2O, NASA9 coefficients (two ranges meeting at 1000 K)
lo = SingleNasa9(T_low=200., T_high=1000.,
                 a=[-3.94796083E+04, 5.75573102E+02, 9.31782653E-01, 7.22271286E-03, -7.34255737E-06,
                    4.95504349E-09, -1.33693325E-12, -3.30397431E+04, 1.72420578E+01])
hi = SingleNasa9(T_low=1000., T_high=6000.,
                 a=[1.03497210E+06, -2.41269856E+03, 4.64611078E+00, 2.29199831E-03, -6.83683048E-07,
                    9.42646893E-11, -4.82238053E-15, -1.38428651E+04, -7.97814851E+00])
bad = 0


def check(label, got, want):
    global bad
    ok = np.allclose(got, want, rtol=1e-10, atol=1e-10)
    print('%-58s got %-40s want %-40s %s' % (label, np.round(got, 5), np.round(want, 5), 'ok' if ok else 'WRONG'))
    bad += not ok


for phase, misc in (('G', None), ('gas', [GasPressureAdj()]),
                    ('S', [PiecewiseCovEffect(name_i='H2O(S)', name_j='CO(S)', intervals=[0., 0.4], slopes=[-20., -35.])])):
    sp = Nasa9(name='H2O', nasas=[lo, hi], phase=phase, misc_models=misc)
    cond = {'P': 10.} if phase != 'S' else {'x': 0.25}
    Ts = [500., 1000., 1500.]
    for q in ('get_CpoR', 'get_HoRT', 'get_SoR', 'get_GoRT'):
        scalar = np.array([getattr(sp, q)(T=T, **cond) for T in Ts])       # element by element
        check('%-4s %-8s T=[500,1000,1500] %s' % (phase, q, cond), getattr(sp, q)(T=np.array(Ts), **cond), scalar)
    # the correction alone: S(P) - S(1 bar) = -ln P for every element / H(x) - H(0) = coverage energy / RT
    if phase != 'S':
        d = sp.get_SoR(T=np.array(Ts), P=10.) - sp.get_SoR(T=np.array(Ts), P=1.)
        check('%-4s S(10 bar) - S(1 bar), array T' % phase, d, -np.log(10.) * np.ones(3))
        d = sp.get_G(T=np.array(Ts), units='kJ/mol', P=10.) - sp.get_G(T=np.array(Ts), units='kJ/mol', P=1.)
        from pmutt import constants as c
        check('%-4s G(10 bar) - G(1 bar) [kJ/mol], array T' % phase, d, np.log(10.) * c.R('kJ/mol/K') * np.array(Ts))
    else:
        d = sp.get_HoRT(T=np.array(Ts), x=0.25) - sp.get_HoRT(T=np.array(Ts), x=0.)
        check('S    H(x=.25) - H(x=0), array T', d, [misc[0].get_HoRT(x=0.25, T=T) for T in Ts])
print('WRONG' if bad else 'all ok')
sys.exit(1 if bad else 0)
