"""C18 A3: continuation lines of obj_to_cti when the first-line width is larger than the width of the other lines
(the phases ask for exactly that for their name= field: line_len=max_line_len-15, max_line_len=max_line_len-16).
Exit 1 / WRONG when a line is longer than its limit although every token on it could fit, exit 0 otherwise."""
import sys

from pmutt.io.cantera import obj_to_cti


def too_long(text, line_len, max_line_len):
    """lines that exceed their limit although they do not consist of a single token that cannot fit (the reading of
    the property the checker itself uses: a token of up to line_len - 3 characters has room on a line)"""
    bad = []
    for k, line in enumerate(text.split('\n')):
        limit = line_len if k == 0 else max_line_len
        items = line.split()
        if len(line) > limit and (len(items) > 1 or len(items[0].lstrip('"')) <= line_len - 3):
            bad.append((k, len(line), limit))
    return bad


bad = 0
cases = [(['H2O(S)', 'A' * 30, 'CO(S)', 'B' * 30, 'OH(S)'], 33, 32),
         (['H2O(S)', 'A' * 29, 'CO(S)', 'B' * 29, 'OH(S)'], 32, 31),
         (['x' * 10, 'y' * 28, 'z' * 28, 'w' * 5], 31, 30),
         (['H2O(S)', 'A' * 30, 'CO(S)', 'B' * 30, 'OH(S)'], 33, 33),        # control: equal widths
         (['H2O(S)', 'A' * 29, 'CO(S)', 'B' * 29, 'OH(S)'], 32, 60)]        # control: the usual relation
for toks, line_len, max_line_len in cases:
    for obj in (toks, tuple(toks), ' '.join(toks)):
        text = obj_to_cti(obj, line_len=line_len, max_line_len=max_line_len)
        assert text.strip('"').split() == toks, 'tokens changed'
        b = too_long(text, line_len, max_line_len)
        print('%-5s line_len=%d max_line_len=%d given as %-5s: line lengths %s%s'
              % ('WRONG' if b else 'ok', line_len, max_line_len, type(obj).__name__,
                 [len(l) for l in text.split('\n')],
                 ''.join('; line %d has %d characters, limit %d' % x for x in b)))
        bad += bool(b)
print('WRONG: %d results' % bad if bad else 'all right')
sys.exit(1 if bad else 0)
