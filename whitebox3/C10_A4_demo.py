"""C10_A4: a species with references evaluated at T and P (the pressure is a condition of the modes; the references
do not use it).  The shift against use_references=False must be -(sum offset*n)*T_ref/T for HoRT and GoRT and
-(sum offset*n)*R*T_ref for H, whatever other conditions are passed.  Exit 1 / WRONG otherwise."""
import sys
import warnings

import numpy as np

from pmutt import constants as c
from pmutt.empirical.references import Reference, References
from pmutt.statmech import StatMech

warnings.simplefilter('ignore')
T0 = c.T0('K')


class Dft:
    """stands for the statistical-mechanical model of a species: H/RT = h0 * T0 / T (constant energy)"""

    def __init__(self, h0):
        self.h0 = h0

    def get_HoRT(self, T):
        return self.h0 * T0 / T

    def get_SoR(self, T):
        return 0.

    def get_GoRT(self, T):
        return self.get_HoRT(T) - self.get_SoR(T)

    def get_CpoR(self, T):
        return 0.


true_offset = {'C': -378.585, 'H': -131.75, 'O': -192.426}      # H_dft - H_exp per atom, in RT units
species = {'H2': {'H': 2}, 'H2O': {'H': 2, 'O': 1}, 'CH4': {'C': 1, 'H': 4}}
h_dft = {'H2': -263.5, 'H2O': -553.467, 'CH4': -935.679}
h_exp = {n: h_dft[n] - sum(true_offset[e] * k for e, k in comp.items()) for n, comp in species.items()}


def reference(n):
    return Reference(name=n, elements=dict(species[n]), T_ref=T0, HoRT_ref=h_exp[n], model=Dft(h_dft[n]))


def reproduced(refs):
    """number of reference species whose adjusted enthalpy is not the experimental one"""
    bad = 0
    for n, comp in species.items():
        sp = StatMech(name=n, elec_model=Dft(h_dft[n]), elements=dict(comp), references=refs)
        got = sp.get_HoRT(T=T0)
        ok = abs(got - h_exp[n]) < 1e-6
        print('  %-4s adjusted H/RT %12.4f   experimental %12.4f   %s' % (n, got, h_exp[n], 'ok' if ok else 'WRONG'))
        bad += not ok
    return bad


refs = References(references=[reference(n) for n in species])
bad = 0
for n, comp in species.items():
    sp = StatMech(name=n, elec_model=Dft(h_dft[n]), elements=dict(comp), references=refs)
    want = -sum(true_offset[e] * k for e, k in comp.items())
    for T in (T0, 500., 1000.):
        for conds in ({'T': T}, {'T': T, 'P': 1.}, {'T': T, 'P': 2., 'V': 0.05}):
            try:
                dH = sp.get_HoRT(**conds) - sp.get_HoRT(use_references=False, **conds)
                dG = sp.get_GoRT(**conds) - sp.get_GoRT(use_references=False, **conds)
                dE = sp.get_H(units='kJ/mol', **conds) - sp.get_H(units='kJ/mol', use_references=False, **conds)
            except Exception as e:
                print('WRONG: %s with conditions %s raised %s: %s' % (n, conds, type(e).__name__, e))
                bad += 1
                continue
            ok = abs(dH - want * T0 / T) < 1e-8 and abs(dG - want * T0 / T) < 1e-8 and \
                abs(dE - want * c.R('kJ/mol/K') * T0) < 1e-6
            if not ok:
                print('WRONG: %s %s: shift of H/RT %r, G/RT %r (expected %r), of H %r kJ/mol (expected %r)'
                      % (n, conds, dH, dG, want * T0 / T, dE, want * c.R('kJ/mol/K') * T0))
                bad += 1
if bad:
    sys.exit(1)
print('the adjustment is -(sum offset*n)*T_ref/T with and without further conditions (P, V)')
