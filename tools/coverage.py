#!/venv/bin/python
"""Development aid, not a registered check: which statements of the anchored files does the abstract interpretation of
each property's rules actually reach?  Lists, per property, the functions of its anchor files that are never entered
and the statements of entered functions that are never interpreted - candidates for instances a rule does not
enumerate.  usage: tools/coverage.py [C07 ...] [--repo DIR] [--all-files]"""
import ast
import importlib
import io
import json
import os
import sys
import contextlib
sys.setrecursionlimit(12000)
HERE = os.path.dirname(os.path.dirname(os.path.abspath(__file__)))
sys.path.insert(0, HERE)
from pmv import xlate                      # noqa: E402
from pmv.report import Run                 # noqa: E402
from pmv.source import Repo                # noqa: E402


def main():
    args = sys.argv[1:]
    repo_dir = '/repo'
    if '--repo' in args:
        i = args.index('--repo')
        repo_dir = args[i + 1]
        del args[i:i + 2]
    props = [json.loads(l) for l in open(os.path.join(HERE, 'properties.jsonl'))]
    want = [a.upper() for a in args if not a.startswith('--')] or [p['id'] for p in props]
    total = set()
    for p in props:
        if p['id'] not in want:
            continue
        xlate.COVER = set()
        xlate.ARGCOVER = {}
        xlate.VISITED.clear()
        repo = Repo(repo_dir)
        run = Run(p['id'], 'quick', 0, repo)
        mod = importlib.import_module('pmv.rules.%s' % p['id'].lower())
        with contextlib.redirect_stdout(io.StringIO()):
            mod.check(run, repo)
        cov = xlate.COVER
        total |= cov
        print('== %s: %d statements interpreted' % (p['id'], len(cov)))
        for f in p['anchors']['files']:
            path = os.path.join(repo_dir, f)
            if not os.path.exists(path):
                continue
            modname = f[:-3].replace('/', '.')
            if modname.endswith('.__init__'):
                modname = modname[:-9]
            tree = ast.parse(open(path).read())
            lines = {ln for m_, ln in cov if m_ == modname}
            never, partial = [], []
            for node in ast.walk(tree):
                if isinstance(node, (ast.FunctionDef, ast.AsyncFunctionDef)):
                    body = [st for st in ast.walk(node) if isinstance(st, ast.stmt) and st is not node
                            and not (isinstance(st, ast.Expr) and isinstance(st.value, ast.Constant))]
                    hit = [st for st in body if st.lineno in lines]
                    if not hit:
                        never.append('%s:%d' % (node.name, node.lineno))
                    else:
                        miss = sorted({st.lineno for st in body if st.lineno not in lines
                                       and not isinstance(st, (ast.FunctionDef, ast.Import, ast.ImportFrom, ast.Pass))})
                        if miss:
                            partial.append('%s:%d -> %s' % (node.name, node.lineno, miss))
            print('  %s' % f)
            print('    never entered : %s' % ', '.join(never))
            for x in partial:
                print('    partly        : %s' % x)
            fixed = []
            for node in ast.walk(tree):
                if isinstance(node, ast.FunctionDef) and (modname, node.lineno) in xlate.ARGCOVER:
                    rec = xlate.ARGCOVER[(modname, node.lineno)]
                    one = ['%s=%s' % (k, next(iter(v)) if v else '?') for k, v in rec.items() if len(v) <= 1]
                    if one:
                        fixed.append('%s:%d(%s)' % (node.name, node.lineno, ', '.join(one)))
            if fixed:
                print('    never varied  : %s' % '; '.join(fixed))
    xlate.COVER = None
    xlate.ARGCOVER = None


if __name__ == '__main__':
    main()
