#!/venv/bin/python
"""Development aid (not registered in the manifest): every behaviour-preserving seed under /verif/seeded/EQ* (and,
with --dir, the *.diff files of another directory) replayed IN MEMORY against the quick tier of every check (or the
checks named), in parallel. Prints only what is not silent: a new finding (false alarm), an analysis error (refusal) or
a patch that no longer applies.

    tools/eqall.py [C01 C05 ...] [--repo DIR] [--jobs N] [--dir DIR --glob '*_B*.diff']
"""
import fnmatch
import os
import sys
from concurrent.futures import ProcessPoolExecutor

HERE = os.path.dirname(os.path.dirname(os.path.abspath(__file__)))
sys.path.insert(0, HERE)
sys.setrecursionlimit(12000)


def patches(extra_dir, glob):
    out = []
    if extra_dir:
        for n in sorted(os.listdir(extra_dir)):
            if fnmatch.fnmatch(n, glob):
                out.append((n, os.path.join(extra_dir, n)))
        return out
    sd = os.path.join(HERE, 'seeded')
    for n in sorted(os.listdir(sd)):
        pf = os.path.join(sd, n, 'patch.diff')
        if n.startswith('EQ') and os.path.exists(pf):
            out.append((n, pf))
    return out


def one(job):
    prop, root, plist = job
    import importlib.util
    spec = importlib.util.spec_from_file_location('wbtry', os.path.join(HERE, 'tools', 'wbtry.py'))
    wb = importlib.util.module_from_spec(spec)
    argv, sys.argv = sys.argv, ['x']
    spec.loader.exec_module(wb)
    sys.argv = argv
    from pmv.source import Repo
    from pmv.selftest import patch_overrides
    lines = []
    r0, e0 = wb.run_one(prop, root, None)
    if r0 is None:
        return ['%s BASELINE-ERROR %s' % (prop, e0)]
    base = {(f.ident(), f.sig) for f in r0.findings}
    n_ok = 0
    for name, pf in plist:
        ov = patch_overrides(Repo(root), open(pf).read())
        if ov is None:
            lines.append('%s %-12s PATCH-DOES-NOT-APPLY' % (prop, name))
            continue
        r, err = wb.run_one(prop, root, ov)
        if r is None:
            lines.append('%s %-12s exit=2 %s' % (prop, name, err))
            continue
        new = [f for f in r.findings if (f.ident(), f.sig) not in base]
        if new:
            lines.append('%s %-12s exit=1 %s %s [%s] (%d new)' % (prop, name, new[0].rule, new[0].construct, new[0].key,
                                                                  len(new)))
        else:
            n_ok += 1
    lines.append('%s silent on %d of %d' % (prop, n_ok, len(plist)))
    return lines


def main():
    args = sys.argv[1:]
    root, jobs, extra, glob = '/repo', 12, None, '*.diff'
    for opt in ('--repo', '--jobs', '--dir', '--glob'):
        if opt in args:
            i = args.index(opt)
            val = args[i + 1]
            del args[i:i + 2]
            if opt == '--repo':
                root = val
            elif opt == '--jobs':
                jobs = int(val)
            elif opt == '--dir':
                extra = val
            else:
                glob = val
    props = [a.upper() for a in args] or ['C%02d' % i for i in range(1, 21)]
    plist = patches(extra, glob)
    # split the seeds of heavy checks over several jobs
    work = []
    for p in props:
        k = 4
        for j in range(k):
            part = plist[j::k]
            if part:
                work.append((p, root, part))
    with ProcessPoolExecutor(max_workers=jobs) as ex:
        for lines in ex.map(one, work):
            for ln in lines:
                print(ln, flush=True)


if __name__ == '__main__':
    main()
