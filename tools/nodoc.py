"""print python sources without docstrings (reading aid, not part of any check)"""
import ast, sys
def strip(path):
    src = open(path).read()
    t = ast.parse(src)
    for n in ast.walk(t):
        if isinstance(n, (ast.FunctionDef, ast.ClassDef, ast.Module)):
            if n.body and isinstance(n.body[0], ast.Expr) and isinstance(n.body[0].value, ast.Constant) and isinstance(n.body[0].value.value, str):
                n.body = n.body[1:] or [ast.Pass()]
    print('#' * 10, path)
    print(ast.unparse(t))
for p in sys.argv[1:]:
    strip(p)
