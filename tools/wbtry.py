#!/venv/bin/python
"""Development aid: replay the white-box review's changes (/verif/whitebox/Cnn_k.diff) in memory against the check of
their property.  usage: tools/wbtry.py [C07 ...] [--repo DIR]   prints  name  exit  first new finding / error"""
import importlib
import io
import os
import sys
import contextlib
sys.setrecursionlimit(12000)
HERE = os.path.dirname(os.path.dirname(os.path.abspath(__file__)))
sys.path.insert(0, HERE)
from pmv.report import Run, AnalysisError                 # noqa: E402
from pmv.source import Repo, AnchorError, Unsupported     # noqa: E402
from pmv.selftest import patch_overrides                  # noqa: E402


def run_one(prop, root, ov):
    mod = importlib.import_module('pmv.rules.%s' % prop.lower())
    repo = Repo(root, overrides=ov)
    r = Run(prop, 'quick', 0, repo)
    try:
        from pmv.main import run_rules
        with contextlib.redirect_stdout(io.StringIO()):
            run_rules(mod, r, repo)
    except (AnchorError, Unsupported, AnalysisError) as e:
        return None, '%s: %s' % (type(e).__name__, str(e)[:200])
    except Exception as e:                                  # internal error
        return None, 'INTERNAL %s: %s' % (type(e).__name__, str(e)[:200])
    return r, None


def main():
    args = sys.argv[1:]
    root = '/repo'
    if '--repo' in args:
        i = args.index('--repo')
        root = args[i + 1]
        del args[i:i + 2]
    wb = os.path.join(HERE, 'whitebox')
    if '--dir' in args:
        i = args.index('--dir')
        wb = args[i + 1] if os.path.isabs(args[i + 1]) else os.path.join(HERE, args[i + 1])
        del args[i:i + 2]
    names = sorted(f[:-5] for f in os.listdir(wb) if f.endswith('.diff'))
    want = [a.upper() for a in args]
    base_cache = {}
    for n in names:
        prop = n.split('_')[0]
        if want and prop not in want and n.upper() not in want:
            continue
        if prop not in base_cache:
            r0, e0 = run_one(prop, root, None)
            base_cache[prop] = {(f.ident(), f.sig) for f in r0.findings} if r0 is not None else None
        repo = Repo(root)
        ov = patch_overrides(repo, open(os.path.join(wb, n + '.diff')).read())
        if ov is None:
            print('%-12s PATCH-DOES-NOT-APPLY' % n)
            continue
        r, err = run_one(prop, root, ov)
        if r is None:
            print('%-12s exit=2  %s' % (n, err))
            continue
        new = [f for f in r.findings if (f.ident(), f.sig) not in (base_cache[prop] or set())]
        gone = [i_ for i_ in (base_cache[prop] or set()) if i_ not in {(f.ident(), f.sig) for f in r.findings}]
        equiv = '_B' in n           # round 2: behaviour-preserving changes, must stay silent
        if new:
            f = new[0]
            print('%-12s exit=1  %s%s %s [%s] (%d new)%s' % (n, 'FALSE-ALARM ' if equiv else '', f.rule, f.construct,
                                                           f.key, len(new), ' known-gone:%d' % len(gone) if gone else ''))
        else:
            print('%-12s exit=0  %s%s' % (n, 'silent' if equiv else 'MISSED', ' known-gone:%d' % len(gone) if gone else ''))


if __name__ == '__main__':
    main()
