#!/bin/sh
# tools/eqtry.sh C12 /tmp/wt/EQ_C12/SEED  -> copy into /verif/seeded/EQ_C12, apply to /repo, run all quick checks, undo
P=$1; SRC=$2; N=${3:-EQ}_$P
mkdir -p /verif/seeded/$N
[ -n "$SRC" ] && cp $SRC/* /verif/seeded/$N/
git -C /repo status --porcelain --untracked-files=no | grep -q . && { echo "/repo dirty"; exit 3; }
git -C /repo apply /verif/seeded/$N/patch.diff || { echo "patch does not apply"; exit 3; }
EV=$(mktemp -d)
( cd /repo && PYTHONPATH=/repo /venv/bin/python /verif/seeded/$N/demo.py 2>&1 | tail -1 )
for i in 01 02 03 04 05 06 07 08 09 10 11 12 13 14 15 16 17 18 19 20; do
  ( PMV_EVIDENCE_DIR=$EV /verif/check C$i --tier quick --no-selftest > $EV/C$i.log 2>&1; echo "C$i exit=$?" >> $EV/exits ) &
done; wait
git -C /repo checkout -- . ; git -C /repo clean -fdq -- pmutt
sort $EV/exits | grep -v "exit=0" | while read c e; do echo "$c $e"; grep -a "rule=\|ANALYSIS-ERROR" $EV/$c.log | head -4 | cut -c1-330; done
echo "nonzero: $(grep -vc 'exit=0' $EV/exits)"
rm -rf $EV
