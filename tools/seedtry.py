#!/venv/bin/python
"""Try the checks against one seeded change.

    tools/seedtry.py C05 [--from /tmp/wt/C05/SEED] [--all] [--tier quick]

Copies the change into /verif/seeded/<id>/ (when --from is given), confirms it
(test-suite result unchanged in a scratch worktree, demonstration fails with /
passes without the change), applies it to /repo, runs the check(s) with the
evidence redirected to a scratch directory, and undoes it straight afterwards.
Nothing here is registered in MANIFEST.json.
"""
import json
import os
import shutil
import subprocess
import sys
import tempfile

HERE = os.path.dirname(os.path.dirname(os.path.abspath(__file__)))
REPO = '/repo'
PY = '/venv/bin/python'
ALL = ['C%02d' % i for i in range(1, 21)]


def sh(cmd, cwd=None, env=None, timeout=1800):
    p = subprocess.run(cmd, cwd=cwd, env=env, shell=isinstance(cmd, str), stdout=subprocess.PIPE,
                       stderr=subprocess.STDOUT, text=True, timeout=timeout)
    return p.returncode, p.stdout


def confirm(pid, sdir):
    """tests unchanged with the change; demo fails with it and passes without it (scratch worktree)"""
    wt = tempfile.mkdtemp(prefix='seedwt_')
    os.rmdir(wt)
    out = {}
    try:
        rc, o = sh(['git', '-C', REPO, 'worktree', 'add', '-q', '--detach', wt, 'HEAD'])
        assert rc == 0, o
        env = dict(os.environ, PYTHONPATH=wt)
        rc, o = sh([PY, os.path.join(sdir, demo_name(sdir))], cwd=wt, env=env)
        out['demo_without'] = (rc, o.strip().splitlines()[-1:] if o.strip() else [])
        rc, o = sh(['git', 'apply', os.path.join(sdir, 'patch.diff')], cwd=wt)
        assert rc == 0, 'patch does not apply: ' + o
        rc, o = sh([PY, os.path.join(sdir, demo_name(sdir))], cwd=wt, env=env)
        out['demo_with'] = (rc, [l for l in o.strip().splitlines() if 'PROPERTY VIOLATED' in l][:1])
        rc, o = sh(PY + ' -m pytest -ra -q -p no:cacheprovider --timeout=900 --continue-on-collection-errors 2>&1 | tail -1',
                   cwd=wt, env=env)
        out['tests_with'] = o.strip().splitlines()[-1] if o.strip() else ''
    finally:
        sh(['git', '-C', REPO, 'worktree', 'remove', '--force', wt])
        shutil.rmtree(wt, ignore_errors=True)
    return out


def demo_name(sdir):
    for n in ('demo.py', 'demonstration.py'):
        if os.path.exists(os.path.join(sdir, n)):
            return n
    raise SystemExit('no demonstration in ' + sdir)


def run_checks(pid, ids, tier):
    rc, o = sh(['git', '-C', REPO, 'status', '--porcelain', '--untracked-files=no'])
    assert not o.strip(), '/repo is not clean:\n' + o
    sdir = os.path.join(HERE, 'seeded', pid)
    ev = tempfile.mkdtemp(prefix='seedev_')
    res = {}
    try:
        rc, o = sh(['git', '-C', REPO, 'apply', os.path.join(sdir, 'patch.diff')])
        assert rc == 0, o
        env = dict(os.environ, PMV_EVIDENCE_DIR=ev)
        procs = {}
        for cid in ids:
            procs[cid] = subprocess.Popen([os.path.join(HERE, 'check'), cid, '--tier', tier, '--no-selftest'],
                                          stdout=subprocess.PIPE, stderr=subprocess.STDOUT, text=True, env=env)
        for cid, p in procs.items():
            o, _ = p.communicate()
            lines = [l for l in o.splitlines() if l.startswith('VIOLATION') or 'rule=' in l or 'ANALYSIS-ERROR' in l]
            res[cid] = (p.returncode, lines[:12])
    finally:
        sh(['git', '-C', REPO, 'checkout', '--', '.'])
        sh(['git', '-C', REPO, 'clean', '-fdq', '--', 'pmutt'])      # files the change added
        shutil.rmtree(ev, ignore_errors=True)
    return res


def main():
    a = sys.argv[1:]
    pid = a[0]
    src = a[a.index('--from') + 1] if '--from' in a else None
    tier = a[a.index('--tier') + 1] if '--tier' in a else 'quick'
    name = a[a.index('--name') + 1] if '--name' in a else pid
    sdir = os.path.join(HERE, 'seeded', name)
    if src:
        os.makedirs(sdir, exist_ok=True)
        for n in os.listdir(src):
            shutil.copy(os.path.join(src, n), os.path.join(sdir, n))
    conf = None
    if '--no-confirm' not in a:
        conf = confirm(pid, sdir)
        print('confirm:', json.dumps(conf))
    ids = ALL if '--all' in a else [pid]
    res = run_checks(name, ids, tier)
    for cid, (rc, lines) in sorted(res.items()):
        if rc or cid == pid:
            print('%s exit=%d' % (cid, rc))
            for l in lines:
                print('    ' + l[:260])
    mp = os.path.join(sdir, 'meta.json')
    meta = json.load(open(mp))
    if conf:
        meta['confirmed'] = {'tests_with_change': conf['tests_with'],
                             'demo_with_change_exit': conf['demo_with'][0],
                             'demo_without_change_exit': conf['demo_without'][0],
                             'how': 'tools/seedtry.py: scratch worktree of /repo HEAD; demo run before and after git apply; '
                                    'baseline pytest command with the change applied'}
    meta['checks'] = {cid: {'exit': rc, 'first': (lines[1] if len(lines) > 1 else (lines[0] if lines else ''))[:300]}
                      for cid, (rc, lines) in sorted(res.items()) if rc or cid == pid}
    json.dump(meta, open(mp, 'w'), indent=1)


if __name__ == '__main__':
    main()
