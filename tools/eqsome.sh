#!/bin/sh
# tools/eqsome.sh "C01 C04" [PREFIXES...] : run only the named checks against every equivalent seed of the prefixes
CHECKS=$1; shift
for pre in ${@:-EQ EQ2 EQ3}; do for d in /verif/seeded/${pre}_C??; do
  [ -f $d/patch.diff ] || continue
  git -C /repo apply $d/patch.diff || { echo "$d: patch does not apply"; continue; }
  EV=$(mktemp -d)
  for c in $CHECKS; do ( PMV_EVIDENCE_DIR=$EV /verif/check $c --tier quick --no-selftest > $EV/$c.log 2>&1; echo "$c exit=$?" >> $EV/exits ) & done; wait
  git -C /repo checkout -- . ; git -C /repo clean -fdq -- pmutt
  grep -v "exit=0" $EV/exits | while read c e; do echo "$(basename $d) $c $e"; grep -a "rule=\|ANALYSIS-ERROR" $EV/$c.log | head -3 | cut -c1-300; done
  rm -rf $EV
done; done
echo done
