"""Generate /verif/MANIFEST.json from the table below (run after arming a check)."""
import json
import os

HERE = os.path.dirname(os.path.dirname(os.path.abspath(__file__)))

STATIC_NOTE = ('Static analysis only: /repo is parsed with ast on every run; pmutt is never imported or '
               'executed. Trusted base: CPython ast, the pmv normal-form domain (exact Fraction '
               'polynomials), and the enumerated idiom tables in pmv/rules. ')

CLAIMED = {
    'C01': dict(
        technique='abstract interpretation of every mode getter into exact rational normal forms with exp/ln/'
                  'integral atoms; symbolic differentiation; textbook reference forms in the same domain; '
                  'interpretation of StatMech.get_quantity with uninterpreted modes; interpretation of the real '
                  'constructors/setters for cached fields',
        text='Proves over the reals, for all parameter values, T and P at once and for every mode class '
             '(resolved through the MRO): G=H-S, F=U-S, H-U and Cp-Cv = 1 with ideal-gas translation / 0 without, '
             'Cv=d(TU)/dT, Cp=d(TH)/dT, dS/dT=Cp/T, dS/dlnP=-1 for translation, agreement of each closed form '
             'with its textbook expression; that the species total is the sum/product of the verbose per-mode '
             'list, references vanish when switched off, per-species keyword blocks are routed, species-level '
             'G=H-S and F=U-S incl. entropy of elements; that imaginary modes are dropped/substituted and every '
             'cached field is refreshed by the setters; that every documented point-group label resolves to its '
             'documented symmetry number.',
        note=STATIC_NOTE + 'Geometry from a structure: the collinearity classification is decided on a finite set '
             'of angles around the two thresholds; ASE\'s own angle and moment-of-inertia numerics under rigid motions '
             'are not decided; LSR/BEP energies beyond identities; IEEE rounding. pmutt.constants is '
             'modelled as verified by C12.',
        ref='DESIGN.md section 4 C01'),
    'C02': dict(
        technique='abstract interpretation of the polynomial evaluators into exact rational normal forms '
                  '(ast -> Fraction polynomials with exp/ln atoms), symbolic differentiation, ordering '
                  'enumeration for segment selection',
        text='Proves over the reals, for ALL coefficient vectors and temperatures at once, that the NASA-7, '
             'NASA-9 and Shomate evaluators are linear in the coefficients and satisfy d(T*HoRT)/dT = CpoR '
             'and dSoR/dT = CpoR/T slot by slot, that GoRT = HoRT - SoR with identical arguments, that '
             'Nasa.get_a picks the right segment on all 7 orderings of T against T_low<T_mid<T_high, that '
             'Nasa9 evaluates the containing segment and refuses temperatures outside every segment '
             '(1-4 segments, every position), and that array evaluation equals element-wise evaluation '
             '(bounded unrolling, lengths 1-3 quick / 1-5 thorough).',
        note=STATIC_NOTE + 'Identities are over the reals; IEEE rounding and non-numeric T are not decided. '
             'The array/scalar clause is decided up to the stated array length.',
        ref='DESIGN.md section 4 C02'),
    'C03': dict(
        technique='abstract interpretation of from_data/from_model from the public entry points down to np.polyfit / '
                  'curve_fit, which are uninterpreted functions returning fresh symbols and recording their arguments '
                  '(data = vectors of unknown length: generic, constant, zero, NaN; masks tag sub-vectors); normal-form '
                  'identities for fit placement, anchoring and continuity',
        text='Decides the structural part of C03: for all fitted parameters, reference values and break temperatures, '
             'the coefficient vectors of the fitted Nasa/Nasa9/Shomate object have the evaluator\'s length, their Cp '
             'slots come from exactly one least-squares call that was given aligned (same mask) T and Cp data, the '
             'public Cp evaluator applied to them equals the fitted model (coefficients in the right slots, right '
             'weight), consecutive segments use complementary masks, constant non-zero data are fitted and all-zero / '
             'NaN data give zero Cp coefficients; the object reproduces HoRT_ref and SoR_ref at T_ref (T_ref in every '
             'segment), H and S are continuous at every break temperature (NASA-9 with 1-3/4 segments), anchoring '
             'leaves the Cp slots alone, bounds are min/max of the data, from_model samples the reference values from '
             'the same model at the T_ref it passes. It does NOT decide fit quality (tracking of the source), which '
             'depends on polyfit/curve_fit/Nelder-Mead on data.',
        note=STATIC_NOTE + 'np.polyfit/curve_fit are uninterpreted (coefficient order and count are their documented '
             'contract); T_mid is given (the search over candidate break temperatures compares errors on data).',
        ref='DESIGN.md section 4 C03'),
    'C18': dict(
        technique='abstract interpretation over abstract strings: identifiers = symbolic prefix + literal delimiter + '
                  'suffix N+k (symbolic base, concrete offsets, known printed width); tokens = symbolic text of '
                  'concrete width; emitted ranges re-expanded and compared as sets',
        text='Decides for 4 prefix shapes (short, long, empty, containing the delimiter) x 6 offset patterns (single, '
             'unsorted, gaps, duplicates) x 2 suffix widths x optional second interleaved prefix x strings/objects-with-'
             'id that the emitted ranges denote exactly the identifiers given (none lost or added), each spelled as it '
             'came, that list and string forms agree, that non-string ids and non-integer suffixes (letters, 1.5, 1e3) are '
             'rejected; and for '
             '10+ token-width patterns x 5 width settings that obj_to_cti keeps every token once and in order, adds only '
             'separators, and lets no line exceed its limit unless it holds a single token.',
        note=STATIC_NOTE + 'Prefix parts are letter strings; suffixes are base+offset integers; bounded to the '
             'enumerated patterns of offsets and widths (the code is uniform in the values).',
        ref='DESIGN.md section 4 C18'),
    'C19': dict(
        technique='abstract interpretation with uninterpreted reactions; np.nanargmin modelled as an uninterpreted '
                  'arg-min that keeps its candidate list (axis check); ordering-oracle enumeration for the energy span',
        text='Decides that every tabulated phase-diagram entry is the reaction\'s delta G/RT at that grid point divided '
             'by its normalisation factor (times RT iff units), that the arg-min runs over the reactions at each grid '
             'point in both the 1-D and 2-D scans (1-3 reactions, 1-4 x 1-3 grids), and, for every ordering of the state '
             'energies of sequences of 1-3 steps with/without transition states and network paths of 2-4 states, that '
             'the energy span is highest minus lowest plus last minus first iff the highest state precedes the lowest, '
             'and that a Network built by its own constructor keeps every state\'s own species and coefficients.',
        note=STATIC_NOTE + 'NaN handling and ties are not decided; bounded to the enumerated sizes (code uniform in them).',
        ref='DESIGN.md section 4 C19'),
    'C20': dict(
        technique='abstract interpretation of the EOS getters into rational normal forms; polynomial identity of the '
                  'cubic handed to np.roots',
        text='Proves for all states that the ideal-gas getters are the four solutions of PV=nRT (12 solve-and-'
             'substitute round trips), that van der Waals get_T/get_P invert each other, that the cubic given to '
             'np.roots is Vm^2[(P+a/Vm^2)(Vm-b)-RT] so every root satisfies get_P, that gas/liquid use the max/min '
             'real root, V=n*Vm, n=V/Vm, from_critical round-trips Tc and Pc, Vc=3nb and a=b=0 gives the ideal gas.',
        note=STATIC_NOTE + 'np.roots is trusted to return the roots of its argument; numerics of root finding and the '
             'low-density limit as a limit are not decided.',
        ref='DESIGN.md section 4 C20'),
    'C04': dict(
        technique='abstract interpretation of every dimensional getter and its dimensionless twin (enumerated from '
                  'the class table through the MRO) into normal forms with uninterpreted species/mix atoms named by '
                  'their arguments; identity check wrapper == twin*R(units)[*T] per unit string',
        text='Decides for every dimensional getter of every mode class, StatMech, Nasa, Nasa9, Shomate, Reaction, '
             'ChemkinReaction, SurfaceReaction and BEP (about 130 wrapper definitions, all (rev, act, state, '
             'S_elements) variants) and for molar, per-molecule and per-mass unit strings of the R table that the '
             'value equals the dimensionless twin times R in that unit (times T, with /K appended, for energies), '
             'R per mass = R(molar)/(molar mass in that mass unit), under identical T, P and options - an option '
             'that is not forwarded changes the normal form and is reported, as is a wrapper that raises where its '
             'twin evaluates.',
        note=STATIC_NOTE + 'pmutt.constants modelled as verified by C12; _force_pass_arguments by its documented '
             'contract; numeric values are not decided here; array T is decided for the empirical classes, the '
             'reactions and StatMech (both forms must answer or refuse alike).',
        ref='DESIGN.md section 4 C04'),
    'C05': dict(
        technique='abstract interpretation of writer and reader over an abstract string domain (literal text + symbolic '
                  'fields of known width and character class); composition reader(writer(x)) compared with x; '
                  'enumeration of field-width combinations',
        text='Decides, for every enumerated combination of field widths (names of 1/8/15 characters, notes absent/short/'
             'full or a date stamp, 1-4 elements with one- and two-letter symbols, 1-3 digit counts and zero-count '
             'entries, temperatures of 3-6 characters, 1-3 species, list/dict input, list/tuple/dict output) and for '
             'all values of those fields at once, that the written records follow the Chemkin columns (80 columns, '
             'record digit in column 80, five 15-character coefficient fields with nine significant digits, composition '
             'cells at columns 25-44, phase in column 45) and that read_thermdat(write_thermdat(species)) rebuilds the '
             'same species in the same order with the same names, phases, compositions, temperatures and all 14 '
             'coefficients; record lines are never classified by a test whose outcome depends on user-controlled text.',
        note=STATIC_NOTE + 'E-format widths assume |exponent| < 100; float()/int() of a single numeric field is taken '
             'to return the number printed there; file I/O is modelled as a list of lines.',
        ref='DESIGN.md section 4 C05'),
    'C06': dict(
        technique='abstract interpretation of the Chemkin writers over abstract strings with a symbolic mechanism (real '
                  'ChemkinReaction objects, uninterpreted species getters); the abstract file text is taken apart again '
                  'and every field compared with the model\'s own value',
        text='Decides for mechanisms with gas, adsorbate, vacancy and bulk species on one and two catalyst sites, gas / '
             'surface / adsorption reactions with and without transition states, three activation methods and two '
             'site-density operations that gas.inp, surf.inp, EAs/EAg.inp, T_flow.inp and tube_mole.inp contain every '
             'element, species, site, adsorbate, bulk species and reaction exactly once in the section where it belongs '
             '(gas-only reactions in the gas files, all others in the surface files), that every declared count equals '
             'the number of entries, and that every number written is the value the model gives under the same '
             'conditions (A or sticking coefficient, beta, Ea by the selected method and unit, site density, occupancy, '
             'density, EA/RT per run, T/P/Q/abyv, mole fractions with 0 for absent species). Read-back: gas.inp and '
             'surf.inp are written through the real writers into a file model and read with the real read_reactions, '
             'whose regular expressions are decided on the abstract lines (pattern literal parsed, field alphabets '
             'partitioned by the pattern\'s own character sets, spans lifted back; three sign/exponent spellings of the '
             'printed numbers): reactants, products, coefficients and equation text are the model\'s, and a '
             'str.replace that can reach into a species name is reported.',
        note=STATIC_NOTE + 'Species names are distinct symbolic texts over the grammar letter + [letters, digits, ( ) * _]; '
             'coefficient values symbolic; E-format widths assume |exponent| < 100; column cosmetics are not decided; '
             're (stdlib) is used as the transfer function of pattern literals on representative spellings, outcomes '
             'that depend on the spelling of a name are reported as notes.',
        ref='DESIGN.md section 4 C06'),
    'C07': dict(
        technique='abstract interpretation of the OpenMKM/Cantera writers and emitters: option values of every kind '
                  'through write_yaml with yaml.dump as a recording serialiser, write_cti/'
                  'write_thermo_yaml with marker objects, species/phase/reaction/BEP/interaction emitters over abstract '
                  'strings and dictionaries; Python\'s evaluate-defaults-once semantics modelled for shared mutable defaults',
        text='Decides (a) that an operating value of any kind (Python or NumPy number, string, string with units, list, '
             'dict, bool) is written under its label - numbers with the unit of the unit system - or rejected, never '
             'dropped, and omitted options stay out; (b) that write_yaml works with everything omitted and routes each '
             'of 22 options alone and together to its documented section/label/unit and writes nothing else; (c) that '
             'write_cti/write_thermo_yaml give every reaction and interaction a unique id before phases are written and '
             'emit every species, reaction, phase, interaction and BEP exactly once with its final id, all sections '
             'present; (d) that phases built without species do not share state and every way of adding species lists it '
             'once with .phase set; (e) that Nasa/Nasa9/Shomate CTI and YAML entries list every coefficient and bound '
             'once in order with name, composition and occupancy, phases list exactly their species and elements with '
             'converted site density/density, SurfaceReaction entries carry equation, id and A/b/Ea equal to the '
             'model\'s values in the requested units (adsorption, user Ea, computed Ea), interactions and BEPs carry '
             'their members and converted parameters; (f) as necessary conditions of "the YAML loads / the CTI is a '
             'valid sequence of directives": what is handed to the serialiser is plain Python data (no NumPy scalars or '
             'arrays, no tuples), the quotes PyYAML puts around ambiguous scalars survive, and every CTI text, spelled '
             'with sample values, parses as a sequence of calls of ctml_writer directives by their keywords with literal '
             'arguments; (g) that the dictionaries of the caller are not written into and a second file does not repeat '
             'the first.',
        note=STATIC_NOTE + 'yaml.dump and Cantera\'s CTI processor themselves are outside the analysis (the number of '
             'coefficients a thermo directive accepts is not checked); user/auto id collisions are not decided.',
        ref='DESIGN.md section 4 C07'),
    'C08': dict(
        technique='abstract interpretation of Reaction/ChemkinReaction/SurfaceReaction with uninterpreted species and '
                  'symbolic stoichiometry; normal-form identities; effect check on caller dictionaries',
        text='Decides as identities over arbitrary species functions and stoichiometric coefficients: each *_state '
             'getter is the stoichiometry-weighted sum (product of powers for q) over the named state, each delta for '
             'the four (rev, act) combinations is final minus initial, reversal flips the sign, forward minus reverse '
             'activation equals the reaction change, unclamped *_act = delta(act), Keq = exp(-dG/RT) and Kf*Kr = 1, '
             'per-species keyword blocks reach only that species, caller-supplied dictionaries are not modified, and '
             'the network module\'s copy of the state evaluation agrees.',
        note=STATIC_NOTE + 'Species getters are uninterpreted functions of the keyword arguments they accept; fixture '
             'has 2 reactants, 2 products, 1 transition-state species (the loops are uniform in the species).',
        ref='DESIGN.md section 4 C08'),
    'C09': dict(
        technique='abstract interpretation of ChemkinReaction/SurfaceReaction/BEP with uninterpreted species; '
                  'np.max modelled as an uninterpreted extremum whose argument set is compared; normal-form '
                  'identities for BEP barriers and pre-exponential factors',
        text='Decides that activation enthalpies/Gibbs energies handed to kinetic files are max(0, TS barrier if any, '
             'reaction change) in the requested direction under the same conditions (both classes, both directions, '
             'with/without transition state); that BEP barriers are (slope or slope-1)*descriptor+intercept for all 8 '
             'descriptors x 2 directions with the named descriptor evaluated, forward minus reverse equal to the '
             'reaction enthalpy/energy for delta descriptors, the same barrier through a BEP transition-state species '
             'and identical barrier in the U and H offsets; that A = (kB T/h)exp(dS_act)exp(m) resp. (kB T/h)(q_TS/q_IS)'
             'exp(m), kB/h without transition state, divided by (effective site density)^(n_surf-1) for sum/min/max/'
             'mean with 0-2 surface reactants (stoichiometry 1-2).',
        note=STATIC_NOTE + 'Positivity of A follows from the product shape only for positive inputs and is not '
             'decided numerically; which user phases count as surface phases is data dependent.',
        ref='DESIGN.md section 4 C09'),
    'C10': dict(
        technique='abstract interpretation of References (application and the real fitting code) with '
                  'np.linalg.lstsq as an uninterpreted solver; normal-form identities',
        text='Decides that the reference adjustment contributes 0 to Cv, Cp, U, S, that H (and G) receive '
             '-(sum offset*n)*T_ref/T: linear in the composition, temperature independent in energy units, descriptors '
             'absent from the references only warn; and, through the real fit_HoRT_offset code, that for every '
             'reference species adjusted minus experimental enthalpy at T_ref is identically the least-squares residual '
             'of its row (matrix rows, right-hand side dft-exp, offset keyed per descriptor, sign pairing of fit and '
             'application), so a uniquely determined fit reproduces the experiment; refitting after append rebuilds '
             'the system. Disappearance when references are switched off is decided in C01\'s aggregation rule.',
        note=STATIC_NOTE + 'np.linalg.lstsq is trusted (orthogonality of the residual for rank-deficient sets is its '
             'contract); averaging of unequal reference temperatures is not decided.',
        ref='DESIGN.md section 4 C10'),
    'C13': dict(
        technique='abstract interpretation of the empirical getters with 0-3 attached models whose getters are '
                  'uninterpreted and with the real GasPressureAdj/PiecewiseCovEffect, both through the package\'s own '
                  'aggregation over misc_models; interpretation of EmpiricalBase.__init__ over the finite case matrix; '
                  'interpretation of direct to_dict/from_dict cycles',
        text='Decides for Nasa, Nasa9, Shomate x CpoR/HoRT/SoR/GoRT that the value is the bare polynomial plus the sum '
             'over every attached model at the same temperature and conditions, for scalar T and for every element of '
             'arrays (lengths 1-3 quick, 1-5 thorough), for 0-3 attached models; with real models S = poly '
             '- ln P, H = poly + coverage energy/RT, Cp unchanged, G = H - S in both orders; that construction over 9 '
             'phase spellings x misc_models forms x add_gas_P_adj yields exactly one pressure adjustment for gas species '
             'unless disabled, none otherwise, other models kept once; and that direct to_dict/from_dict cycles (twice) '
             'keep the attached models as objects.',
        note=STATIC_NOTE + 'Array clause bounded by the stated length; copy.deepcopy not modelled.',
        ref='DESIGN.md section 4 C13'),
    'C14': dict(
        technique='abstract interpretation of printer and parser over abstract strings (symbolic names, concrete '
                  'coefficients printed as Python prints them); composition parse(print(x)) compared with x; '
                  'interpretation of the balance check with symbolic compositions; regex shape check',
        text='Decides for 5 delimiter pairs x 5 stoichiometry patterns (1, integers, decimals, 1-4 species per side, '
             '0-2 transition-state species) x stoich_space x coefficient format that Reaction.from_string(to_string()) '
             'returns the same species objects, coefficients (to the printed precision) and transition state for all '
             'species names at once; that repeated species are merged by summation, omitted/integer/decimal '
             'coefficients and surrounding blanks are parsed, unknown species (six positions, and the transition state) '
             'raise KeyError whose message names the species that is missing and none that was found; that '
             'check_element_balance accepts reactions balanced by construction and refuses ones unbalanced in the '
             'products or in the transition state (symbolic stoichiometry and compositions); that parse_formula sums '
             'repeated symbols, reads missing counts as one and handles two-letter symbols.',
        note=STATIC_NOTE + 'Names are assumed to contain no delimiter/blank and not to start with a digit (as the '
             'property restricts them); the regular expressions of the parser are decided on the abstract strings '
             '(pmv/absre.py); '
             'Counter\'s dropping of non-positive totals is not modelled.',
        ref='DESIGN.md section 4 C14'),
    'C15': dict(
        technique='abstract interpretation of read_excel and its setters on a mock DataFrame (documented header strings, '
                  'symbolic cell values, empty cells); comparison of the produced records with the documented mapping',
        text='Decides for sheets covering every documented special header (element.X, formula, repeated vib_wavenumber, '
             'rot_temperature, list.name(.i), dict.name.key, nasa.a_low.i/a_high.i, statmech_model for all 5 presets, '
             'every per-mode model name plus the EmptyMode fallback and unknown names) and ordinary columns with '
             'surrounding blanks that there is one record per row in row order containing exactly the non-empty cells, '
             'mapped as documented for all cell values at once; rows with disjoint column subsets show that nothing '
             'leaks between rows and empty cells never appear; the presets table names classes of the right mode.',
        note=STATIC_NOTE + 'pandas (read_excel, duplicate-header mangling, NaN detection) and the ASE/VASP readers are '
             'outside the analysis; the DataFrame is mocked as (header, cell) pairs in column order.',
        ref='DESIGN.md section 4 C15'),
    'C16': dict(
        technique='abstract interpretation of get_net_comp with scipy.optimize.minimize as an uninterpreted, recording '
                  'solver; symbolic differentiation of the objective and constraint handed to it',
        text='NARROW CLAIM - decides only the clauses visible in the code: a failed optimisation (success=False) is '
             'signalled by an exception or by a warning that no filter installed by the package discards; every problem '
             'is built through the public constructor (five networks, model in the network\'s order and in another order '
             'with a species more, dict and list) and asked twice at different conditions; the objective handed to the solver is '
             'sum x_i(g_i + ln(x_i p/n)) with the species\' own G/RT in the order of the amounts and its Jacobian is the '
             'exact gradient (2-4 species); the equality constraint is x.M minus the feed element totals and its '
             'Jacobian is its derivative (M transposed); amounts are bounded below by a positive constant; mole '
             'fractions are x/sum(x); Equilibrium.__init__ interpreted for networks over 1-4 elements (concrete '
             'compositions, symbolic feeds, both species orders) builds the element list, the element matrix, the feed '
             'element totals and the molar masses the property needs. It does NOT decide atom conservation, optimality '
             'or order independence of the composition SLSQP returns.',
        note=STATIC_NOTE + 'SLSQP is an uninterpreted function; everything numeric about the solution is out of reach '
             'of static analysis.',
        ref='DESIGN.md section 4 C16'),
    'C17': dict(
        technique='abstract interpretation of the real constructor/insert/pop/get_UoRT under an '
                  'ordering oracle, exhaustive enumeration of operation sequences up to a bound, comparison with a '
                  'reference sorted pair list',
        text='For 1-3 initial breakpoints and every sequence of up to 2 (quick) / 3 (thorough) inserts (below, between, '
             'equal to, above the existing breakpoints) and pops, decides symbolically (all slopes, all breakpoint '
             'values consistent with the ordering) that breakpoints stay ascending, slopes stay paired, '
             'and get_UoRT on, between and beyond breakpoints (continuous, starting at 0) is '
             'slope*x+intercept of the containing piece over RT, independent of T; S=Cv=Cp=0; to_dict/from_dict '
             'rebuilds the same lists.',
        note=STATIC_NOTE + 'Bounded in the number of operations (stated); np.argmax modelled as first-True-or-0.',
        ref='DESIGN.md section 4 C17'),
    'C11': dict(
        technique='abstract interpretation of the real constructors, to_dict, json_to_pmutt/type_to_class/from_dict code '
                  'with symbolic attribute values; structural model of json encode/decode; attribute-wise comparison',
        text='For each of 35 instances covering every serialisable class named by the property (nested: species with '
             'models, references and misc models inside reactions inside reaction sets) decides that encoding succeeds, '
             'the decoded value is an object of the same class (registry entry, class string), every attribute set by the '
             'constructor equals the decoded one for all attribute values at once, the dictionary handed to the decoder '
             'is unchanged, and a second encode/decode cycle reproduces the same dictionary. Each difference is reported '
             'on the innermost class and attribute.',
        note=STATIC_NOTE + 'json.dumps/loads modelled structurally (objects through pmuttEncoder.default -> to_dict, '
             'tuples become lists; NumPy integers, iterators, sets and foreign objects are handed to the interpreted '
             'pmuttEncoder.default as json does); list versus ndarray values are not distinguished when comparing; a '
             'number that went through text is the same number only for conversions that lose nothing (str/repr, >= 17 '
             'significant digits).',
        ref='DESIGN.md section 4 C11'),
    'C12': dict(
        technique='table analysis: constant folding of literal tables + abstract interpretation of the '
                  'lookup functions (ast, exact Fractions)',
        text='Decides, for every key/pair/triple of the literal tables in pmutt/constants.py, that '
             'convert_unit has the shape num*U[final]/U[initial] within a type (hence reflexive, '
             'invertible, transitive), refuses cross-type and unknown units, that the twelve temperature '
             'maps compose exactly, that derived and composite entries and every R/kb/h/c/P0/T0/V0/m_e/m_p '
             'value equal their definition within the rounding of the written literals, that the '
             'spectroscopic helpers are mutually inverse rational functions, and that element tables agree '
             'between atomic number and symbol. Exhaustive over the tables, which the sampled unit tests are not.',
        note=STATIC_NOTE + 'Not decided: agreement with CODATA; IEEE rounding of the arithmetic.',
        ref='DESIGN.md section 4 C12'),
}

PENDING_REASON = 'not claimed yet: the static check for this property is still under construction in /verif'

ALL = ['C%02d' % i for i in range(1, 21)]


def main():
    checks = []
    for pid in ALL:
        if pid not in CLAIMED:
            continue
        c = dict(CLAIMED[pid])
        if pid in HISTORIES:
            c['text'] = c['text'].rstrip() + ' ' + HISTORIES[pid]
        checks.append({
            'property_id': pid,
            'quick_cmd': './check %s --tier quick' % pid,
            'thorough_cmd': './check %s --tier thorough' % pid,
            'evidence_file': '/verif/evidence/%s.json' % pid,
            'replay_cmd_template': './check %s --replay {path}' % pid,
            'engine': 'pmv',
            'level_claimed': {'category': 'other', 'text': c['text'], 'design_ref': c['ref']},
            'level_note': c['note'],
            'technique': c['technique'],
        })
    na = [{'property_id': p, 'reason': NOT_APPLICABLE.get(p, PENDING_REASON)}
          for p in ALL if p not in CLAIMED]
    man = {
        'version': 1,
        'setup_cmd': '/venv/bin/python -B -c "import ast,sys; sys.path.insert(0,\'/verif\'); import pmv.main"',
        'hooks': {
            'guard': 'PMUTT_VERIF',
            'enable': 'none needed: the checks read /repo sources with ast and never build or import pmutt',
            'baseline_off_cmd': 'cd /repo && /venv/bin/python -m pytest -ra -q -p no:cacheprovider --timeout=900 '
                                '--continue-on-collection-errors',
            'source_commits': [],
            'add_only': True,
        },
        'engines': [{
            'name': 'pmv',
            'path': '/verif/pmv',
            'serves_properties': [c['property_id'] for c in checks],
            'kind_free_text': 'stdlib-only static analyser: ast class/MRO index, literal table folding, '
                              'syntax-directed abstract interpreter into exact rational normal forms, '
                              'per-property rule modules; no execution of pmutt',
        }],
        'checks': checks,
        'not_applicable': na,
        'notes': 'Exit codes: 0 hold (KNOWN-FINDING lines for listed defects), 1 VIOLATION, 2 ANALYSIS-ERROR '
                 '(anchor vanished / construct outside the accepted fragment / floor or canary failure). '
                 'Known findings: /verif/known_findings.json.',
    }
    with open(os.path.join(HERE, 'MANIFEST.json'), 'w') as fh:
        json.dump(man, fh, indent=1)
        fh.write('\n')


NOT_APPLICABLE = {}

# history instances added after the black-box rounds 6 and 7 (DESIGN.md 8.10, 8.11): what is decided about state that
# survives between calls
HISTORIES = {
    'C01': 'History: one numpy array with an imaginary mode handed to two vibrational models (setter and constructor) - '
           'the second answers like a model built from a list of the same numbers and the caller\'s array is unchanged.',
    'C07': 'Histories: the element set of a phase after a species is taken out and another put in between two reads; '
           'two BEP relations built from lists the caller holds (shared, one list for both directions, edited '
           'afterwards) are each written with exactly the reactions built with them.',
    'C09': 'History: after any of seven sequences of questions and public re-assignments of descriptor, slope and '
           'intercept a BEP answers like a BEP freshly built from the settings it shows.',
    'C10': 'A rank-deficient square composition matrix must not reach the exact solver on its way to least squares '
           '(square rank-deficient reference set, refitted after append and pop).',
    'C12': 'For units with a factor but no declared type: from a fresh state they convert with units of at most one '
           'quantity type, and after one unobserved conversion every answer equals the fresh-state answer.',
    'C18': 'History: four calls in one state with alternating delimiters answer exactly as the same call does on a '
           'fresh state.',
    'C19': 'History: normalisation factors assigned other values between two scans - the second table and stable '
           'phases use the factors the diagram shows at that moment.',
}

if __name__ == '__main__':
    main()
