"""validate MANIFEST.json and evidence/*.json against the harness schemas (python3-vt has jsonschema)"""
import json, glob, sys, jsonschema
man = json.load(open('/verif/MANIFEST.json'))
jsonschema.validate(man, json.load(open('/root/.vp/MANIFEST.schema.json')))
es = json.load(open('/root/.vp/EVIDENCE.schema.json'))
bad = 0
for c in man['checks']:
    try:
        jsonschema.validate(json.load(open(c['evidence_file'])), es)
    except Exception as e:
        bad += 1
        print('EVIDENCE', c['property_id'], str(e)[:300])
print('manifest ok; checks', len(man['checks']), 'not_applicable', len(man.get('not_applicable', [])), 'bad evidence', bad)
sys.exit(1 if bad else 0)
