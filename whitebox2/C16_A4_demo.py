"""C16 A4: the convergence test looks at one exit code of the solver (9, iteration limit) instead of the success flag.
SLSQP also gives up with exit codes 2, 4, 6 (and returns its starting point or a half-way point).
Exit 1 / 'WRONG' when a composition that does not conserve the atoms of the feed is returned without a signal."""
import os
import sys
import warnings
import numpy as np
import pmutt
from pmutt.io.thermdat import read_thermdat
from pmutt.equilibrium import Equilibrium

TD = os.path.join(os.path.dirname(pmutt.__file__), 'tests', 'equilibrium', 'thermdat_equilibrium_unittest.txt')
model = read_thermdat(TD, 'dict')
cases = [({'CH2CHCH3': 1.0, 'CH2CH2': 0.0, 'H2O': 2.0}, 500., 1.),      # SLSQP exit code 4
         ({'H2O': 1.0, 'CH3CH3': 2.0}, 1500., 10.),                      # exit code 2 (2 species, 3 elements)
         ({'CH2CH2': 2.0, 'CH2CHCH3': 0.0, 'CO2': 10.0}, 1000., 1.)]     # exit code 4
wrong = False
for network, T, P in cases:
    eq = Equilibrium(model, network)
    with warnings.catch_warnings(record=True) as rec:
        warnings.simplefilter('always')
        try:
            r = eq.get_net_comp(T=T, P=P)
        except Exception as e:
            print('exception %r' % e)
            continue
    signalled = any('converge' in str(w.message) for w in rec)
    atoms = np.asarray(r.moles).dot(eq.mol_elem)
    err = np.max(np.abs(atoms - eq.ele_feed)/eq.ele_feed)
    print('%s T=%g P=%g -> moles %s; atoms %s %s, feed atoms %s; signalled=%s' % (
        network, T, P, np.round(r.moles, 6), [str(e) for e in eq.elements], np.round(atoms, 6),
        np.round(eq.ele_feed, 6), signalled))
    if err > 1e-6 and not signalled:
        print('   WRONG: atoms not conserved (rel. error %.2g) and nothing was signalled' % err)
        wrong = True
sys.exit(1 if wrong else 0)
