"""C15_B3: the presets table of pmutt.statmech is written with dict(idealgas={...}, ...) instead of a dictionary
display - the same dictionary object content, key order included - behaviour preserving.

The script writes one workbook with 20 worksheets (random subsets / orders of ordinary and special columns, padded
headers and cells, 1-30 vib_wavenumber columns, empty cells, 1-60 rows, integer / float / zero / negative / tiny
numbers, sheet names with blanks, a sheet without comment row, sheets with an unknown preset / model, a sheet with
the header only), calls read_excel 50 times (default sheet, sheets by name and by position, positional arguments,
skiprows / header / pandas options, error cases) and compares a digest of everything returned or raised (values,
types, key order, error type and text) and of the presets table with the digest recorded on the original tree
dcdf1e7. Exit 0 = identical. The tree is taken from PYTHONPATH.
Use --dump FILE to write the full text that is hashed (to diff the outputs of two trees).
"""
EXPECTED = "9a33853959740ff916113ae7978b49a9e4dc8640fd26a0882d91eda8a056ea15"
import hashlib
import os
import random
import sys
import tempfile
import warnings

import numpy as np
import openpyxl

warnings.filterwarnings('ignore')
from pmutt.io.excel import read_excel
import pmutt.statmech as sm


def canon(v):
    """canonical, printable form of a value read_excel may return (key order kept)"""
    if isinstance(v, dict):
        return ('dict', [(canon(k), canon(x)) for k, x in v.items()])
    if isinstance(v, np.ndarray):
        return ('ndarray', str(v.dtype), [canon(x) for x in v.tolist()])
    if isinstance(v, (list, tuple)):
        return (type(v).__name__, [canon(x) for x in v])
    if isinstance(v, type):
        return ('class', v.__module__ + '.' + v.__qualname__)
    if isinstance(v, (bool, np.bool_)):
        return ('bool', bool(v))
    if isinstance(v, (int, np.integer)):
        return ('int', int(v))
    if isinstance(v, (float, np.floating)):
        return ('float', repr(float(v)))
    if isinstance(v, str):
        return ('str', v)
    if v is None:
        return ('None',)
    return ('other', type(v).__name__, repr(v))


def call(*a, **k):
    try:
        return ('ok', canon(read_excel(*a, **k)))
    except Exception as e:      # the kind and text of the error are part of the behaviour
        return ('raised', type(e).__name__, str(e)[:200])


SPECIAL = ['element.H', 'element.O', 'element.Pt', 'formula', 'vib_wavenumber', 'rot_temperature', 'list.sites',
           'list.T2', 'dict.misc.alpha', 'dict.misc.beta', 'dict.initial_state.RU(S)', 'nasa.a_low.0', 'nasa.a_low.3',
           'nasa.a_low.6', 'nasa.a_high.1', 'nasa.a_high.6', 'statmech_model', 'trans_model', 'vib_model', 'rot_model',
           'elec_model', 'nucl_model']
ORDINARY = ['name', 'phase', 'potentialenergy', 'T_low', 'T_high', 'symmetrynumber', 'spin', 'n_degrees', 'notes',
            'mode', 'site_density']
CELLS = {
    'formula': ['H2O', ' CH3OH ', 'Al2O3', 'CO'],
    'statmech_model': ['idealgas', ' IdealGas ', 'harmonic', 'electronic', 'placeholder', 'CONSTANT'],
    'trans_model': ['FreeTrans', 'EmptyMode', ' emptymode '],
    'vib_model': ['HarmonicVib', 'QRRHOVib', ' DebyeVib ', 'EinsteinVib', 'EmptyMode'],
    'rot_model': ['RigidRotor', 'EMPTYMODE'],
    'elec_model': ['GroundStateElec', 'LSR', 'ExtendedLSR', 'emptymode'],
    'nucl_model': ['EmptyNucl', 'EmptyMode'],
    'name': ['H2O', ' CO2 ', 'H2O', 'Pt(S)', 'x'],
    'phase': ['G', ' S ', 'L'],
    'notes': ['-', ' see ref. 3 ', 'n/a?', 'nan-like'],
    'mode': ['fast', 'slow'],
    'list.sites': ['fcc', ' hcp', 'top '],
}


def random_sheet(ws, rng, comment_row=True):
    cols = []
    for h in rng.sample(SPECIAL, rng.randint(3, len(SPECIAL))) + rng.sample(ORDINARY, rng.randint(1, len(ORDINARY))):
        rep = 1
        if h == 'vib_wavenumber':
            rep = rng.randint(1, 30)
        elif h == 'rot_temperature':
            rep = rng.randint(1, 3)
        elif h.startswith('list.'):
            rep = rng.randint(1, 12)
        cols.append([h] * rep)
    rng.shuffle(cols)
    cols = [h for grp in cols for h in grp]
    # repeated headers must be written identically for pandas to number them, and without blanks on the right
    # (pandas would put its number after the blanks)
    padding = {h: rng.choice(['', ' ', '  ']) + h + (rng.choice(['', ' ', '   ']) if cols.count(h) == 1 else '')
               for h in sorted(set(cols))}
    ws.append([padding[h] for h in cols])
    if comment_row:
        ws.append(['comment'] + [None] * (len(cols) - 1))
    for _ in range(rng.randint(1, 60 if rng.random() < .2 else 8)):
        row = []
        for h in cols:
            if rng.random() < .35:
                row.append(None)
            elif h in CELLS:
                row.append(rng.choice(CELLS[h]))
            elif h.startswith('element.') or h in ('symmetrynumber', 'n_degrees'):
                row.append(rng.choice([0, 1, 2, 3, 1.5]))
            else:
                row.append(rng.choice([0, 0.0, -3, 12, round(rng.uniform(-50, 4000), 3), 1.25e-11]))
        ws.append(row)


def main():
    rng = random.Random(20150915)
    wb = openpyxl.Workbook()
    ws = wb.active
    ws.title = 'first'
    random_sheet(ws, rng)
    names = ['first']
    for k in range(14):
        nm = rng.choice(['species', 'refs', 'Sheet', 'my data', 'nasa']) + str(k)
        random_sheet(wb.create_sheet(nm), rng)
        names.append(nm)
    random_sheet(wb.create_sheet('no comment row'), rng, comment_row=False)
    ws = wb.create_sheet('bad preset')
    ws.append(['name', 'statmech_model'])
    ws.append([None, None])
    ws.append(['x', 'ideal gas'])
    ws = wb.create_sheet('bad model')
    ws.append(['name', 'vib_model'])
    ws.append([None, None])
    ws.append(['x', 'NoSuchVib'])
    ws = wb.create_sheet('only header')
    ws.append(['name', 'phase'])
    ws.append(['comment', None])
    path = os.path.join(tempfile.mkdtemp(), 'book.xlsx')
    wb.save(path)
    tmp = os.path.dirname(path)

    res = []
    res.append(call(path))                                   # first sheet by default
    res.append(call(io=path))
    for i, nm in enumerate(names):
        res.append(call(path, sheet_name=nm))
        res.append(call(path, sheet_name=i))
    res.append(call(path, [1], 0, '.', sheet_name=names[3]))
    res.append(call(path, [1], 0, '.', 0., False, sheet_name=names[4]))
    res.append(call(path, [1], 0, '.', 0., False, names[4]))         # one positional too many
    res.append(call(path, sheet_name='no comment row', skiprows=[]))
    res.append(call(path, sheet_name='no comment row', skiprows=None))
    res.append(call(path, sheet_name='no comment row'))              # first data row taken for the comment row
    res.append(call(path, sheet_name=names[2], skiprows=[1, 2]))
    res.append(call(path, sheet_name=names[2], header=1, skiprows=[]))
    res.append(call(path, sheet_name=names[5], dtype=object))
    res.append(call(path, sheet_name=names[5], na_values=['x', 'G']))
    res.append(call(path, sheet_name=names[6], usecols=[0, 1, 2, 3]))
    res.append(call(path, sheet_name='bad preset'))
    res.append(call(path, sheet_name='bad model'))
    res.append(call(path, sheet_name='only header'))
    res.append(call(path, sheet_name='no such sheet'))
    res.append(call(path, sheet_name=None))
    res.append(call(path, sheet_name=[0, 1]))
    res.append(call(os.path.join(tmp, 'missing.xlsx')))
    res.append(('presets', canon(sm.presets)))
    text = repr(res).replace(tmp, '<tmp>')
    n_ok = sum(1 for r in res if r[0] == 'ok')
    n_rec = sum(len(r[1][1]) for r in res if r[0] == 'ok' and r[1][0] == 'list')
    digest = hashlib.sha256(text.encode()).hexdigest()
    print('%d calls (%d returned, %d raised), %d records, digest %s' % (len(res) - 1, n_ok, len(res) - 1 - n_ok, n_rec,
                                                                     digest))
    if '--dump' in sys.argv:
        open(sys.argv[sys.argv.index('--dump') + 1], 'w').write(text)
    if digest != EXPECTED:
        print('WRONG: the outputs differ from those of the original tree (dcdf1e7), digest %s' % EXPECTED)
        return 1
    print('OK: identical to the outputs of the original tree')
    return 0


if __name__ == '__main__':
    sys.exit(main())
