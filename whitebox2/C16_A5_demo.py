"""C16 A5: a module-level `if not sys.warnoptions: warnings.filterwarnings("ignore", category=RuntimeWarning,
module=...)` discards the non-convergence warning for every caller who did not pass -W.
Run WITHOUT -W / PYTHONWARNINGS. The caller's filters are left exactly as Python and the package set them; only the
display hook is replaced (catch_warnings(record=True) without simplefilter).
Exit 1 / 'WRONG' when a composition that does not conserve the atoms of the feed comes back without any signal."""
import os
import sys
import warnings
import numpy as np
import pmutt
from pmutt.io.thermdat import read_thermdat
from pmutt.equilibrium import Equilibrium

assert not sys.warnoptions, 'run this demo without -W / PYTHONWARNINGS'
TD = os.path.join(os.path.dirname(pmutt.__file__), 'tests', 'equilibrium', 'thermdat_equilibrium_unittest.txt')
model = read_thermdat(TD, 'dict')
network = {'CH2CHCH3': 1.0, 'CH2CH2': 0.0, 'H2O': 2.0}
eq = Equilibrium(model, network)
with warnings.catch_warnings(record=True) as rec:       # no filter added: the process-wide filters decide
    try:
        r = eq.get_net_comp(T=500., P=1.)
    except Exception as e:
        print('exception %r' % e)
        sys.exit(0)
signalled = any('converge' in str(w.message) for w in rec)
atoms = np.asarray(r.moles).dot(eq.mol_elem)
err = np.max(np.abs(atoms - eq.ele_feed)/eq.ele_feed)
print('%s T=500 P=1 -> moles %s; atoms %s %s, feed atoms %s; signalled=%s' % (
    network, np.round(r.moles, 6), [str(e) for e in eq.elements], np.round(atoms, 6), np.round(eq.ele_feed, 6),
    signalled))
if err > 1e-6 and not signalled:
    print('WRONG: atoms not conserved (rel. error %.2g) and nothing reached the caller' % err)
    sys.exit(1)
sys.exit(0)
