"""C12_A5: revised atomic weights are written into the table by symbol only, through a helper that is called at module
level after the literal; the rows under the atomic numbers keep the old values.
Takes the tree from PYTHONPATH.  exit 1 / prints WRONG when the property is broken, exit 0 otherwise."""
import sys
from pmutt import get_molecular_weight
from pmutt.constants import atomic_weight

bad = []
for z, sym in ((18, 'Ar'), (70, 'Yb'), (72, 'Hf'), (77, 'Ir'), (8, 'O'), (78, 'Pt')):
    same = atomic_weight[z] == atomic_weight[sym]
    print('atomic_weight[%3d] = %-9r atomic_weight[%-4r] = %-9r %s'
          % (z, atomic_weight[z], sym, atomic_weight[sym], '' if same else '  <-- WRONG, one element, two weights'))
    if not same:
        bad.append(sym)
by_symbol = get_molecular_weight({'Hf': 1, 'O': 2})
by_number = get_molecular_weight({72: 1, 8: 2})
by_formula = get_molecular_weight('HfO2')
print('molar mass of HfO2: by symbol %r, by atomic number %r, from the formula %r' % (by_symbol, by_number, by_formula))
if not (by_symbol == by_number == by_formula):
    print('  <-- WRONG, the molar mass depends on how the elements are named')
    bad.append('HfO2')
if bad:
    print('WRONG: %d look-ups by symbol and by atomic number disagree' % len(bad))
    sys.exit(1)
print('ok')
