"""C11_A2: a Reaction / ChemkinReaction / Reactions with integer stoichiometric coefficients through the real encoder.
Exit 0 when it encodes and decodes to the same reaction, exit 1 (prints WRONG) otherwise.
Run: PYTHONPATH=<tree> python C11_A2_demo.py"""
import json
import sys

import numpy as np

from pmutt.empirical.nasa import Nasa
from pmutt.io.json import pmuttEncoder, json_to_pmutt
from pmutt.reaction import Reaction, ChemkinReaction, Reactions


def species(name, elements):
    return Nasa(name=name, T_low=200., T_mid=1000., T_high=3000., a_low=np.arange(7) * 1e-3 + 1.,
                a_high=np.arange(7) * 2e-3 + 1., elements=elements, phase='G')


def build(cls, **kw):
    return cls(reactants=[species('H2', {'H': 2}), species('O2', {'O': 2})], reactants_stoich=[2, 1],
               products=[species('H2O', {'H': 2, 'O': 1})], products_stoich=[2], **kw)


bad = 0
for label, obj in (('Reaction', build(Reaction)), ('ChemkinReaction', build(ChemkinReaction, beta=0.5)),
                   ('Reactions', Reactions(reactions=[build(Reaction)]))):
    try:
        text = json.dumps(obj, cls=pmuttEncoder)
    except TypeError as e:
        print('WRONG: %s with stoichiometry [2, 1] -> [2] cannot be encoded: TypeError: %s' % (label, e))
        bad += 1
        continue
    dec = json.loads(text, object_hook=json_to_pmutt)
    first = dec.reactions[0] if label == 'Reactions' else dec
    same = type(dec) is type(obj) and list(first.reactants_stoich) == [2, 1] and list(first.products_stoich) == [2] \
        and json.dumps(dec, cls=pmuttEncoder) == text
    print('%s: encoded, decoded stoichiometry %s -> %s, %s' % (label, list(first.reactants_stoich),
                                                               list(first.products_stoich), 'same' if same else 'WRONG'))
    bad += not same
sys.exit(1 if bad else 0)
