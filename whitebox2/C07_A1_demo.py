"""C07 A1: associative desorption 2 H(S) <=> H2 + 2 PT(S): the pre-exponential factor of a step that is second order
in one surface species must carry one power of the site density.  Run with PYTHONPATH=<tree>."""
import re
import sys
import numpy as np
import yaml
from pmutt import constants as c
from pmutt.empirical.nasa import Nasa
from pmutt.omkm.phase import IdealGas, InteractingInterface
from pmutt.omkm.reaction import SurfaceReaction
from pmutt.omkm.units import Units
from pmutt.io.omkm import write_cti, write_thermo_yaml


def nasa(name, elements, hf, n_sites=None):
    a = np.array([3.5, 1e-3, 0., 0., 0., hf, 4.0])
    return Nasa(name=name, T_low=200., T_mid=1000., T_high=3000., a_low=a, a_high=a.copy(),
                elements=elements, n_sites=n_sites)


H2 = nasa('H2', {'H': 2}, -1000.)
PT_S = nasa('PT(S)', {'Pt': 1}, 0., 1)
H_S = nasa('H(S)', {'H': 1, 'Pt': 1}, -3000., 1)
sden = 2.5e-9   # mol/cm2
gas = IdealGas(name='gas', species=[H2])
surf = InteractingInterface(name='terrace', species=[PT_S, H_S], site_density=sden, phases=[gas])
rxn = SurfaceReaction(reactants=[H_S], reactants_stoich=[2.], products=[H2, PT_S], products_stoich=[1., 2.])
units = Units(quantity='mol', length='cm', act_energy='kJ/mol')

# second order in H(S): k = kB T/h / Gamma_eff, Gamma_eff = sum of the site densities of the two surface reactants
want = c.kb('J/K') / c.h('J s') / (2 * sden)
cti = write_cti(reactions=[rxn], units=units, T=500.)
got_cti = float(re.search(r'\[\s*([-+0-9.eE]+),', cti[cti.index('surface_reaction'):]).group(1))
txt = write_thermo_yaml(reactions=[rxn], units=units, T=500.)
got_yaml = [d for d in yaml.safe_load_all(txt.replace('\n\n-', '\n-')) if d and 'reactions' in d][0]['reactions'][0]['rate-constant']['A']
print('equation 2 H(S) <=> H2 + 2 PT(S); site density %g mol/cm2' % sden)
print('expected A = kB/h / (2*sden) = %.5e' % want)
print('CTI  A = %.5e' % got_cti)
print('YAML A = %.5e' % got_yaml)
ok = abs(got_cti / want - 1) < 1e-4 and abs(got_yaml / want - 1) < 1e-4
print('OK' if ok else 'WRONG: the pre-exponential factor in the files is not the model\'s value')
sys.exit(0 if ok else 1)
