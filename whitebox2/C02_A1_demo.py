"""C02 A1: Nasa9._get_nasa memoises the segment found for a temperature in a dictionary that was written in the
class body, so every Nasa9 species shares it: the second species evaluated at a temperature the first one has seen
is evaluated with the FIRST species' coefficients.
exit 1 / prints WRONG with the change, exit 0 without.  Takes pmutt from PYTHONPATH."""
import sys
import numpy as np
from pmutt.empirical.nasa import Nasa9, SingleNasa9, get_nasa9_CpoR, get_nasa9_HoRT, get_nasa9_SoR

# two species, same segment bounds, different coefficient sets (any coefficient vector is in the quantifier)
a_A = [np.array([2.2e4, -3.4e2, 3.5, 5.1e-3, -2.3e-6, 6.1e-10, -6.6e-14, -3.9e4, 2.1]),
       np.array([1.2e5, -1.7e3, 8.3, -9.2e-5, 4.9e-9, -1.9e-12, 6.3e-16, -3.9e4, -26.5])]
a_B = [np.array([-3.9e4, 5.7e2, 0.9, 7.3e-3, -7.0e-6, 3.4e-9, -6.5e-13, 1.3e3, 22.0]),
       np.array([1.0e6, -2.4e3, 4.6, 2.0e-3, -6.5e-7, 1.0e-10, -6.3e-15, 1.6e4, 2.3])]
bounds = [(200., 1000.), (1000., 6000.)]


def make(name, coeffs):
    return Nasa9(name=name, nasas=[SingleNasa9(T_low=lo, T_high=hi, a=a) for (lo, hi), a in zip(bounds, coeffs)])


A, B = make('A', a_A), make('B', a_B)
bad = False
for T in (300., 999., 1000., 1001., 2500.):
    seg = 0 if T <= 1000. else 1
    A.get_CpoR(T=T), A.get_HoRT(T=T), A.get_SoR(T=T)          # species A is evaluated first
    got = (B.get_CpoR(T=T), B.get_HoRT(T=T), B.get_SoR(T=T))
    want = (get_nasa9_CpoR(a=a_B[seg], T=np.array([T])).item(0), float(get_nasa9_HoRT(a=a_B[seg], T=T)),
            float(get_nasa9_SoR(a=a_B[seg], T=T)))
    ok = np.allclose(got, want, rtol=1e-12, atol=0.)
    print('T=%7.1f  species B (Cp/R, H/RT, S/R) = %s   its own polynomial gives %s   %s'
          % (T, np.round(got, 6), np.round(want, 6), 'ok' if ok else 'WRONG'))
    bad = bad or not ok
# the identities of the property, on species B alone, after A has been used on the same grid
Ts = np.linspace(300., 900., 7)
A.get_CpoR(T=Ts)
h = 1e-3
dHdT = np.array([((T + h) * B.get_HoRT(T=T + h) - (T - h) * B.get_HoRT(T=T - h)) / (2 * h) for T in Ts])
Cp = B.get_CpoR(T=Ts)
if not np.allclose(dHdT, Cp, rtol=1e-5):
    print('WRONG: d(T*H/RT)/dT of B = %s but its Cp/R = %s' % (np.round(dHdT, 4), np.round(Cp, 4)))
    bad = True
sys.exit(1 if bad else 0)
