"""C09 / A3: ChemkinReaction.get_G_act at the pressure that was ASKED for.  The Gibbs energy of activation handed to a
Chemkin file is R T max(0, dG_act(T, P), dG(T, P)) at the conditions of the call - also when the same reaction was
evaluated before at another pressure (EAs.inp / multi-condition input files do exactly that).
Exit 1 / WRONG when a later call returns the value of an earlier condition."""
import sys
import numpy as np
from pmutt import constants as c
from pmutt.empirical import GasPressureAdj
from pmutt.empirical.nasa import Nasa
from pmutt.chemkin import CatSite
from pmutt.reaction import ChemkinReaction


def nasa(name, H, S, phase='G', cat_site=None, cp=3.5, gas=False):
    a = np.array([cp, 0., 0., 0., 0., H, S])
    return Nasa(name=name, T_low=100., T_mid=1000., T_high=3000., a_low=a, a_high=a, phase=phase, cat_site=cat_site,
                misc_models=[GasPressureAdj()] if gas else None)


def make():
    site = CatSite(name='RU(S)', site_density=2.5e-9, density=12.1, bulk_specie='RU(B)')
    sp = {'H2': nasa('H2', 0., 10., gas=True),
          'RU(S)': nasa('RU(S)', 0., 0., 'S', site, cp=0.),
          'H(S)': nasa('H(S)', -3000., 1., 'S', site, cp=1.),
          'TS(S)': nasa('TS(S)', 2000., 6., 'S', site, cp=2.5)}
    return ChemkinReaction.from_string('H2 + 2RU(S) = TS(S) + RU(S) = 2H(S)', sp)


T, units = 500., 'kcal/mol'
RT = c.R('kcal/mol/K') * T
bad = []
rxn = make()
for rev in (False, True):
    for P in (1., 100., 0.01):
        got = rxn.get_G_act(units=units, T=T, P=P, rev=rev)
        fresh = make()          # a reaction that has never been evaluated before
        want = RT * max(0., fresh.get_delta_GoRT(T=T, P=P, rev=rev, act=True), fresh.get_delta_GoRT(T=T, P=P, rev=rev))
        ok = np.isclose(got, want, rtol=1e-10, atol=1e-12)
        print('get_G_act(T=%g, P=%-5g rev=%-5s) = %10.6f kcal/mol   R T max(0, dG_act, dG) at these conditions = %10.6f %s'
              % (T, P, rev, got, want, '' if ok else '  <-- WRONG'))
        if not ok:
            bad.append((rev, P))
if bad:
    print('WRONG: the activation Gibbs energy is not the one of the requested pressure for %s' % bad)
    sys.exit(1)
print('ok')
