"""C01 A4: the molar mass FreeTrans takes from a structure (and with it q_trans and the Sackur-Tetrode entropy) must
not depend on the order of the atoms, and must be the molar mass of the molecule: every G2 molecule, as bundled and with
its atoms permuted / rotated / translated.  exit 1 / WRONG otherwise."""
import sys
import numpy as np
from ase.build import molecule
from ase.collections import g2
from pmutt.statmech.trans import FreeTrans

rng = np.random.RandomState(7)
bad = []
shown = 0
for name in g2.names:
    at = molecule(name)
    want = float(np.sum(at.get_masses()))           # independent of pMuTT; IUPAC masses agree to ~1e-3 g/mol
    variants = [('bundled', at)]
    for k in range(3):
        b = at[[int(i) for i in rng.permutation(len(at))]]
        axis = rng.normal(size=3)
        b.rotate(float(rng.uniform(0, 360)), axis / np.linalg.norm(axis), center='COM')
        b.translate(rng.uniform(-3, 3, size=3))
        variants.append(('permuted+moved #%d' % k, b))
    vals = []
    for tag, a in variants:
        tr = FreeTrans(atoms=a)
        vals.append((tag, ''.join(a.get_chemical_symbols()), tr.molecular_weight, tr.get_SoR(T=298.15, P=1.)))
    spread = max(v[2] for v in vals) - min(v[2] for v in vals)
    off = max(abs(v[2] - want) for v in vals)
    if spread > 1e-9 or off > 0.05:
        bad.append(name)
        if shown < 6:
            shown += 1
            for tag, order, mw, S in vals:
                print('%-10s %-20s atoms %-14s M = %9.4f g/mol (molecule: %9.4f)  S_trans/R(298 K, 1 bar) = %.5f  %s'
                      % (name, tag, order, mw, want, S, 'ok' if abs(mw - want) < 0.05 else 'WRONG'))
print('%d of %d G2 molecules: molar mass depends on the atom order or is not that of the molecule%s'
      % (len(bad), len(g2.names), (': ' + ' '.join(bad[:12]) + ' ...') if bad else ''))
sys.exit(1 if bad else 0)
