"""C11_A1: a SurfaceReaction whose transition state is an OpenMKM BEP relation, through the real JSON encoder and hook.
Exit 0 when the decoded reaction carries a BEP equal to the original one, exit 1 (prints WRONG) otherwise.
Run: PYTHONPATH=<tree> python C11_A1_demo.py"""
import json
import sys

import numpy as np

from pmutt.chemkin import CatSite
from pmutt.empirical.nasa import Nasa
from pmutt.io.json import pmuttEncoder, json_to_pmutt
from pmutt.omkm.reaction import SurfaceReaction, BEP


def roundtrip(obj):
    return json.loads(json.dumps(obj, cls=pmuttEncoder), object_hook=json_to_pmutt)


site = CatSite(name='Pt', site_density=2.5e-9, density=21.4, bulk_specie='PT(B)')


def species(name, elements):
    return Nasa(name=name, T_low=200., T_mid=1000., T_high=3000., a_low=np.arange(7) * 1e-3 + 1.,
                a_high=np.arange(7) * 2e-3 + 1., elements=elements, phase='S', cat_site=site, n_sites=1)


bep = BEP(slope=0.5, intercept=20., name='CH', descriptor='delta_H', direction='cleavage')
rxn = SurfaceReaction(reactants=[species('CH4(S)', {'C': 1, 'H': 4}), species('PT(S)', {'Pt': 1})],
                      reactants_stoich=[1, 1],
                      products=[species('CH3(S)', {'C': 1, 'H': 3}), species('H(S)', {'H': 1})],
                      products_stoich=[1, 1], transition_state=[bep], transition_state_stoich=[1],
                      id='r_0001', direction='cleavage', beta=0.)
dec = roundtrip(rxn)
assert type(dec) is SurfaceReaction and type(dec.bep) is BEP

orig_ids = [getattr(r, 'id', r) for r in rxn.bep.cleavage_reactions]
dec_ids = [getattr(r, 'id', r) for r in dec.bep.cleavage_reactions]
orig_cti = rxn.bep.to_cti(act_energy_unit='kcal/mol')
dec_cti = dec.bep.to_cti(act_energy_unit='kcal/mol')
print('original : cleavage reactions of the BEP', orig_ids)
print('decoded  : cleavage reactions of the BEP', dec_ids)
ok = orig_ids == dec_ids and orig_cti == dec_cti and \
    all(r is dec for r in dec.bep.cleavage_reactions)
# a second cycle must give the same document again
again = roundtrip(dec)
ok = ok and json.dumps(again, cls=pmuttEncoder) == json.dumps(rxn, cls=pmuttEncoder)
if not ok:
    print('WRONG: the decoded reaction\'s BEP lists %r (CTI: %s) instead of %r'
          % (dec_ids, dec_cti.split('cleavage_reactions=')[1].split(',\n')[0], orig_ids))
    sys.exit(1)
print('OK: same BEP after encode/decode')
