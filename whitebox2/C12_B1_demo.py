"""C12_B1: the spectroscopic helpers take the speed of light in cm/s from c('m/s') and the unit table instead of the
duplicate 'cm/s' row.  The value is bit-for-bit the same, so every helper returns bit-for-bit what it returned before.
Takes the tree from PYTHONPATH and compares with reference values computed here from the public accessors only
(c('cm/s') is unchanged in both trees); exit 0 on both trees, exit 1 on any difference."""
import sys
import numpy as np
import pmutt.constants as k

c_cm, h, kb = k.c('cm/s'), k.h('J s'), k.kb('J/K')
ref = {                                     # the seven helpers that use the speed of light, as written at dcdf1e7
    'energy_to_wavenumber': lambda x: x / h / c_cm,
    'freq_to_wavenumber': lambda x: x / c_cm,
    'temp_to_wavenumber': lambda x: x * kb / c_cm / h,
    'wavenumber_to_energy': lambda x: x * c_cm * h,
    'wavenumber_to_freq': lambda x: x * c_cm,
    'wavenumber_to_inertia': lambda x: h / (8. * np.pi**2 * x * c_cm),
    'wavenumber_to_temp': lambda x: x * c_cm * h / kb,
}
rng = np.random.default_rng(12)
scalars = [1., -1., 0.5, 3., 1e-30, 1e30, 1234.56789, 298.15, 6.02e23, 2.5e-20, float(np.pi), 7, -13]
scalars += list(10. ** rng.uniform(-40, 40, 400) * rng.choice([-1., 1.], 400))
arrays = [np.array([100., 1500.5, 3000.]), rng.uniform(-1e4, 1e4, (3, 4)), np.arange(1, 6), np.array([2.5e-20])]
bad = 0
n = 0
for name, f in sorted(ref.items()):
    g = getattr(k, name)
    for x in scalars:
        a, b = g(x), f(x)
        n += 1
        if not (type(a) is type(b) and a == b):
            bad += 1
            print('DIFFERENT %s(%r): %r vs %r' % (name, x, a, b))
    for x in arrays:
        a, b = g(x), f(x)
        n += 1
        if not (a.dtype == b.dtype and a.shape == b.shape and np.array_equal(a, b)):
            bad += 1
            print('DIFFERENT %s(%r)' % (name, x))
if k.c('cm/s') != 299792458.e2 or k.c('m/s') != 299792458.:
    bad += 1
print('%d comparisons, %d differences' % (n, bad))
sys.exit(1 if bad else 0)
