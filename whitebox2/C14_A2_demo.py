"""C14_A2: a repeated species is no longer merged when one of its occurrences has a blank between coefficient and name.
Run with PYTHONPATH=<tree>.  exit 0 = right behaviour, exit 1 = WRONG."""
import sys
from pmutt.reaction import Reaction


class Sp:
    def __init__(self, name):
        self.name = name

    def __repr__(self):
        return self.name


species = {n: Sp(n) for n in ('H2', 'O2', 'H2O', 'H2O_TS')}
H2, O2, H2O, TS = (species[n] for n in ('H2', 'O2', 'H2O', 'H2O_TS'))
bad = 0
for txt, want in (
        ('H2 + 0.5 O2 + 1.5 H2 + 0.75O2 = H2O_TS = 2.5 H2O',
         ([H2, O2], [2.5, 1.25], [H2O], [2.5], [TS], [1.0])),
        ('H2+2 H2=H2O', ([H2], [3.0], [H2O], [1.0], None, None)),
        ('2 H2O=1.5 H2O_TS + 0.5H2O_TS=H2O + 1 H2O', ([H2O], [2.0], [H2O], [2.0], [TS], [2.0])),
        # what stays right with the change: no blank after the coefficient, or a blank at every occurrence
        ('H2+2H2=H2O', ([H2], [3.0], [H2O], [1.0], None, None)),
        ('3 H2 + 2 H2 = H2O', ([H2], [5.0], [H2O], [1.0], None, None))):
    r = Reaction.from_string(txt, species)
    got = (r.reactants, r.reactants_stoich, r.products, r.products_stoich, r.transition_state,
           r.transition_state_stoich)
    ok = got == want
    print('%s %-52s -> %s' % ('right:' if ok else 'WRONG:', txt, got))
    if not ok:
        print('       expected (repeated species merged, coefficients summed): %s' % (want,))
        bad += 1
sys.exit(1 if bad else 0)
