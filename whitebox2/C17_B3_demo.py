"""C17_B3: insertion index from bisect.bisect_right instead of the numpy comparison.

Every observable result (values with repr, list contents and types, dictionaries, kind and text of exceptions) along
400 random histories - 1-6 breakpoints with repeats, float and integer data, up to 7 insert/pop operations incl. invalid
indices, evaluation on/between/beyond the breakpoints at several temperatures, H/F/G/S/Cv/Cp/q, to_dict, a copy
rebuilt with from_dict that is edited too - is hashed and compared with the hash obtained on the unchanged tree
(dcdf1e7). Exit 0 = identical behaviour."""
import sys
import hashlib
import random

from pmutt.mixture.cov import PiecewiseCovEffect


def _call(fn, *args, **kwargs):
    try:
        return ('ok', repr(fn(*args, **kwargs)))
    except Exception as e:      # the kind and text of a failure are behaviour too
        return ('raised', type(e).__name__, str(e))


def spread(seed=20260928, n_hist=400, keep_first=False):
    """repr of everything observable along n_hist random histories inside (and a little outside) the quantifier"""
    rnd = random.Random(seed)
    out = []
    for h in range(n_hist):
        n = rnd.randint(1, 6)
        grid = [round(0.05 * k, 2) for k in range(1, 21)]
        bps = [0.] + sorted(rnd.choice(grid) for _ in range(n - 1))     # duplicates happen
        if h % 7 == 0:
            bps[0] = 0                                                  # integer zero
        slopes = [rnd.choice([-7.5, -2., -1, 0., 0, 0.5, 1, 3., 12.25, 40]) for _ in bps]
        m = PiecewiseCovEffect(name_i='A', name_j='B', intervals=list(bps), slopes=list(slopes),
                               name='h%d' % h)
        models = [m]
        for step in range(rnd.randint(0, 6) + 1):
            for mm in models:
                xs = sorted(set(list(mm.intervals) + [0., 0, 1., 1.2, 0.013, 0.33, 0.77]
                                + [(a + b) / 2 for a, b in zip(mm.intervals, mm.intervals[1:])]))
                rnd.shuffle(xs)
                for x in xs:
                    for T in (298.15, 500., 1273):
                        out.append(_call(mm.get_UoRT, x=x, T=T))
                    out.append(_call(mm.get_HoRT, x=x, T=650.))
                    out.append(_call(mm.get_GoRT, x=x, T=650.))
                    out.append(_call(mm.get_FoRT, x, 650.))
                out.append(_call(mm.get_UoRT))
                out.append(_call(mm.get_UoRT, 0.4))
                out.append(_call(mm.get_SoR))
                out.append(_call(mm.get_CvoR))
                out.append(_call(mm.get_CpoR))
                out.append(_call(mm.get_q))
                out.append(repr((mm.intervals, mm.slopes, type(mm.intervals).__name__)))
                out.append(_call(mm.to_dict))
            if step == 3:
                models.append(PiecewiseCovEffect.from_dict(m.to_dict()))
            target = rnd.choice(models)
            kind = rnd.random()
            if kind < 0.6:
                where = rnd.choice(['equal', 'between', 'above', 'zero', 'any'])
                if not target.intervals:
                    v = rnd.choice(grid)     # everything was popped (pop(-n) is accepted): outside the quantifier
                elif where == 'equal':
                    v = rnd.choice(target.intervals)
                elif where == 'between' and len(target.intervals) > 1:
                    k = rnd.randrange(len(target.intervals) - 1)
                    v = (target.intervals[k] + target.intervals[k + 1]) / 2
                elif where == 'above':
                    v = min(1., target.intervals[-1] + 0.07)
                elif where == 'zero':
                    v = rnd.choice([0., 0])
                else:
                    v = rnd.choice(grid)
                out.append(_call(target.insert, v, rnd.choice([-3., 0., 2, 8.5])))
            else:
                i = rnd.choice([0, 1, 2, 3, 5, -1, -2, 9, -9])
                if keep_first and i == -len(target.intervals):
                    # pop(-n) removes the first breakpoint (the documentation only refuses index 0): the model
                    # then no longer starts at 0, which is outside the class' precondition and the quantifier
                    i = -1 if len(target.intervals) > 1 else 0
                out.append(_call(target.pop, i))
    return hashlib.sha256('\n'.join(map(repr, out)).encode()).hexdigest(), len(out)



if __name__ == '__main__':
    bad = False
    got, n = spread(keep_first=False)
    same = got == 'ad9d42098876b4dc64764f29666f46c09f0b7c374cedaccf43c3462bf7a6412d'
    print('%s spread(keep_first=False): %d observations, sha256 %s' % ('ok   ' if same else 'WRONG', n, got))
    bad = bad or not same
    got, n = spread(keep_first=True)
    same = got == 'd82f36d9d958bb1fe3767fee0d54ec3d1133fb88e3acb58e1f425425e33d0bba'
    print('%s spread(keep_first=True): %d observations, sha256 %s' % ('ok   ' if same else 'WRONG', n, got))
    bad = bad or not same
    sys.exit(1 if bad else 0)
