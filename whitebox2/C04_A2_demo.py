"""C04_A2: activation enthalpy / Gibbs energy of a surface reaction whose Arrhenius activation energy (Ea, an input for
the mechanism file) was given by the user.  Run with PYTHONPATH=<tree>.
Exit 1 / prints WRONG when get_X_act(units) != get_XoRT_act * R(units) * T."""
import sys
import numpy as np
from pmutt import constants as c
from pmutt.empirical.nasa import Nasa
from pmutt.omkm.reaction import SurfaceReaction

bad = 0


def check(label, got, want):
    global bad
    ok = np.isclose(got, want, rtol=1e-10, atol=1e-12)
    print('%-58s got %-22r expected %-22r %s' % (label, got, want, 'ok' if ok else 'WRONG'))
    bad += not ok


def nasa(name, elements, h, s):
    a = np.array([3.5, 1.e-3, 0., 0., 0., h, s])
    return Nasa(name=name, elements=elements, a_low=a, a_high=a, T_low=200., T_mid=1000., T_high=3000.)


co_s = nasa('CO(S)', {'C': 1, 'O': 1}, -3.0e4, 2.)
o_s = nasa('O(S)', {'O': 1}, -2.0e4, 1.)
ts = nasa('TS(S)', {'C': 1, 'O': 2}, -4.2e4, 2.5)
co2_s = nasa('CO2(S)', {'C': 1, 'O': 2}, -6.0e4, 3.)
for Ea in (None, 20.):
    rxn = SurfaceReaction(reactants=[co_s, o_s], reactants_stoich=[1., 1.], products=[co2_s], products_stoich=[1.],
                          transition_state=[ts], transition_state_stoich=[1.], Ea=Ea)
    for T in (400., 700.):
        for units in ('kcal/mol', 'kJ/mol'):
            RT = c.R('%s/K' % units) * T
            for rev in (False, True):
                lab = 'Ea=%s T=%g rev=%s ' % (Ea, T, rev)
                check(lab + 'get_H_act(%s)' % units, rxn.get_H_act(units=units, T=T, rev=rev),
                      rxn.get_HoRT_act(T=T, rev=rev) * RT)
                check(lab + 'get_G_act(%s)' % units, rxn.get_G_act(units=units, T=T, rev=rev),
                      rxn.get_GoRT_act(T=T, rev=rev, P=1.) * RT)
print('WRONG' if bad else 'all right')
sys.exit(1 if bad else 0)
