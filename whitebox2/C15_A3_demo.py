"""C15_A3: numeric cells that Excel/pandas deliver as integers (typed without a decimal point: 1595, 3756, 667).
pandas hands such a cell to read_excel as a Python int (the row is an object Series because of the text columns);
every non-empty numeric cell of a vib_wavenumber / rot_temperature column must be in the list, in column order.
Tree is taken from PYTHONPATH."""
import os
import sys
import tempfile
import warnings

import openpyxl

warnings.filterwarnings('ignore')
from pmutt.io.excel import read_excel

wb = openpyxl.Workbook()
ws = wb.active
ws.title = 'species'
ws.append(['name', 'phase', 'vib_wavenumber', 'vib_wavenumber', 'vib_wavenumber', 'rot_temperature', 'rot_temperature'])
ws.append(['comment row', None, None, None, None, None, None])
ws.append(['H2O', 'G', 3657.05, 1595, 3756, 40.1, 21])
ws.append(['CO2', 'G', 1333.5, 667, 2349, None, None])
path = os.path.join(tempfile.mkdtemp(), 'book.xlsx')
wb.save(path)

out = read_excel(path, sheet_name='species')
want = [{'name': 'H2O', 'phase': 'G', 'vib_wavenumbers': [3657.05, 1595, 3756], 'rot_temperatures': [40.1, 21]},
        {'name': 'CO2', 'phase': 'G', 'vib_wavenumbers': [1333.5, 667, 2349]}]
bad = 0
if len(out) != len(want):
    print('WRONG: %d records for %d rows' % (len(out), len(want)))
    bad = 1
for i, (got, exp) in enumerate(zip(out, want)):
    ok = got == exp
    print('%s row %d: got %s' % ('ok   ' if ok else 'WRONG', i + 1, got))
    if not ok:
        print('            expected %s' % exp)
        bad = 1
sys.exit(bad)
