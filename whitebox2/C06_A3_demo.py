"""C06 A3: surf.inp written with sden_operation='sum' for a step that consumes the bulk species of its site together
with two adsorbed molecules (2 O(S) + PT(B) = PTO2(S)).  The pre-exponential factor written must be
kB/h / (effective site density)^(n-1) with n = 2 surface reactant molecules and the effective density the sum over
those two molecules - the bulk species is no surface species (ChemkinReaction._get_n_surf, header of surf.inp).
Run: cd <tree> && PYTHONPATH=<tree> python C06_A3_demo.py   (exit 0 = right, exit 1 = WRONG)"""
import sys
from pmutt import constants as c
from pmutt.empirical.nasa import Nasa
from pmutt.chemkin import CatSite
from pmutt.reaction import ChemkinReaction, Reactions
from pmutt.io import chemkin as ck


def nasa(name, phase, elements, h, s, cat_site=None, n_sites=None):
    a = [4., 0., 0., 0., 0., h, s]
    return Nasa(name=name, T_low=200., T_mid=1000., T_high=3000., a_low=a, a_high=a, phase=phase,
                elements=elements, cat_site=cat_site, n_sites=n_sites)


sden = 2.1671e-09
site = CatSite(name='PT_TERRACE', site_density=sden, density=21.45, bulk_specie='PT(B)')
sp = {s.name: s for s in [
    nasa('O(S)', 'S', {'O': 1, 'PT': 1}, -14000., 1.5, site, 1),
    nasa('PT(B)', 'S', {'PT': 1}, 0., 0., site, 1),
    nasa('PTO2(S)', 'S', {'PT': 3, 'O': 2}, -30000., 2.4, site, 2)]}
rxn = ChemkinReaction(reactants=[sp['O(S)'], sp['PT(B)']], reactants_stoich=[2, 1], products=[sp['PTO2(S)']],
                      products_stoich=[1], beta=1.)
bad = False
for op, eff in (('sum', 2. * sden), ('min', sden)):
    text = ck.write_surf(reactions=Reactions([rxn]), T=500., P=1., act_method_name='get_G_act', sden_operation=op,
                         float_format=' .6E')
    line = [l for l in text.split('\n') if l.startswith('2O(S)+PT(B)=PTO2(S)')][0]
    A_written = float(line.split()[1])
    A_ref = c.kb('J/K') / c.h('J s') / eff ** (2 - 1)
    ok = abs(A_written - A_ref) <= 1e-6 * A_ref
    bad = bad or not ok
    print("sden_operation=%-4s %s   A written %.6E, kB/h/(effective site density)^(n-1) = %.6E   %s"
          % (op, line, A_written, A_ref, 'ok' if ok else 'WRONG'))
if bad:
    print('WRONG')
    sys.exit(1)
print('right')
