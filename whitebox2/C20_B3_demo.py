"""C20 B3: cubic normalised to its monic form (coefficients divided by the leading one) before np.roots
(behaviour-preserving: np.roots performs the same division itself).
Compares vanDerWaalsEOS.get_Vm / get_V / get_n of the tree on PYTHONPATH, bit for bit, with the algorithm of the
unchanged tree (dcdf1e7) written out below, on a spread of gases and states (above and below Tc, both roots, float,
int and numpy arguments). Exit 0 when every value is identical (expected on BOTH trees), exit 1 otherwise."""
import itertools
import sys
import numpy as np
from pmutt import constants as c
from pmutt.eos import vanDerWaalsEOS


def ref_Vm(a, b, T, P, gas_phase):
    # pmutt/eos/__init__.py at dcdf1e7, vanDerWaalsEOS.get_Vm
    P_SI = P * c.convert_unit(initial='bar', final='Pa')
    Vm = np.roots([P_SI, -(P_SI * b + c.R('J/mol/K') * T), a, -a * b])
    real_Vm = np.real([Vm_i for Vm_i in Vm if np.isreal(Vm_i)])
    if gas_phase:
        return np.max(real_Vm)
    else:
        return np.min(real_Vm)


gases = [(0.364, 4.27e-5), (0.00346, 2.38e-5), (0.547, 30.52e-6), (2.484, 1.744e-4), (3., 1e-5), (0.003, 2e-4),
         (1, 1e-4)]
Ts = [50., 77.3, 150., 250., 303.7845577192649, 304., 500., 647., 1200., 3000., 300, np.float64(400.), np.int64(350)]
Ps = [1e-3, 0.05, 1., 1.01325, 5., 30., 73.9, 200., 1e3, 10, np.float64(2.5)]
ns = [1e-3, 0.5, 1., 2, 1e3]
count = bad = 0
for (a, b), T, P, gas in itertools.product(gases, Ts, Ps, (True, False, 1, 0, np.True_, np.False_)):
    eos = vanDerWaalsEOS(a=a, b=b)
    want = ref_Vm(a, b, T, P, gas)
    got = eos.get_Vm(T=T, P=P, gas_phase=gas)
    vals = [(got, want)]
    for n in ns:
        vals.append((eos.get_V(T=T, P=P, n=n, gas_phase=gas), want * n))
        vals.append((eos.get_n(V=0.01 * n, P=P, T=T, gas_phase=gas), 0.01 * n / want))
    for g, w in vals:
        count += 1
        if not (g == w and type(g) is type(w)):
            bad += 1
            if bad <= 10:
                print('DIFFERENT a=%r b=%r T=%r P=%r gas_phase=%r: %r (%s) != %r (%s)' % (
                    a, b, T, P, gas, g, type(g).__name__, w, type(w).__name__))
print('%d values compared, %d different' % (count, bad))
sys.exit(1 if bad else 0)
