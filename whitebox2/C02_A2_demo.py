"""C02 A2: Nasa9._get_nasa remembers, per species, the segment found for a temperature under the key
'{:.2f}'.format(T).  Two temperatures that print alike (closer than 0.01 K) share one entry: next to a break
temperature the second one is evaluated with the segment of the first, i.e. with a segment whose bounds do not contain
it, and the array result differs from element-by-element evaluation.
exit 1 / prints WRONG with the change, exit 0 without.  Takes pmutt from PYTHONPATH."""
import sys
import numpy as np
from pmutt.empirical.nasa import Nasa9, SingleNasa9, get_nasa9_CpoR

a0 = np.array([2.2e4, -3.4e2, 3.5, 5.1e-3, -2.3e-6, 6.1e-10, -6.6e-14, -3.9e4, 2.1])
a1 = np.array([1.0e6, -2.4e3, 4.6, 2.0e-3, -6.5e-7, 1.0e-10, -6.3e-15, 1.6e4, 2.3])


def make():
    return Nasa9(name='X', nasas=[SingleNasa9(T_low=200., T_high=1000., a=a0),
                                  SingleNasa9(T_low=1000., T_high=6000., a=a1)])


def own(T):
    """the polynomial of the segment whose bounds contain T"""
    return get_nasa9_CpoR(a=a0 if T <= 1000. else a1, T=np.array([T])).item(0)


bad = False
T = np.array([999.5, 1000., 1000.004, 1000.5])        # inside the range, adjacent to and on the break temperature
for q in ('get_CpoR', 'get_HoRT', 'get_SoR', 'get_GoRT'):
    arr = getattr(make(), q)(T=T)
    each = np.array([getattr(make(), q)(T=float(t)) for t in T])       # each temperature on its own (fresh species)
    ok = np.array_equal(arr, each)
    print('%-8s array %s\n         1-by-1 %s  %s' % (q, arr, each, 'ok' if ok else 'WRONG'))
    bad = bad or not ok
sp = make()
sp.get_CpoR(T=1000.)
got = sp.get_CpoR(T=1000.004)
if not np.isclose(got, own(1000.004), rtol=1e-12):
    print('WRONG: Cp/R(1000.004 K) = %.6f comes from the 200-1000 K segment; the segment that contains it gives %.6f'
          % (got, own(1000.004)))
    bad = True
sys.exit(1 if bad else 0)
