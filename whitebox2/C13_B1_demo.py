"""C13_B1: PiecewiseCovEffect.get_HoRT defined as a class-level alias of get_UoRT (no PV term for an adsorbate).
Prints every value with full precision (diff the output of the two trees) and checks each against an independent
formula.  exit 0 on both trees.  Tree is taken from PYTHONPATH."""
import sys
import numpy as np
from pmutt import constants as c
from pmutt import _get_expected_arguments
from pmutt.empirical.nasa import Nasa, Nasa9, SingleNasa9
from pmutt.empirical.shomate import Shomate
from pmutt.empirical import GasPressureAdj
from pmutt.mixture.cov import PiecewiseCovEffect

A_LOW = [4.04618796e+00, -2.34746343e-03, 7.46806220e-06, -6.40166207e-09, 2.05109613e-12, -3.03156920e+04, 0.242]
A_HIGH = [2.41854323e+00, 3.35448922e-03, -9.66398101e-07, 1.34441829e-10, -7.18940063e-15, -2.97582484e+04, 8.37]
A9 = [2.210371497e+04, -3.818461820e+02, 6.082738360e+00, -8.530914410e-03, 1.384646189e-05, -9.625793620e-09,
      2.519705809e-12, 7.108460860e+02, -1.076003744e+01]
ASH = np.array([30.09200, 6.832514, 6.793435, -2.534480, 0.082139, -250.8810, 223.3967, -241.8264])
IV, SL = [0., 0.3, 0.6], [-20., -35., 10.]


def energy(x):
    """piecewise linear, continuous, kcal/mol"""
    e, prev = 0., 0.
    for k in range(len(IV)):
        hi = IV[k + 1] if k + 1 < len(IV) else np.inf
        if x < hi:
            return e + SL[k] * (x - IV[k])
        e += SL[k] * (hi - IV[k])
    return e


def build(kind, misc, phase):
    if kind == 'Nasa':
        return Nasa(name='A', phase=phase, T_low=200., T_mid=1000., T_high=3500., a_low=A_LOW, a_high=A_HIGH,
                    misc_models=misc)
    if kind == 'Nasa9':
        return Nasa9(name='A', phase=phase, nasas=[SingleNasa9(T_low=200., T_high=1000., a=A9)], misc_models=misc)
    return Shomate(name='A', phase=phase, T_low=298., T_high=1700., a=ASH, misc_models=misc)


bad = 0
rng = np.random.RandomState(7)
print('expected arguments', _get_expected_arguments(PiecewiseCovEffect(name_i='A', name_j='B', intervals=list(IV),
                                                                     slopes=list(SL)).get_HoRT))
for kind in ('Nasa', 'Nasa9', 'Shomate'):
    for phase in ('S', 'G', None):
        for order in ('cov', 'cov,cov2', 'adj,cov', 'cov,adj'):
            def misc():
                out = []
                for tok in order.split(','):
                    if tok == 'adj':
                        out.append(GasPressureAdj())
                    else:
                        out.append(PiecewiseCovEffect(name_i='A', name_j='B' if tok == 'cov' else 'C',
                                                      intervals=list(IV), slopes=list(SL)))
                return out
            sp, bare = build(kind, misc(), phase), build(kind, None, None)
            n_adj = sum(isinstance(m, GasPressureAdj) for m in sp.misc_models)
            n_cov = len(sp.misc_models) - n_adj
            for T in (450., [350., 500.], np.array([900., 400., 650., 400.])):
                for x in (0., 0.1, 0.3, 0.45, 0.9, 1.0):
                    P = float(10 ** rng.uniform(-3, 2))
                    contrib = np.array([n_cov * energy(x) / (c.R('kcal/mol/K') * Ti) for Ti in np.atleast_1d(T)])
                    for q, want in (('get_CpoR', np.atleast_1d(bare.get_CpoR(T=T))),
                                    ('get_HoRT', np.atleast_1d(bare.get_HoRT(T=T)) + contrib),
                                    ('get_SoR', np.atleast_1d(bare.get_SoR(T=T)) - n_adj * np.log(P)),
                                    ('get_GoRT', np.atleast_1d(bare.get_GoRT(T=T)) + contrib + n_adj * np.log(P))):
                        got = np.atleast_1d(getattr(sp, q)(T=T, x=x, P=P))
                        print(kind, phase, order, np.atleast_1d(T).tolist(), x, repr(P), q, got.tolist())
                        if not np.allclose(got, want, rtol=1e-11, atol=1e-11):
                            print('WRONG', want.tolist())
                            bad += 1
                    # with units, and through a per-species block
                    print(sp.get_H(T=T, units='kJ/mol', x=x, P=P).tolist() if hasattr(sp.get_H(T=T, units='kJ/mol', x=x, P=P), 'tolist') else sp.get_H(T=T, units='kJ/mol', x=x, P=P))
                    blk = np.atleast_1d(sp.get_HoRT(T=T, B_kwargs={'x': x}, P=P))
                    print('block', blk.tolist())
# the model on its own, positional and keyword, every public getter
m = PiecewiseCovEffect(name_i='A', name_j='B', intervals=list(IV), slopes=list(SL))
for x in np.linspace(0., 1., 21):
    for T in (298.15, 300., 1234.5):
        vals = (m.get_UoRT(x, T), m.get_HoRT(x, T), m.get_HoRT(x=x), m.get_HoRT(T=T), m.get_GoRT(x=x, T=T),
                m.get_FoRT(x=x, T=T), m.get_H(units='kJ/mol', x=x, T=T), m.get_G(units='eV', x=x, T=T))
        print('model', x, T, [repr(float(v)) for v in vals])
        if not np.isclose(vals[1], energy(x) / (c.R('kcal/mol/K') * T), rtol=1e-12, atol=1e-14):
            print('WRONG')
            bad += 1
print(m.to_dict())
print(PiecewiseCovEffect.from_dict(m.to_dict()).get_HoRT(x=0.5, T=400.))
sys.exit(1 if bad else 0)
