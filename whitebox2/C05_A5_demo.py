"""C05_A5: a species whose name contains (does not start with) an exclamation mark.
Property: "reading never silently drops, duplicates or merges species whatever their names"; quantifier: "names of
1-15 non-blank printable characters".  Exit 0 = right, exit 1 = WRONG.
"""
import os
import sys
import tempfile

from pmutt.empirical.nasa import Nasa
from pmutt.io.thermdat import read_thermdat, write_thermdat

a1 = [4.04618796e+00, -6.87238823e-04, 5.27316255e-06, -4.19869217e-09, 1.12691457e-12, -3.02864170e+04,
      -2.50354790e-01]
a2 = [2.41854323e+00, 3.35448922e-03, -9.66398101e-07, 1.34441829e-10, -7.18940063e-15, -2.97582484e+04,
      8.37839787e+00]
bad = False
for names in (['H2O', 'CH2!', 'CH4'], ['OH!v=1'], ['H2O', 'CH4']):
    species = [Nasa(name=nm, elements={'C': 1, 'H': 2 + i}, phase='G', T_low=200., T_mid=1000., T_high=3500.,
                    a_low=a1, a_high=a2) for i, nm in enumerate(names)]
    fd, path = tempfile.mkstemp(suffix='.thermdat')
    os.close(fd)
    try:
        write_thermdat(species, filename=path, write_date=False)
        try:
            back = read_thermdat(path)
            got = [(sp.name, sp.elements) for sp in back]
        except Exception as e:
            got = '%s: %s' % (type(e).__name__, e)
    finally:
        os.remove(path)
    want = [(sp.name, sp.elements) for sp in species]
    print('written  ', want)
    print('read back', got, '' if got == want else '   <-- WRONG')
    bad = bad or got != want
sys.exit(1 if bad else 0)
