"""C18 A2: a token list whose entries carry their own quotes must still be wrapped:
every token once and in order, no line longer than the requested width."""
import sys
from pmutt.io.cantera import obj_to_cti

bad = 0
species = ['"H2O(S)"', '"CO(S)"', '"OH(S)"', '"COOH(S)"', '"HCOO(S)"', '"CH3O(S)"', '"CH2O(S)"', '"CHO(S)"',
           '"CO2(S)"', '"H(S)"', '"O(S)"', '"PT(S)"']
cases = [(species, 40, 60), (tuple(species), 62, 80), (' '.join(species), 50, 80),
         (['"site', 'fcc', 'hollow', 'of', 'the', '(111)', 'terrace', 'next', 'to', 'a', 'step', 'edge"'], 30, 30)]
for obj, line_len, max_line_len in cases:
    toks = obj.split(' ') if isinstance(obj, str) else list(obj)
    out = obj_to_cti(obj, line_len=line_len, max_line_len=max_line_len)
    lines = out.split('\n')
    got = out.replace('"""', ' ').split()
    widths = [len(l) for l in lines]
    too_long = [(k, w) for k, w in enumerate(widths)
                if w > (line_len if k == 0 else max_line_len) and len(lines[k].replace('"""', ' ').split()) > 1]
    ok = got == toks and not too_long
    print('%s line_len=%d max_line_len=%d: %d line(s) of %s characters, %d tokens'
          % ('ok   ' if ok else 'WRONG', line_len, max_line_len, len(lines), widths, len(got)))
    if not ok:
        print('      first line: %s' % lines[0][:100])
    bad += not ok
sys.exit(1 if bad else 0)
