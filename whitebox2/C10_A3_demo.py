"""C10_A3: species are created with references=refs, THEN a reference is appended and the offsets are refitted
(the usual order when references are collected incrementally: the species and the References object are built from the
same spreadsheet, references are added and refitted later).
Property: 'any sequence of appending references and refitting' + 'After offsets are fitted ..., applying them to each
reference species reproduces its experimental enthalpy at the reference temperature', observed at
StatMech(...references=refs).get_HoRT / get_H.
exit 1 / prints WRONG when a species still carries the offsets of an earlier fit, exit 0 otherwise."""
import sys
import warnings
from pmutt.empirical.references import Reference, References
from pmutt.statmech import StatMech, presets
from pmutt import constants as c

warnings.simplefilter('ignore')
T0 = 298.15
RT = c.R('J/mol/K') * T0
data = {'H2': ({'H': 2}, -6.77, 0.), 'H2O': ({'H': 2, 'O': 1}, -14.22, -241.8), 'CH4': ({'C': 1, 'H': 4}, -24.04, -74.6)}


def ref(name):
    el, E, H = data[name]
    return Reference(name=name, elements=el, T_ref=T0, HoRT_ref=H * 1000. / RT,
                     model=StatMech(potentialenergy=E, **presets['electronic']))


refs = References(references=[ref('H2')])
# the species that will be adjusted - they hold the References object
species = {name: StatMech(name=name, elements=el, potentialenergy=E, references=refs, **presets['electronic'])
           for name, (el, E, H) in data.items()}
# ... two more references are appended and the offsets refitted (3 species, 3 elements, full rank)
for name in ('H2O', 'CH4'):
    refs.append(ref(name))
    refs.fit_HoRT_offset()
print('offsets after the last fit:', {k: round(float(v), 4) for k, v in refs.offset.items()})

bad = 0
for name, sp in species.items():
    exp = data[name][2] * 1000. / RT
    got = sp.get_HoRT(T=T0)
    H = sp.get_H(T=T0, units='kJ/mol')
    ok = abs(got - exp) < 1e-8 * max(1., abs(exp))
    print('%-4s H/RT(T_ref) = %12.5f (experimental %12.5f)   H = %10.3f kJ/mol (experimental %8.1f)   %s'
          % (name, got, exp, H, data[name][2], 'ok' if ok else 'WRONG'))
    bad += not ok
sys.exit(1 if bad else 0)
