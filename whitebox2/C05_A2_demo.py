"""C05_A2: the same file name is written and read back twice in one session (e.g. a fit is refined and the thermdat
regenerated).  Property: "Writing any collection of NASA-7 species to a Chemkin thermdat file and reading the file back
yields the same species in the same order".  Exit 0 = right, exit 1 = WRONG.
"""
import os
import sys
import tempfile

import numpy as np

from pmutt.empirical.nasa import Nasa
from pmutt.io.thermdat import read_thermdat, write_thermdat

a1 = [4.04618796e+00, -6.87238823e-04, 5.27316255e-06, -4.19869217e-09, 1.12691457e-12, -3.02864170e+04,
      -2.50354790e-01]
a2 = [2.41854323e+00, 3.35448922e-03, -9.66398101e-07, 1.34441829e-10, -7.18940063e-15, -2.97582484e+04,
      8.37839787e+00]


def same(back, species):
    return [b.name for b in back] == [s.name for s in species] and all(
        np.allclose(b.a_low, s.a_low, rtol=1e-8, atol=0) and np.allclose(b.a_high, s.a_high, rtol=1e-8, atol=0)
        and b.elements == s.elements and b.phase == s.phase and abs(b.T_mid - s.T_mid) < 0.1
        for b, s in zip(back, species))


h2o = Nasa(name='H2O', elements={'H': 2, 'O': 1}, phase='G', T_low=200., T_mid=1000., T_high=3500.,
           a_low=a1, a_high=a2)
ch4 = Nasa(name='CH4', elements={'C': 1, 'H': 4}, phase='G', T_low=200., T_mid=1100., T_high=3000.,
           a_low=a2, a_high=a1)
# second collection: H2O refitted with another T_mid, and one more species
h2o_b = Nasa(name='H2O', elements={'H': 2, 'O': 1}, phase='G', T_low=200., T_mid=1200., T_high=3500.,
             a_low=[1.1 * x for x in a1], a_high=a2)
first, second = [h2o, ch4], [ch4, h2o_b, h2o]

fd, path = tempfile.mkstemp(suffix='.thermdat')
os.close(fd)
try:
    write_thermdat(first, filename=path, write_date=False)
    back1 = read_thermdat(path)
    write_thermdat(second, filename=path, write_date=False)
    back2 = read_thermdat(path)
finally:
    os.remove(path)

print('1st: written', [s.name for s in first], 'read', [s.name for s in back1])
print('2nd: written', [(s.name, s.T_mid) for s in second], 'read', [(s.name, s.T_mid) for s in back2])
if not same(back1, first):
    print('WRONG: first round trip')
    sys.exit(1)
if not same(back2, second):
    print('WRONG: the file holds %d species, read_thermdat returns %d (those of the file as it was before)'
          % (len(second), len(back2)))
    sys.exit(1)
print('right: both round trips give back what was written')
