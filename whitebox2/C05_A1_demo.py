"""C05_A1: a comment block (supp_txt) that contains the word END.

Property: "Writing any collection of NASA-7 species to a Chemkin thermdat file and reading the file back yields the
same species ... with and without date/notes, supplementary data and comment blocks ... reading never silently drops
... species".  Exit 0 = right behaviour, exit 1 = WRONG.
"""
import os
import sys
import tempfile

import numpy as np

from pmutt.empirical.nasa import Nasa
from pmutt.io.thermdat import read_thermdat, write_thermdat

a_low = [4.04618796e+00, -6.87238823e-04, 5.27316255e-06, -4.19869217e-09, 1.12691457e-12, -3.02864170e+04,
         -2.50354790e-01]
a_high = [2.41854323e+00, 3.35448922e-03, -9.66398101e-07, 1.34441829e-10, -7.18940063e-15, -2.97582484e+04,
          8.37839787e+00]
h2o = Nasa(name='H2O', elements={'H': 2, 'O': 1}, phase='G', T_low=200., T_mid=1000., T_high=3500.,
           a_low=a_low, a_high=a_high)
ch4 = Nasa(name='CH4', elements={'C': 1, 'H': 4}, phase='G', T_low=200., T_mid=1100., T_high=3000.,
           a_low=a_high, a_high=a_low)
species = [h2o, ch4]
# every line of the comment block begins with '!', as the docstring of write_thermdat asks
supp_txt = ('! Species fitted in this work\n'
            '! LEGEND: G = gas phase, S = surface species\n')

fd, path = tempfile.mkstemp(suffix='.thermdat')
os.close(fd)
try:
    write_thermdat(species, filename=path, supp_txt=supp_txt, write_date=False)
    back = read_thermdat(path)
finally:
    os.remove(path)

names = [sp.name for sp in back]
print('written:', [sp.name for sp in species])
print('read   :', names)
ok = names == ['H2O', 'CH4'] and all(
    np.allclose(b.a_low, s.a_low, rtol=1e-8, atol=0) and np.allclose(b.a_high, s.a_high, rtol=1e-8, atol=0)
    and b.elements == s.elements and b.phase == s.phase for b, s in zip(back, species))
if not ok:
    print('WRONG: %d species written, %d read back' % (len(species), len(back)))
    sys.exit(1)
print('right: the same species in the same order')
