"""C14_A4: a coefficient followed by a species whose name starts with E/e and a digit (E1, E2S, e2...) is read as a
number in scientific notation.  Run with PYTHONPATH=<tree>.  exit 0 = right behaviour, exit 1 = WRONG."""
import sys
from pmutt.reaction import Reaction


class Sp:
    def __init__(self, name):
        self.name = name

    def __repr__(self):
        return self.name


species = {n: Sp(n) for n in ('E1', 'S', 'E1S', 'E2S', 'P', 'e2', 'TS_1')}
E1, S, E1S, E2S, P, e2, TS = (species[n] for n in ('E1', 'S', 'E1S', 'E2S', 'P', 'e2', 'TS_1'))
bad = 0
for rxn in (Reaction([E1, S], [2, 1], [E1S], [1.5]),
            Reaction([E2S], [2], [P, S], [1, 2], [TS], [1]),
            Reaction([S, e2], [1, 0.5], [P], [1])):
    for kw in ({}, {'stoich_space': True}, {'species_delimiter': ' + ', 'reaction_delimiter': ' <=> '}):
        txt = rxn.to_string(**kw)
        pkw = {k: v.strip() for k, v in kw.items() if k.endswith('delimiter')}
        want = (rxn.reactants, [float(x) for x in rxn.reactants_stoich], rxn.products,
                [float(x) for x in rxn.products_stoich])
        try:
            back = Reaction.from_string(txt, species, **pkw)
            got = (back.reactants, back.reactants_stoich, back.products, back.products_stoich)
        except KeyError as e:
            got = 'KeyError: %s' % str(e)[:70]
        ok = got == want
        print('%s printed %-28r parsed back as %s' % ('right:' if ok else 'WRONG:', txt, got))
        if not ok:
            print('       expected %s' % (want,))
            bad += 1
sys.exit(1 if bad else 0)
