"""C08 A2: conditions addressed to one named species must reach that species (and only that one) - with the
empirical model classes (Nasa), whose getters accept **kwargs, as species.

H2 + 0.5 O2 = H2O, Nasa polynomials of the test-suite.  Shared T = 500 K, a block addressed to H2O: T = 800 K.
"""
import sys
import numpy as np
from pmutt.empirical.nasa import Nasa
from pmutt.reaction import Reaction, ChemkinReaction

H2O = Nasa(name='H2O', T_low=200., T_mid=1000., T_high=3500., elements={'H': 2, 'O': 1}, phase='G',
           a_low=[4.19864056E+00, -2.03643410E-03, 6.52040211E-06, -5.48797062E-09, 1.77197817E-12, -3.02937267E+04,
                  -8.49032208E-01],
           a_high=[3.03399249E+00, 2.17691804E-03, -1.64072518E-07, -9.70419870E-11, 1.68200992E-14, -3.00042971E+04,
                   4.96677010E+00])
H2 = Nasa(name='H2', T_low=200., T_mid=1000., T_high=3500., elements={'H': 2}, phase='G',
          a_low=[2.34433112E+00, 7.98052075E-03, -1.94781510E-05, 2.01572094E-08, -7.37611761E-12, -9.17935173E+02,
                 6.83010238E-01],
          a_high=[3.33727920E+00, -4.94024731E-05, 4.99456778E-07, -1.79566394E-10, 2.00255376E-14, -9.50158922E+02,
                  -3.20502331E+00])
O2 = Nasa(name='O2', T_low=200., T_mid=1000., T_high=3500., elements={'O': 2}, phase='G',
          a_low=[3.78245636E+00, -2.99673416E-03, 9.84730201E-06, -9.68129509E-09, 3.24372837E-12, -1.06394356E+03,
                 3.65767573E+00],
          a_high=[3.28253784E+00, 1.48308754E-03, -7.57966669E-07, 2.09470555E-10, -2.16717794E-14, -1.08845772E+03,
                  5.45323129E+00])

T, T2 = 500., 800.
bad = 0
for cls in (Reaction, ChemkinReaction):
    rxn = cls(reactants=[H2, O2], reactants_stoich=[1., 0.5], products=[H2O], products_stoich=[1.])
    for X in ('HoRT', 'SoR', 'GoRT', 'CpoR'):
        m = 'get_' + X
        r = getattr(H2, m)(T=T) + 0.5 * getattr(O2, m)(T=T)
        p = getattr(H2O, m)(T=T2)                       # the block is addressed to H2O
        got_p = getattr(rxn, 'get_%s_state' % X)(state='products', T=T, H2O_kwargs={'T': T2})
        got_r = getattr(rxn, 'get_%s_state' % X)(state='reactants', T=T, H2O_kwargs={'T': T2})
        got_d = getattr(rxn, 'get_delta_' + X)(T=T, H2O_kwargs={'T': T2})
        for label, got, want in (('%s_state(products)' % X, got_p, p), ('%s_state(reactants)' % X, got_r, r),
                                 ('delta_' + X, got_d, p - r)):
            if not np.isclose(got, want, rtol=1e-10, atol=1e-12):
                bad += 1
                print('WRONG %s.get_%s(T=500, H2O_kwargs={T: 800}) = %.6f; H2O at 800 K, H2 and O2 at 500 K give %.6f'
                      % (cls.__name__, label, got, want))
    K = rxn.get_Keq(T=T, H2O_kwargs={'T': T2})
    dG = H2O.get_GoRT(T=T2) - H2.get_GoRT(T=T) - 0.5 * O2.get_GoRT(T=T)
    if not np.isclose(np.log(K), -dG, rtol=1e-10):
        bad += 1
        print('WRONG %s ln Keq = %.6f, -delta G/RT with H2O at 800 K = %.6f' % (cls.__name__, np.log(K), -dG))
print('violations: %d' % bad)
sys.exit(1 if bad else 0)
