"""C07 further blind spots x1..x5: one small check each (all OK on the unmodified tree).  Run with PYTHONPATH=<tree>."""
import re
import sys
import numpy as np
import yaml
from pmutt.empirical.nasa import Nasa
from pmutt.omkm.phase import IdealGas, StoichSolid, InteractingInterface
from pmutt.omkm.reaction import SurfaceReaction
from pmutt.omkm.units import Units
from pmutt.io.omkm import write_cti, write_thermo_yaml
from pmutt import constants as c


def nasa(name, elements, hf, n_sites=None):
    a = np.array([3.5, 1e-3, -2.5e-7, 3.1e-10, -1.7e-14, hf, 4.0])
    return Nasa(name=name, T_low=200., T_mid=1000., T_high=3000., a_low=a, a_high=a.copy(),
                elements=elements, n_sites=n_sites)


O2 = nasa('O2', {'O': 2}, -1000.)
PT_B = nasa('PT(B)', {'Pt': 1}, 0.)
PT_S = nasa('PT(S)', {'Pt': 1}, 0., 1)
O_S = nasa('O(S)', {'O': 1, 'Pt': 1}, -3000., 1)
gas = IdealGas(name='gas', species=[O2])
bulk = StoichSolid(name='bulk', species=[PT_B], density=21.45)
surf = InteractingInterface(name='terrace', species=[PT_S, O_S], site_density=2.5e-9, phases=[gas, bulk])
rxn = SurfaceReaction(reactants=[O2, PT_S], reactants_stoich=[0.5, 1.], products=[O_S], products_stoich=[1.],
                      is_adsorption=True)
fails = []


def check(tag, ok, msg):
    print('%s %s: %s' % ('ok   ' if ok else 'WRONG', tag, msg))
    if not ok:
        fails.append(tag)


# x1: a reaction without transition state
try:
    txt = write_cti(reactions=[rxn], units=Units())
    check('x1', 'surface_reaction(' in txt, 'write_cti with a reaction that has no transition state writes it')
except Exception as e:
    check('x1', False, 'write_cti with a reaction that has no transition state raises %s: %s' % (type(e).__name__, e))
# x2: every coefficient of the species entry
cti = O2.to_cti()
nums = [float(x) for x in re.findall(r'[-+ ]\d\.\d+E[-+]\d+|[-+ ]\d+\.\d{8}(?!\d)', cti)]
check('x2', len(nums) == 14 and np.allclose(nums[:7], O2.a_low, rtol=1e-8, atol=0),
      'NASA CTI entry carries a_low = %s (object: %s)' % (nums[3:5], list(O2.a_low[3:5])))
# x3 / x5: site density and bulk density in the default unit system (molecules, cm, kg)
d = surf.to_omkm_yaml(units=Units())
val = float(d['site-density'].strip('"').split()[0])
check('x3', abs(val / (2.5e-9 * c.Na) - 1) < 1e-6, 'site-density %s; 2.5e-9 mol/cm2 = %.5e molec/cm2'
      % (d['site-density'], 2.5e-9 * c.Na))
dens = float(re.search(r'density=([-+0-9.eE]+)', bulk.to_cti(units=Units())).group(1))
check('x5', abs(dens / 21.45e-3 - 1) < 1e-6, 'bulk density written %g for units(mass=kg, length=cm); 21.45 g/cm3 = %g kg/cm3'
      % (dens, 21.45e-3))
# x4: the equation keeps its coefficients
eq = rxn.to_omkm_yaml(units=Units())['equation']
check('x4', eq.split()[0] == '0.50', 'equation %r of 0.5 O2 + PT(S) <=> O(S)' % eq)
sys.exit(1 if fails else 0)
