"""C03 (NASA-9, reference temperature in an upper interval): H and S of the fitted species must be continuous at every
break temperature and reproduce the reference at T_ref.  Exit 1 / prints WRONG otherwise."""
import sys
import warnings
import numpy as np
from ase.build import molecule
from pmutt.statmech import StatMech, presets
from pmutt.empirical.nasa import Nasa9

warnings.simplefilter('ignore')
h2o = StatMech(name='H2O', atoms=molecule('H2O'), symmetrynumber=2, spin=0, potentialenergy=-14.22,
               vib_wavenumbers=[3825.434, 3710.264, 1582.432], **presets['idealgas'])
T = np.linspace(200., 3000., 141)
CpoR = np.array([h2o.get_CpoR(T=T_i) for T_i in T])
bad = False
for T_mid, T_ref in (([800., 1600.], 300.), ([800., 1600.], 1000.), ([800., 1600.], 2500.), ([1200.], 2000.)):
    sp = Nasa9.from_data(name='H2O', T=T, CpoR=CpoR, T_ref=T_ref, HoRT_ref=h2o.get_HoRT(T=T_ref),
                         SoR_ref=h2o.get_SoR(T=T_ref), T_mid=T_mid)
    jumps = []
    for k, T_m in enumerate(T_mid):
        lo, hi = sp.nasas[k], sp.nasas[k + 1]
        jumps.append((abs(float(lo.get_HoRT(T=T_m)) - float(hi.get_HoRT(T=T_m))),
                      abs(float(lo.get_SoR(T=T_m)) - float(hi.get_SoR(T=T_m)))))
    worst = max(max(j) for j in jumps)
    print('T_mid=%s T_ref=%6.1f: jumps (|dH/RT|, |dS/R|) at the breaks: %s'
          % (T_mid, T_ref, ', '.join('(%.2e, %.2e)' % j for j in jumps)))
    if worst > 1e-9:
        bad = True
print('WRONG: H and/or S of the fitted NASA-9 species jump at a break temperature' if bad else 'OK')
sys.exit(1 if bad else 0)
