"""C04_A1: per-mass values of a second species that has the same element symbols but other counts.
Run with PYTHONPATH=<tree>.  Exit 1 / prints WRONG when value(units per mass) != twin * R(molar) / M(own composition)."""
import sys
import numpy as np
from pmutt import constants as c, get_molecular_weight
from pmutt.statmech import StatMech, presets
from pmutt.empirical.nasa import Nasa

bad = 0
T = 500.


def check(label, got, want):
    global bad
    ok = np.allclose(got, want, rtol=1e-10, atol=0.)
    print('%-46s got %-22r expected %-22r %s' % (label, got, want, 'ok' if ok else 'WRONG'))
    bad += not ok


def statmech(name, elements, wavenumbers):
    return StatMech(name=name, elements=elements, potentialenergy=-1.,
                    vib_wavenumbers=wavenumbers, **presets['harmonic'])


# two adsorbates built from the same elements: water and hydrogen peroxide
h2o = statmech('H2O*', {'H': 2, 'O': 1}, [3800., 3650., 1600.])
h2o2 = statmech('H2O2*', {'H': 2, 'O': 2}, [3600., 3600., 1400., 1300., 880., 370.])
for sp in (h2o, h2o2):          # water is asked first, the peroxide second
    M = get_molecular_weight(sp.elements)
    check('%s.get_S(J/g/K)' % sp.name, sp.get_S(units='J/g/K', T=T),
          sp.get_SoR(T=T) * c.R('J/mol/K') / M)
    check('%s.get_H(kJ/kg)' % sp.name, sp.get_H(units='kJ/kg', T=T),
          sp.get_HoRT(T=T) * c.R('kJ/mol/K') * T / (M * 1.e-3))
    check('%s.get_Cv(J/g/K)/get_Cv(J/mol/K) * M' % sp.name,
          sp.get_Cv(units='J/g/K', T=T) / sp.get_Cv(units='J/mol/K', T=T) * M, 1.)

# the same with two NASA polynomials (CO then CO2)
a = np.array([3.5, 1.e-3, 0., 0., 0., -1.4e4, 4.])
co = Nasa(name='CO', elements={'C': 1, 'O': 1}, a_low=a, a_high=a, T_low=200., T_mid=1000., T_high=3000.)
co2 = Nasa(name='CO2', elements={'C': 1, 'O': 2}, a_low=a, a_high=a, T_low=200., T_mid=1000., T_high=3000.)
for sp in (co, co2):
    M = get_molecular_weight(sp.elements)
    check('%s.get_Cp(J/g/K)' % sp.name, sp.get_Cp(T=T, units='J/g/K'),
          sp.get_CpoR(T=T) * c.R('J/mol/K') / M)
print('WRONG' if bad else 'all right')
sys.exit(1 if bad else 0)
