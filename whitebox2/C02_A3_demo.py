"""C02 A3: NASA-7 temperature arrays with 32 or more entries take a new array-expression path whose segment mask is
T > T_mid: an entry exactly on the break temperature is evaluated with the LOWER segment.  Shorter arrays and scalars
still go through get_a (upper segment at T_mid).
exit 1 / prints WRONG with the change, exit 0 without.  Takes pmutt from PYTHONPATH."""
import sys
import warnings
import numpy as np
from pmutt.empirical.nasa import Nasa, get_nasa_CpoR, get_nasa_HoRT, get_nasa_SoR

warnings.simplefilter('ignore')
# any coefficient set is in the quantifier: two segments that do not join smoothly at T_mid
a_low = np.array([4.2, -2.0e-3, 6.5e-6, -5.5e-9, 1.8e-12, -3.0e4, -0.85])
a_high = np.array([2.7, 2.9e-3, -7.7e-7, 9.4e-11, -4.2e-15, -2.9e4, 6.9])
sp = Nasa(name='X', T_low=200., T_mid=1000., T_high=3500., a_low=a_low, a_high=a_high)
T = np.arange(300., 3500., 50.)                         # 64 temperatures, one of them exactly T_mid = 1000 K
i_mid = int(np.flatnonzero(T == 1000.)[0])
bad = False
for q, ev in (('get_CpoR', get_nasa_CpoR), ('get_HoRT', get_nasa_HoRT), ('get_SoR', get_nasa_SoR)):
    arr = getattr(sp, q)(T=T)
    each = np.array([getattr(sp, q)(T=float(t)) for t in T])
    upper = ev(a=a_high, T=1000.)
    # (tolerance: the array path may differ from np.dot in the last bit; the defect is not a rounding effect)
    wrong = np.flatnonzero(~np.isclose(arr, each, rtol=1e-10, atol=0.))
    print('%-8s at T_mid: array -> %.6f, on its own -> %.6f, upper segment -> %.6f   entries that differ: %s'
          % (q, arr[i_mid], each[i_mid], upper, [float(x) for x in T[wrong]]))
    if len(wrong):
        print('WRONG: %s(array of %d) differs from element-by-element evaluation at %s K (lower segment used at the '
              'break temperature)' % (q, len(T), [float(x) for x in T[wrong]]))
        bad = True
    short = getattr(sp, q)(T=T[i_mid - 1:i_mid + 2])
    assert np.allclose(short, each[i_mid - 1:i_mid + 2], rtol=1e-12), 'short arrays are unaffected'
G = sp.get_GoRT(T=T)
if not np.isclose(G[i_mid], get_nasa_HoRT(a=a_high, T=1000.) - get_nasa_SoR(a=a_high, T=1000.), rtol=1e-10):
    print('WRONG: G/RT at T_mid in the array = %.6f, H/RT - S/R of the upper segment = %.6f'
          % (G[i_mid], get_nasa_HoRT(a=a_high, T=1000.) - get_nasa_SoR(a=a_high, T=1000.)))
    bad = True
sys.exit(1 if bad else 0)
