"""C15_A2: a row that names a preset (statmech_model) and, in a column to the RIGHT of it, its own per-mode model.
The cell of the row must be in the record (the preset only fills what the row does not give), whatever the column
order. Tree is taken from PYTHONPATH."""
import os
import sys
import tempfile
import warnings

import openpyxl

warnings.filterwarnings('ignore')
from pmutt.io.excel import read_excel
from pmutt.statmech import vib, elec, rot, EmptyMode

wb = openpyxl.Workbook()
ws = wb.active
ws.title = 'species'
ws.append(['name', 'statmech_model', 'vib_model', 'rot_model', 'potentialenergy', 'vib_wavenumber', 'vib_wavenumber'])
ws.append(['comment row', None, None, None, None, None, None])
ws.append(['butane', 'idealgas', ' QRRHOVib ', None, -70.1, 3050.5, 120.25])     # low modes: quasi-RRHO wanted
ws.append(['Pt(S)', 'idealgas', 'EmptyMode', 'EmptyMode', -6.2, None, None])       # switch two modes off
ws.append(['CO', 'idealgas', None, None, -14.8, 2170.5, None])                   # preset alone
path = os.path.join(tempfile.mkdtemp(), 'book.xlsx')
wb.save(path)

out = read_excel(path, sheet_name='species')
want = [('butane', vib.QRRHOVib, rot.RigidRotor), ('Pt(S)', EmptyMode, EmptyMode), ('CO', vib.HarmonicVib, rot.RigidRotor)]
bad = 0
if len(out) != 3:
    print('WRONG: %d records for 3 rows' % len(out))
    bad = 1
for rec, (name, vib_cls, rot_cls) in zip(out, want):
    ok = rec.get('name') == name and rec.get('vib_model') is vib_cls and rec.get('rot_model') is rot_cls \
        and rec.get('elec_model') is elec.GroundStateElec
    print('%s %-7s vib_model=%s (cell/preset says %s), rot_model=%s (expected %s)' % (
        'ok   ' if ok else 'WRONG', name, getattr(rec.get('vib_model'), '__name__', None), vib_cls.__name__,
        getattr(rec.get('rot_model'), '__name__', None), rot_cls.__name__))
    bad = bad or not ok
sys.exit(1 if bad else 0)
