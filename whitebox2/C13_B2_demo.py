"""C13_B2: EmpiricalBase.misc_models becomes a pass-through property (getter/setter around _misc_models).
Prints every value with full precision (diff the output of the two trees) and checks each against an independent
formula.  exit 0 on both trees.  Tree is taken from PYTHONPATH."""
import copy
import pickle
import sys
import numpy as np
from pmutt import constants as c
from pmutt.empirical.nasa import Nasa, Nasa9, SingleNasa9
from pmutt.empirical.shomate import Shomate
from pmutt.empirical.references import Reference
from pmutt.empirical import GasPressureAdj, EmpiricalBase
from pmutt.mixture.cov import PiecewiseCovEffect

A_LOW = [4.04618796e+00, -2.34746343e-03, 7.46806220e-06, -6.40166207e-09, 2.05109613e-12, -3.03156920e+04, 0.242]
A_HIGH = [2.41854323e+00, 3.35448922e-03, -9.66398101e-07, 1.34441829e-10, -7.18940063e-15, -2.97582484e+04, 8.37]
A9 = [2.210371497e+04, -3.818461820e+02, 6.082738360e+00, -8.530914410e-03, 1.384646189e-05, -9.625793620e-09,
      2.519705809e-12, 7.108460860e+02, -1.076003744e+01]
ASH = np.array([30.09200, 6.832514, 6.793435, -2.534480, 0.082139, -250.8810, 223.3967, -241.8264])
IV, SL = [0., 0.3, 0.6], [-20., -35., 10.]


def energy(x):
    e = 0.
    for k in range(len(IV)):
        hi = IV[k + 1] if k + 1 < len(IV) else np.inf
        if x < hi:
            return e + SL[k] * (x - IV[k])
        e += SL[k] * (hi - IV[k])
    return e


def build(kind, **kw):
    if kind == 'Nasa':
        return Nasa(name='A', T_low=200., T_mid=1000., T_high=3500., a_low=A_LOW, a_high=A_HIGH, **kw)
    if kind == 'Nasa9':
        return Nasa9(name='A', nasas=[SingleNasa9(T_low=200., T_high=1000., a=A9)], **kw)
    if kind == 'Reference':
        return Reference(name='A', T_ref=298., HoRT_ref=-10., **kw)
    if kind == 'EmpiricalBase':
        return EmpiricalBase(name='A', **kw)
    return Shomate(name='A', T_low=298., T_high=1700., a=ASH, **kw)


def misc(order):
    if order is None:
        return None
    out = []
    for tok in [t for t in order.split(',') if t]:
        if tok == 'adj':
            out.append(GasPressureAdj())
        elif tok == 'entry':
            out.append({'class': "<class 'pmutt.empirical.GasPressureAdj'>"})
        else:
            out.append(PiecewiseCovEffect(name_i='A', name_j='B' if tok == 'cov' else 'C', intervals=list(IV),
                                          slopes=list(SL)))
    return out


def names(sp):
    mm = sp.misc_models
    return None if mm is None else [type(m).__name__ for m in mm]


bad = 0
rng = np.random.RandomState(11)
for kind in ('Nasa', 'Nasa9', 'Shomate'):
    bare = build(kind)
    for phase in ('S', 'G', 'gas', None):
        for order in (None, '', 'cov', 'cov,cov2', 'adj,cov', 'cov,adj', 'entry,cov', 'cov,adj,cov2'):
            for add in (True, False):
                if 'entry' in (order or '') and (not add or phase in ('S', None)):
                    continue
                given = misc(order)
                sp = build(kind, phase=phase, misc_models=given, add_gas_P_adj=add)
                print(kind, phase, order, add, names(sp), 'same list' if sp.misc_models is given else 'other list',
                      sorted(k.lstrip('_') for k in vars(sp)))
                histories = [('built', sp), ('deepcopy', copy.deepcopy(sp)), ('copy', copy.copy(sp)),
                             ('pickle', pickle.loads(pickle.dumps(sp))),
                             ('reload', type(sp).from_dict(sp.to_dict())),
                             ('reload2', type(sp).from_dict(type(sp).from_dict(sp.to_dict()).to_dict()))]
                # attribute assigned after construction, list extended in place
                late = build(kind, phase=phase)
                late.misc_models = misc(order) if 'entry' not in (order or '') else None
                histories.append(('assigned', late))
                if sp.misc_models is not None:
                    grown = build(kind, phase=phase, misc_models=misc(order), add_gas_P_adj=add)
                    grown.misc_models.append(misc('cov2')[0])
                    histories.append(('appended', grown))
                for label, s in histories:
                    mm = s.misc_models or []
                    n_adj = sum(isinstance(m, GasPressureAdj) for m in mm)
                    n_cov = len(mm) - n_adj
                    print(' ', label, names(s), s.to_dict()['misc_models'] == sp.to_dict()['misc_models'], s == sp)
                    for T in (450., np.array([900., 400., 650.])):
                        x, P = float(rng.choice([0., 0.1, 0.3, 0.45, 0.9, 1.])), float(10 ** rng.uniform(-3, 2))
                        contrib = np.array([n_cov * energy(x) / (c.R('kcal/mol/K') * Ti) for Ti in np.atleast_1d(T)])
                        for q, want in (('get_CpoR', np.atleast_1d(bare.get_CpoR(T=T))),
                                        ('get_HoRT', np.atleast_1d(bare.get_HoRT(T=T)) + contrib),
                                        ('get_SoR', np.atleast_1d(bare.get_SoR(T=T)) - n_adj * np.log(P)),
                                        ('get_GoRT', np.atleast_1d(bare.get_GoRT(T=T)) + contrib + n_adj * np.log(P))):
                            got = np.atleast_1d(getattr(s, q)(T=T, x=x, P=P))
                            print('   ', q, np.atleast_1d(T).tolist(), x, repr(P), got.tolist())
                            if not np.allclose(got, want, rtol=1e-11, atol=1e-11):
                                print('WRONG', want.tolist())
                                bad += 1
                        print('   ', np.atleast_1d(s.get_G(T=T, units='kJ/mol', x=x, P=P)).tolist(),
                              np.atleast_1d(s.get_S(T=T, units='J/mol/K', x=x, P=P)).tolist())
# other subclasses of EmpiricalBase keep the attribute too
for kind in ('Reference', 'EmpiricalBase'):
    for phase, order in (('G', None), ('G', 'cov'), ('S', 'cov'), (None, None)):
        s = build(kind, phase=phase, misc_models=misc(order))
        print(kind, phase, order, names(s), names(type(s).from_dict(s.to_dict())), s.to_dict()['misc_models'])
# a segment never had the attribute
try:
    SingleNasa9(T_low=200., T_high=1000., a=A9).misc_models
    print('segment has the attribute')
except AttributeError:
    print('segment: AttributeError')
print(hasattr(SingleNasa9(T_low=200., T_high=1000., a=A9), 'misc_models'))
sys.exit(1 if bad else 0)
