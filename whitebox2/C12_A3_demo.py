"""C12_A3: lists are accepted through np.asarray(num, dtype=float) followed by an in-place scaling; for a float array
np.asarray returns the caller's own array, so the argument is overwritten and every later conversion of it is wrong.
Takes the tree from PYTHONPATH.  exit 1 / prints WRONG when the property is broken, exit 0 otherwise."""
import sys
import numpy as np
from pmutt.constants import convert_unit

bad = []


def check(label, got, want):
    ok = np.allclose(got, want, rtol=1e-9, atol=0.)
    print('%-46s got %-50s want %s %s' % (label, np.asarray(got).tolist(), want, '' if ok else '  <-- WRONG'))
    if not ok:
        bad.append(label)


E = np.array([1., 2., 3.])                      # energies in eV
in_kJ = np.array(convert_unit(E, 'eV', 'kJ'))   # (copied: what the first call returned)
in_kcal = convert_unit(E, 'eV', 'kcal')          # a second conversion of the same quantity
f_kJ = convert_unit(1., 'eV', 'kJ')
f_kcal = convert_unit(1., 'eV', 'kcal')
check("first conversion  convert_unit(E,'eV','kJ')", in_kJ, [f_kJ, 2 * f_kJ, 3 * f_kJ])
check("second conversion convert_unit(E,'eV','kcal')", in_kcal, [f_kcal, 2 * f_kcal, 3 * f_kcal])
check("the caller's E after the two calls", E, [1., 2., 3.])
# transitive: bar -> kPa directly against bar -> Pa -> kPa, on the same array
P = np.array([1., 10.])
direct = np.array(convert_unit(P, 'bar', 'kPa'))
via = convert_unit(convert_unit(P, 'bar', 'Pa'), 'Pa', 'kPa')
check("bar->kPa of [1, 10]", direct, [100., 1000.])
check("bar->Pa->kPa of the same P", via, [100., 1000.])
if bad:
    print('WRONG: convert_unit overwrites the array it is given; %d values differ' % len(bad))
    sys.exit(1)
print('ok')
