"""C19 / A3: requests to phase diagrams one after the other; a later request that leaves a condition out (the species'
default applies, P = 1 bar) must not be answered under the condition an earlier request gave - not even an earlier
request to ANOTHER diagram."""
import sys
import numpy as np
from pmutt import constants as c
from pmutt.reaction import Reaction
from pmutt.reaction.phasediagram import PhaseDiagram


class Sp:
    """species with an ideal-gas like Gibbs energy depending on T and P"""
    def __init__(self, name, h, s, elements, gas=False):
        self.name, self.h, self.s, self.elements, self.gas = name, h, s, elements, gas
        self.phase = 'G' if gas else 'S'

    def get_GoRT(self, T=298.15, P=1., **kwargs):
        return self.h / T - self.s + (np.log(P) if self.gas else 0.)

    def get_G(self, units, T=298.15, **kwargs):
        return self.get_GoRT(T=T, **kwargs) * T * c.R('{}/K'.format(units))


sp = {'M': Sp('M', 0., 0., {'M': 1}), 'O2': Sp('O2', 0., 25., {'O': 2}, gas=True),
      'MO': Sp('MO', -30000., 5., {'M': 1, 'O': 1}), 'MO2': Sp('MO2', -52000., 9., {'M': 1, 'O': 2}),
      'M2O': Sp('M2O', -36000., 7., {'M': 2, 'O': 1})}
rx = [Reaction.from_string(s, sp) for s in ('M = M', 'M + 0.5O2 = MO', 'M + O2 = MO2', '2M + 0.5O2 = M2O')]
nf = [1., 1., 1., 2.]
T_grid = [600., 900., 1200., 1500., 1800.]
bad = 0


def ask(pd, reactions, factors, units, **cond):
    global bad
    G, st = pd.get_GoRT_1D('T', T_grid, G_units=units, **cond)
    want = np.array([[r.get_delta_GoRT(**dict(cond, T=t)) / f * (c.R(units + '/K') * t if units else 1.)
                      for t in T_grid] for r, f in zip(reactions, factors)])
    wst = [int(v) for v in np.argmin(want, axis=0)]
    ok = np.allclose(G, want, rtol=1e-10) and [int(v) for v in st] == wst
    print('%d reactions units=%s conditions=%s: stable=%s expected=%s; last row %s expected %s  %s' % (
        len(reactions), units, cond, [int(v) for v in st], wst, np.round(G[-1], 3), np.round(want[-1], 3),
        'ok' if ok else 'WRONG'))
    bad += not ok


pd1 = PhaseDiagram(rx, norm_factors=list(nf))
ask(pd1, rx, nf, None, P=1e-25)            # oxygen-poor
ask(pd1, rx, nf, None)                     # P left out: 1 bar
ask(pd1, rx, nf, 'kJ/mol')                 # the same with units
pd2 = PhaseDiagram(rx[:3], norm_factors=[1., 2., 1.])       # another diagram
ask(pd2, rx[:3], [1., 2., 1.], 'kJ/mol')
sys.exit(1 if bad else 0)
