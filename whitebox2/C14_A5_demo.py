"""C14_A5: a reaction printed with a blank-padded reaction delimiter (' = ', ' <=> ', ' -> ') no longer parses back when
the same delimiter is handed to from_string.  Run with PYTHONPATH=<tree>.  exit 0 = right behaviour, exit 1 = WRONG."""
import sys
from pmutt.reaction import Reaction, ChemkinReaction


class Sp:
    def __init__(self, name):
        self.name = name
        self.phase = 'G'

    def __repr__(self):
        return self.name


species = {n: Sp(n) for n in ('H2', 'O2', 'H2O', 'H2O_TS')}
H2, O2, H2O, TS = (species[n] for n in ('H2', 'O2', 'H2O', 'H2O_TS'))
bad = 0
for cls in (Reaction, ChemkinReaction):
    rxn = cls(reactants=[H2, O2], reactants_stoich=[1., 0.5], products=[H2O], products_stoich=[1.],
              transition_state=[TS], transition_state_stoich=[1.])
    for sd, rd in ((' + ', ' = '), (' + ', ' <=> '), ('+', ' <=> '), (' & ', ' -> '),
                   # what stays right with the change: delimiters without blanks, blanks only in the species delimiter
                   ('+', '='), (' + ', '<=>')):
        txt = rxn.to_string(species_delimiter=sd, reaction_delimiter=rd)
        want = ([H2, O2], [1., 0.5], [H2O], [1.], [TS], [1.])
        try:
            back = cls.from_string(txt, species, species_delimiter=sd, reaction_delimiter=rd)
            got = (back.reactants, back.reactants_stoich, back.products, back.products_stoich,
                   back.transition_state, back.transition_state_stoich)
        except KeyError as e:
            got = 'KeyError: %s' % str(e)[:75]
        ok = got == want
        print('%s %-15s printed with %-6r/%-7r as %-36r parsed with the same delimiters: %s'
              % ('right:' if ok else 'WRONG:', cls.__name__, sd, rd, txt, got))
        bad += not ok
sys.exit(1 if bad else 0)
