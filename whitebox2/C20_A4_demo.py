"""C20 A4: real gases with a large co-volume (benzene, n-hexane, n-octane: b between 1e-4 and 2e-4 m3/mol, inside the
range of the property). Build the equation of state from a, b and from the critical constants, read the critical
constants back, and do one solve-and-substitute round trip. Exit 0 when right, exit 1 (prints WRONG) otherwise.
Tree taken from PYTHONPATH."""
import sys
from pmutt.eos import vanDerWaalsEOS

#            a / Pa m6 mol-2, b / m3 mol-1, Tc / K, Pc / bar
gases = {'CO2': (0.3640, 4.267e-5, 304.13, 73.75),
         'benzene': (1.882, 1.193e-4, 562.05, 48.95),
         'n-hexane': (2.484, 1.744e-4, 507.6, 30.25),
         'n-octane': (3.788, 2.37e-4, 568.7, 24.9)}
bad = 0
for name, (a, b, Tc, Pc) in gases.items():
    if not (0.003 <= a <= 3. and 1e-5 <= b <= 2e-4):
        continue            # outside the quantifier of the property (n-octane)
    try:
        eos = vanDerWaalsEOS(a=a, b=b)
        V = eos.get_V(T=600., P=10., n=2.)
        P_back = eos.get_P(T=600., V=V, n=2.)
        crit = vanDerWaalsEOS.from_critical(Tc=Tc, Pc=Pc)
        Tc_back, Pc_back, Vc = crit.get_Tc(), crit.get_Pc(), crit.get_Vc(n=2.)
    except Exception as e:
        print('WRONG  %s (a=%g, b=%g; Tc=%g K, Pc=%g bar): %s: %s' % (name, a, b, Tc, Pc, type(e).__name__, e))
        bad += 1
        continue
    ok = abs(P_back / 10. - 1) < 1e-9 and abs(Tc_back / Tc - 1) < 1e-12 and abs(Pc_back / Pc - 1) < 1e-12 \
        and abs(Vc / (3 * 2. * crit.b) - 1) < 1e-12
    print('%s  %s: get_P(get_V)=%.10g bar (10), Tc=%.10g (%g), Pc=%.10g (%g)' % ('ok   ' if ok else 'WRONG', name, P_back,
                                                                            Tc_back, Tc, Pc_back, Pc))
    bad += not ok
sys.exit(1 if bad else 0)
