"""C01 B3 (behaviour-preserving): the four vibrational models bind get_CpoR to get_CvoR in the class body
(`get_CpoR = get_CvoR`) instead of a wrapper method that returns self.get_CvoR(T=T).  Every public heat capacity -
mode level (keyword and positional T, with units) and species level (verbose and total) - is compared bit for bit with
values recorded on the unchanged tree (dcdf1e7); exit 0 on both."""
import sys
import json
import inspect
import itertools
import numpy as np
from ase.build import molecule
from pmutt import _get_expected_arguments
from pmutt.statmech import StatMech, presets
from pmutt.statmech.vib import HarmonicVib, QRRHOVib, EinsteinVib, DebyeVib


def compute():
    out = {}
    Ts = (50., 77.3, 298.15, 1000., 5000.)
    sets = ([3825.434, 3710.2642, 1582.432], [10., 25., 4500.], [667.4, 667.4, 1388.2, 2349.2],
            [-500., 120., 45., 2100.], [])
    models = []
    for w in sets:
        models.append(('HarmonicVib%r' % (w,), HarmonicVib(w)))
        models.append(('HarmonicVib%r sub' % (w,), HarmonicVib(w, imaginary_substitute=50.)))
        if w:
            models.append(('QRRHOVib%r' % (w,), QRRHOVib(w)))
            models.append(('QRRHOVib%r sub' % (w,), QRRHOVib(w, imaginary_substitute=50., v0=80., Bav=2.e-44)))
    for th in (50., 428., 2000.):
        models.append(('EinsteinVib %g' % th, EinsteinVib(einstein_temperature=th, interaction_energy=-0.3)))
        models.append(('DebyeVib %g' % th, DebyeVib(debye_temperature=th, interaction_energy=-0.3)))
    for name, m in models:
        for T in Ts:
            out['%s T%g Cp' % (name, T)] = m.get_CpoR(T=T)
            out['%s T%g Cp positional' % (name, T)] = m.get_CpoR(T)
            out['%s T%g Cv' % (name, T)] = m.get_CvoR(T=T)
            out['%s T%g Cp J/mol/K' % (name, T)] = m.get_Cp(units='J/mol/K', T=T)
            out['%s T%g H G' % (name, T)] = [m.get_HoRT(T=T), m.get_GoRT(T=T)]
        out['%s expected arguments' % name] = list(_get_expected_arguments(m.get_CpoR))
        out['%s signature' % name] = str(inspect.signature(m.get_CpoR))
        try:
            m.get_CpoR()
        except TypeError:
            out['%s no T' % name] = 'TypeError'
    sp = StatMech(name='H2O', atoms=molecule('H2O'), symmetrynumber=2, spin=0., potentialenergy=-14.22,
                  vib_wavenumbers=[3825.434, 3710.2642, 1582.432], **presets['idealgas'])
    solid = StatMech(name='Cu', vib_model=DebyeVib(debye_temperature=343., interaction_energy=-3.5))
    for T in Ts:
        out['H2O species T%g' % T] = [float(x) for x in sp.get_CpoR(T=T, verbose=True)] + \
            [float(sp.get_CpoR(T=T)), float(sp.get_Cp(units='J/mol/K', T=T))]
        out['Cu species T%g' % T] = [float(x) for x in solid.get_CpoR(T=T, verbose=True)] + [float(solid.get_CpoR(T=T))]
    return out


def canon(v):
    if isinstance(v, (list, tuple)):
        return [canon(x) for x in v]
    if isinstance(v, (float, np.floating)):
        return float(v).hex()
    return v


EXPECTED = json.loads(r"""{
"Cu species T1000": [
"0x0.0p+0",
"0x1.7dc0270f8fcaep+1",
"0x0.0p+0",
"0x0.0p+0",
"0x0.0p+0",
"0x0.0p+0",
"0x0.0p+0",
"0x1.7dc0270f8fcaep+1"
],
"Cu species T298.15": [
"0x0.0p+0",
"0x1.67be31c145813p+1",
"0x0.0p+0",
"0x0.0p+0",
"0x0.0p+0",
"0x0.0p+0",
"0x0.0p+0",
"0x1.67be31c145813p+1"
],
"Cu species T50": [
"0x0.0p+0",
"0x1.32f4ad58fb83ep-1",
"0x0.0p+0",
"0x0.0p+0",
"0x0.0p+0",
"0x0.0p+0",
"0x0.0p+0",
"0x1.32f4ad58fb83ep-1"
],
"Cu species T5000": [
"0x0.0p+0",
"0x1.7fe8df86eada9p+1",
"0x0.0p+0",
"0x0.0p+0",
"0x0.0p+0",
"0x0.0p+0",
"0x0.0p+0",
"0x1.7fe8df86eada9p+1"
],
"Cu species T77.3": [
"0x0.0p+0",
"0x1.524fd1257e317p+0",
"0x0.0p+0",
"0x0.0p+0",
"0x0.0p+0",
"0x0.0p+0",
"0x0.0p+0",
"0x1.524fd1257e317p+0"
],
"DebyeVib 2000 T1000 Cp": "0x1.3cf4e96c417d4p+1",
"DebyeVib 2000 T1000 Cp J/mol/K": "0x1.496a5b2dfd060p+4",
"DebyeVib 2000 T1000 Cp positional": "0x1.3cf4e96c417d4p+1",
"DebyeVib 2000 T1000 Cv": "0x1.3cf4e96c417d4p+1",
"DebyeVib 2000 T1000 H G": [
"0x1.25e3ccb6b7753p+2",
"-0x1.0deab76f78f64p+1"
],
"DebyeVib 2000 T298.15 Cp": "0x1.42b833cd86ce2p-1",
"DebyeVib 2000 T298.15 Cp J/mol/K": "0x1.4f67a2fc60f74p+2",
"DebyeVib 2000 T298.15 Cp positional": "0x1.42b833cd86ce2p-1",
"DebyeVib 2000 T298.15 Cv": "0x1.42b833cd86ce2p-1",
"DebyeVib 2000 T298.15 H G": [
"0x1.64739e621758cp+3",
"-0x1.0c4f2cf225ec8p+2"
],
"DebyeVib 2000 T50 Cp": "0x1.dec9008638324p-9",
"DebyeVib 2000 T50 Cp J/mol/K": "0x1.f19ae149c3ae4p-6",
"DebyeVib 2000 T50 Cp positional": "0x1.dec9008638324p-9",
"DebyeVib 2000 T50 Cv": "0x1.dec9008638324p-9",
"DebyeVib 2000 T50 H G": [
"0x1.057ec053e7274p+6",
"-0x1.8a09fb73107ccp+4"
],
"DebyeVib 2000 T5000 Cp": "0x1.7cf20a30bec7dp+1",
"DebyeVib 2000 T5000 Cp J/mol/K": "0x1.8beb628bf28a1p+4",
"DebyeVib 2000 T5000 Cp positional": "0x1.7cf20a30bec7dp+1",
"DebyeVib 2000 T5000 Cv": "0x1.7cf20a30bec7dp+1",
"DebyeVib 2000 T5000 H G": [
"0x1.9d24b8397c92fp+1",
"-0x1.1bb8cf72c41e4p+2"
],
"DebyeVib 2000 T77.3 Cp": "0x1.ba4ac25223ca9p-7",
"DebyeVib 2000 T77.3 Cp J/mol/K": "0x1.cbad6ac4e9eebp-4",
"DebyeVib 2000 T77.3 Cp positional": "0x1.ba4ac25223ca9p-7",
"DebyeVib 2000 T77.3 Cv": "0x1.ba4ac25223ca9p-7",
"DebyeVib 2000 T77.3 H G": [
"0x1.524eee848d648p+5",
"-0x1.fdc85823294a4p+3"
],
"DebyeVib 2000 expected arguments": [
"self",
"T"
],
"DebyeVib 2000 no T": "TypeError",
"DebyeVib 2000 signature": "(T)",
"DebyeVib 428 T1000 Cp": "0x1.7c8178b148b63p+1",
"DebyeVib 428 T1000 Cp J/mol/K": "0x1.8b76644e421afp+4",
"DebyeVib 428 T1000 Cp positional": "0x1.7c8178b148b63p+1",
"DebyeVib 428 T1000 Cv": "0x1.7c8178b148b63p+1",
"DebyeVib 428 T1000 H G": [
"0x1.04a3ad013f84cp-1",
"-0x1.c0dda8dd6d92ap+2"
],
"DebyeVib 428 T298.15 Cp": "0x1.5b2bdc3daefeap+1",
"DebyeVib 428 T298.15 Cp J/mol/K": "0x1.68d15891bb7dfp+4",
"DebyeVib 428 T298.15 Cp positional": "0x1.5b2bdc3daefeap+1",
"DebyeVib 428 T298.15 Cv": "0x1.5b2bdc3daefeap+1",
"DebyeVib 428 T298.15 H G": [
"-0x1.4944879a1c0c9p+2",
"-0x1.6e0e4805b1a3ap+3"
],
"DebyeVib 428 T50 Cp": "0x1.645d87a7b12fep-2",
"DebyeVib 428 T50 Cp J/mol/K": "0x1.725f88494c36fp+1",
"DebyeVib 428 T50 Cp positional": "0x1.645d87a7b12fep-2",
"DebyeVib 428 T50 Cv": "0x1.645d87a7b12fep-2",
"DebyeVib 428 T50 H G": [
"-0x1.452be7be3bb82p+5",
"-0x1.e0393821c073ep+5"
],
"DebyeVib 428 T5000 Cp": "0x1.7fdbfe75aa4c4p+1",
"DebyeVib 428 T5000 Cp J/mol/K": "0x1.8ef2a9239dcbcp+4",
"DebyeVib 428 T5000 Cp positional": "0x1.7fdbfe75aa4c4p+1",
"DebyeVib 428 T5000 Cv": "0x1.7fdbfe75aa4c4p+1",
"DebyeVib 428 T5000 H G": [
"0x1.3fabb5d41902ap+1",
"-0x1.223ce195ac692p+3"
],
"DebyeVib 428 T77.3 Cp": "0x1.db5d8c0b98816p-1",
"DebyeVib 428 T77.3 Cp J/mol/K": "0x1.ee0d035b330a4p+2",
"DebyeVib 428 T77.3 Cp positional": "0x1.db5d8c0b98816p-1",
"DebyeVib 428 T77.3 Cv": "0x1.db5d8c0b98816p-1",
"DebyeVib 428 T77.3 H G": [
"-0x1.a1192bb177c14p+4",
"-0x1.374f1238a5664p+5"
],
"DebyeVib 428 expected arguments": [
"self",
"T"
],
"DebyeVib 428 no T": "TypeError",
"DebyeVib 428 signature": "(T)",
"DebyeVib 50 T1000 Cp": "0x1.7ff3b68d8760ap+1",
"DebyeVib 50 T1000 Cp J/mol/K": "0x1.8f0b4fe93708ep+4",
"DebyeVib 50 T1000 Cp positional": "0x1.7ff3b68d8760ap+1",
"DebyeVib 50 T1000 Cv": "0x1.7ff3b68d8760ap+1",
"DebyeVib 50 T1000 H G": [
"-0x1.7953408e0e1a8p-2",
"-0x1.aefcda9a2a57fp+3"
],
"DebyeVib 50 T298.15 Cp": "0x1.7f75e7e0bb1dep+1",
"DebyeVib 50 T298.15 Cp J/mol/K": "0x1.8e888f45dee1fp+4",
"DebyeVib 50 T298.15 Cp positional": "0x1.7f75e7e0bb1dep+1",
"DebyeVib 50 T298.15 Cv": "0x1.7f75e7e0bb1dep+1",
"DebyeVib 50 T298.15 H G": [
"-0x1.09708101e12c9p+3",
"-0x1.207f8c36ead7ep+4"
],
"DebyeVib 50 T50 Cp": "0x1.6d77136c18c34p+1",
"DebyeVib 50 T50 Cp J/mol/K": "0x1.7bd4a59b7e3c9p+4",
"DebyeVib 50 T50 Cp positional": "0x1.6d77136c18c34p+1",
"DebyeVib 50 T50 Cv": "0x1.6d77136c18c34p+1",
"DebyeVib 50 T50 H G": [
"-0x1.00ea61157dd63p+6",
"-0x1.1a35d5ded2ee5p+6"
],
"DebyeVib 50 T5000 Cp": "0x1.7fff822bdc406p+1",
"DebyeVib 50 T5000 Cp J/mol/K": "0x1.8f1792391a3ccp+4",
"DebyeVib 50 T5000 Cp positional": "0x1.7fff822bdc406p+1",
"DebyeVib 50 T5000 Cv": "0x1.7fff822bdc406p+1",
"DebyeVib 50 T5000 H G": [
"0x1.29c25a49c8e0ap+1",
"-0x1.f06074ac7d6d2p+3"
],
"DebyeVib 50 T77.3 Cp": "0x1.7815de1064c9ep+1",
"DebyeVib 50 T77.3 Cp J/mol/K": "0x1.86de4eab8a79fp+4",
"DebyeVib 50 T77.3 Cp positional": "0x1.7815de1064c9ep+1",
"DebyeVib 50 T77.3 Cv": "0x1.7815de1064c9ep+1",
"DebyeVib 50 T77.3 H G": [
"-0x1.442731ebb48b6p+5",
"-0x1.7a80574d957d1p+5"
],
"DebyeVib 50 expected arguments": [
"self",
"T"
],
"DebyeVib 50 no T": "TypeError",
"DebyeVib 50 signature": "(T)",
"EinsteinVib 2000 T1000 Cp": "0x1.160a285334e4cp+1",
"EinsteinVib 2000 T1000 Cp J/mol/K": "0x1.20f7fdbd1cdbap+4",
"EinsteinVib 2000 T1000 Cp positional": "0x1.160a285334e4cp+1",
"EinsteinVib 2000 T1000 Cv": "0x1.160a285334e4cp+1",
"EinsteinVib 2000 T1000 H G": [
"0x1.d4bc3660186d2p-2",
"-0x1.d5cf465de782fp-1"
],
"EinsteinVib 2000 T298.15 Cp": "0x1.52688e4cca830p-3",
"EinsteinVib 2000 T298.15 Cp J/mol/K": "0x1.5fb5dce5e4277p+0",
"EinsteinVib 2000 T298.15 Cp positional": "0x1.52688e4cca830p-3",
"EinsteinVib 2000 T298.15 Cv": "0x1.52688e4cca830p-3",
"EinsteinVib 2000 T298.15 H G": [
"-0x1.97020fcd6c05ap+0",
"-0x1.9e3ea6d1c2517p+0"
],
"EinsteinVib 2000 T50 Cp": "0x1.6f59f6e41c2a2p-46",
"EinsteinVib 2000 T50 Cp J/mol/K": "0x1.7dca843ed0fb8p-43",
"EinsteinVib 2000 T50 Cp positional": "0x1.6f59f6e41c2a2p-46",
"EinsteinVib 2000 T50 Cv": "0x1.6f59f6e41c2a2p-46",
"EinsteinVib 2000 T50 H G": [
"-0x1.34117884caf19p+3",
"-0x1.34117884caf19p+3"
],
"EinsteinVib 2000 T5000 Cp": "0x1.7aebb3160365cp+1",
"EinsteinVib 2000 T5000 Cp J/mol/K": "0x1.89d0ab88622f7p+4",
"EinsteinVib 2000 T5000 Cp positional": "0x1.7aebb3160365cp+1",
"EinsteinVib 2000 T5000 Cv": "0x1.7aebb3160365cp+1",
"EinsteinVib 2000 T5000 H G": [
"0x1.2bfbd1b5a33ccp+1",
"-0x1.b66bf97b51fe8p+1"
],
"EinsteinVib 2000 T77.3 Cp": "0x1.9032af7c41822p-27",
"EinsteinVib 2000 T77.3 Cp J/mol/K": "0x1.9fedc3643eb04p-24",
"EinsteinVib 2000 T77.3 Cp positional": "0x1.9032af7c41822p-27",
"EinsteinVib 2000 T77.3 Cv": "0x1.9032af7c41822p-27",
"EinsteinVib 2000 T77.3 H G": [
"-0x1.8e893046a0a82p+2",
"-0x1.8e893047212e4p+2"
],
"EinsteinVib 2000 expected arguments": [
"self",
"T"
],
"EinsteinVib 2000 no T": "TypeError",
"EinsteinVib 2000 signature": "(T)",
"EinsteinVib 428 T1000 Cp": "0x1.7a310088d98dfp+1",
"EinsteinVib 428 T1000 Cp J/mol/K": "0x1.890ea24c56671p+4",
"EinsteinVib 428 T1000 Cp positional": "0x1.7a310088d98dfp+1",
"EinsteinVib 428 T1000 Cv": "0x1.7a310088d98dfp+1",
"EinsteinVib 428 T1000 H G": [
"-0x1.be281999876a8p-2",
"-0x1.8047ebe3d0648p+2"
],
"EinsteinVib 428 T298.15 Cp": "0x1.445562a0c0f59p+1",
"EinsteinVib 428 T298.15 Cp J/mol/K": "0x1.51150f8d6087bp+4",
"EinsteinVib 428 T298.15 Cp positional": "0x1.445562a0c0f59p+1",
"EinsteinVib 428 T298.15 Cv": "0x1.445562a0c0f59p+1",
"EinsteinVib 428 T298.15 H G": [
"-0x1.05b3f4062a48ap+3",
"-0x1.4ad62943149b4p+3"
],
"EinsteinVib 428 T50 Cp": "0x1.5931e7603b9ecp-5",
"EinsteinVib 428 T50 Cp J/mol/K": "0x1.66c38068a924ap-2",
"EinsteinVib 428 T50 Cp positional": "0x1.5931e7603b9ecp-5",
"EinsteinVib 428 T50 Cv": "0x1.5931e7603b9ecp-5",
"EinsteinVib 428 T50 H G": [
"-0x1.c641f7ceb8bfbp+5",
"-0x1.c64d39a130ac9p+5"
],
"EinsteinVib 428 T5000 Cp": "0x1.7fc3ff0a5ee8ep+1",
"EinsteinVib 428 T5000 Cp J/mol/K": "0x1.8ed9b83cdad33p+4",
"EinsteinVib 428 T5000 Cp positional": "0x1.7fc3ff0a5ee8ep+1",
"EinsteinVib 428 T5000 Cv": "0x1.7fc3ff0a5ee8ep+1",
"EinsteinVib 428 T5000 H G": [
"0x1.271c997d9b242p+1",
"-0x1.0239e1529d684p+3"
],
"EinsteinVib 428 T77.3 Cp": "0x1.75e44d65b393ep-2",
"EinsteinVib 428 T77.3 Cp J/mol/K": "0x1.8496ab226e9c9p+1",
"EinsteinVib 428 T77.3 Cp positional": "0x1.75e44d65b393ep-2",
"EinsteinVib 428 T77.3 Cv": "0x1.75e44d65b393ep-2",
"EinsteinVib 428 T77.3 H G": [
"-0x1.2553e5ef7bc4cp+5",
"-0x1.25f2ab6768608p+5"
],
"EinsteinVib 428 expected arguments": [
"self",
"T"
],
"EinsteinVib 428 no T": "TypeError",
"EinsteinVib 428 signature": "(T)",
"EinsteinVib 50 T1000 Cp": "0x1.7feb85c679bbbp+1",
"EinsteinVib 50 T1000 Cp J/mol/K": "0x1.8f02ccb6e3c2fp+4",
"EinsteinVib 50 T1000 Cp positional": "0x1.7feb85c679bbbp+1",
"EinsteinVib 50 T1000 Cv": "0x1.7feb85c679bbbp+1",
"EinsteinVib 50 T1000 H G": [
"-0x1.ec44eb89981d0p-2",
"-0x1.8efbd47768344p+3"
],
"EinsteinVib 50 T298.15 Cp": "0x1.7f19ef73824b1p+1",
"EinsteinVib 50 T298.15 Cp J/mol/K": "0x1.8e28f95fd390fp+4",
"EinsteinVib 50 T298.15 Cp positional": "0x1.7f19ef73824b1p+1",
"EinsteinVib 50 T298.15 Cv": "0x1.7f19ef73824b1p+1",
"EinsteinVib 50 T298.15 H G": [
"-0x1.156c8ac52c96ap+3",
"-0x1.1079ca392d026p+4"
],
"EinsteinVib 50 T50 Cp": "0x1.6189e5a21eaf8p+1",
"EinsteinVib 50 T50 Cp J/mol/K": "0x1.6f6f748dcfdfep+4",
"EinsteinVib 50 T50 Cp positional": "0x1.6189e5a21eaf8p+1",
"EinsteinVib 50 T50 Cv": "0x1.6189e5a21eaf8p+1",
"EinsteinVib 50 T50 H G": [
"-0x1.098659f594eaep+6",
"-0x1.16033be074798p+6"
],
"EinsteinVib 50 T5000 Cp": "0x1.7fff2e492d5a5p+1",
"EinsteinVib 50 T5000 Cp J/mol/K": "0x1.8f173b0a4dc08p+4",
"EinsteinVib 50 T5000 Cp positional": "0x1.7fff2e492d5a5p+1",
"EinsteinVib 50 T5000 Cv": "0x1.7fff2e492d5a5p+1",
"EinsteinVib 50 T5000 H G": [
"0x1.26e1667e7d6efp+1",
"-0x1.d0606a303f3cap+3"
],
"EinsteinVib 50 T77.3 Cp": "0x1.72e3141a930f4p+1",
"EinsteinVib 50 T77.3 Cp J/mol/K": "0x1.8177355cba280p+4",
"EinsteinVib 50 T77.3 Cp positional": "0x1.72e3141a930f4p+1",
"EinsteinVib 50 T77.3 Cv": "0x1.72e3141a930f4p+1",
"EinsteinVib 50 T77.3 H G": [
"-0x1.4f76f29865bbdp+5",
"-0x1.7255b5ad2bbcep+5"
],
"EinsteinVib 50 expected arguments": [
"self",
"T"
],
"EinsteinVib 50 no T": "TypeError",
"EinsteinVib 50 signature": "(T)",
"H2O species T1000": [
"0x1.4000000000000p+1",
"0x1.d89ee1c3327c5p-1",
"0x1.8000000000000p+0",
"0x0.0p+0",
"0x0.0p+0",
"0x0.0p+0",
"0x0.0p+0",
"0x1.3b13dc38664f8p+2",
"0x1.4776654afa0bfp+5"
],
"H2O species T298.15": [
"0x1.4000000000000p+1",
"0x1.cdab43027326bp-6",
"0x1.8000000000000p+0",
"0x0.0p+0",
"0x0.0p+0",
"0x0.0p+0",
"0x0.0p+0",
"0x1.01cdab4302732p+2",
"0x1.0befdee7306aap+5"
],
"H2O species T50": [
"0x1.4000000000000p+1",
"0x1.4081c0016daccp-55",
"0x1.8000000000000p+0",
"0x0.0p+0",
"0x0.0p+0",
"0x0.0p+0",
"0x0.0p+0",
"0x1.0000000000000p+2",
"0x1.0a100dff9d03bp+5"
],
"H2O species T5000": [
"0x1.4000000000000p+1",
"0x1.662311e828dc0p+1",
"0x1.8000000000000p+0",
"0x0.0p+0",
"0x0.0p+0",
"0x0.0p+0",
"0x0.0p+0",
"0x1.b31188f4146e0p+2",
"0x1.c42b813079bf7p+5"
],
"H2O species T77.3": [
"0x1.4000000000000p+1",
"0x1.34486cf2c0bc9p-33",
"0x1.8000000000000p+0",
"0x0.0p+0",
"0x0.0p+0",
"0x0.0p+0",
"0x0.0p+0",
"0x1.0000000026891p+2",
"0x1.0a100dffc5108p+5"
],
"HarmonicVib[-500.0, 120.0, 45.0, 2100.0] T1000 Cp": "0x1.3e909fd13ea58p+1",
"HarmonicVib[-500.0, 120.0, 45.0, 2100.0] T1000 Cp J/mol/K": "0x1.4b164084d5bc0p+4",
"HarmonicVib[-500.0, 120.0, 45.0, 2100.0] T1000 Cp positional": "0x1.3e909fd13ea58p+1",
"HarmonicVib[-500.0, 120.0, 45.0, 2100.0] T1000 Cv": "0x1.3e909fd13ea58p+1",
"HarmonicVib[-500.0, 120.0, 45.0, 2100.0] T1000 H G": [
"0x1.d58bd31a31fd8p+1",
"-0x1.840b4ee73c2d0p+1"
],
"HarmonicVib[-500.0, 120.0, 45.0, 2100.0] T298.15 Cp": "0x1.f90143cef9eccp+0",
"HarmonicVib[-500.0, 120.0, 45.0, 2100.0] T298.15 Cp J/mol/K": "0x1.066d7e134d886p+4",
"HarmonicVib[-500.0, 120.0, 45.0, 2100.0] T298.15 Cp positional": "0x1.f90143cef9eccp+0",
"HarmonicVib[-500.0, 120.0, 45.0, 2100.0] T298.15 Cv": "0x1.f90143cef9eccp+0",
"HarmonicVib[-500.0, 120.0, 45.0, 2100.0] T298.15 H G": [
"0x1.c6576bfdbfd2dp+2",
"0x1.8133232f26748p+1"
],
"HarmonicVib[-500.0, 120.0, 45.0, 2100.0] T50 Cp": "0x1.46102225c322ep+0",
"HarmonicVib[-500.0, 120.0, 45.0, 2100.0] T50 Cp J/mol/K": "0x1.52e13651c2e8fp+3",
"HarmonicVib[-500.0, 120.0, 45.0, 2100.0] T50 Cp positional": "0x1.46102225c322ep+0",
"HarmonicVib[-500.0, 120.0, 45.0, 2100.0] T50 Cv": "0x1.46102225c322ep+0",
"HarmonicVib[-500.0, 120.0, 45.0, 2100.0] T50 H G": [
"0x1.09847b4ff0814p+5",
"0x1.01e36b4cfbe62p+5"
],
"HarmonicVib[-500.0, 120.0, 45.0, 2100.0] T5000 Cp": "0x1.7c29187790d47p+1",
"HarmonicVib[-500.0, 120.0, 45.0, 2100.0] T5000 Cp J/mol/K": "0x1.8b1a8ac7704dfp+4",
"HarmonicVib[-500.0, 120.0, 45.0, 2100.0] T5000 Cp positional": "0x1.7c29187790d47p+1",
"HarmonicVib[-500.0, 120.0, 45.0, 2100.0] T5000 Cv": "0x1.7c29187790d47p+1",
"HarmonicVib[-500.0, 120.0, 45.0, 2100.0] T5000 H G": [
"0x1.83e2d5653098fp+1",
"-0x1.066f9f9ce1756p+3"
],
"HarmonicVib[-500.0, 120.0, 45.0, 2100.0] T77.3 Cp": "0x1.9d32c7974efd5p+0",
"HarmonicVib[-500.0, 120.0, 45.0, 2100.0] T77.3 Cp J/mol/K": "0x1.ad70ad27d8adcp+3",
"HarmonicVib[-500.0, 120.0, 45.0, 2100.0] T77.3 Cp positional": "0x1.9d32c7974efd5p+0",
"HarmonicVib[-500.0, 120.0, 45.0, 2100.0] T77.3 Cv": "0x1.9d32c7974efd5p+0",
"HarmonicVib[-500.0, 120.0, 45.0, 2100.0] T77.3 H G": [
"0x1.5fc745496783ap+4",
"0x1.46618877568a5p+4"
],
"HarmonicVib[-500.0, 120.0, 45.0, 2100.0] expected arguments": [
"self",
"T"
],
"HarmonicVib[-500.0, 120.0, 45.0, 2100.0] no T": "TypeError",
"HarmonicVib[-500.0, 120.0, 45.0, 2100.0] signature": "(T)",
"HarmonicVib[-500.0, 120.0, 45.0, 2100.0] sub T1000 Cp": "0x1.be827f069b1ecp+1",
"HarmonicVib[-500.0, 120.0, 45.0, 2100.0] sub T1000 Cp J/mol/K": "0x1.d00f988f43e40p+4",
"HarmonicVib[-500.0, 120.0, 45.0, 2100.0] sub T1000 Cp positional": "0x1.be827f069b1ecp+1",
"HarmonicVib[-500.0, 120.0, 45.0, 2100.0] sub T1000 Cv": "0x1.be827f069b1ecp+1",
"HarmonicVib[-500.0, 120.0, 45.0, 2100.0] sub T1000 H G": [
"0x1.2accfa4247a52p+2",
"-0x1.6a73cd9315e32p+2"
],
"HarmonicVib[-500.0, 120.0, 45.0, 2100.0] sub T298.15 Cp": "0x1.7be21ebd13e8ap+1",
"HarmonicVib[-500.0, 120.0, 45.0, 2100.0] sub T298.15 Cp J/mol/K": "0x1.8ad0c6d82d4c5p+4",
"HarmonicVib[-500.0, 120.0, 45.0, 2100.0] sub T298.15 Cp positional": "0x1.7be21ebd13e8ap+1",
"HarmonicVib[-500.0, 120.0, 45.0, 2100.0] sub T298.15 Cv": "0x1.7be21ebd13e8ap+1",
"HarmonicVib[-500.0, 120.0, 45.0, 2100.0] sub T298.15 H G": [
"0x1.03536a7a0b966p+3",
"0x1.970b658cde67cp+0"
],
"HarmonicVib[-500.0, 120.0, 45.0, 2100.0] sub T50 Cp": "0x1.0f0fa52303725p+1",
"HarmonicVib[-500.0, 120.0, 45.0, 2100.0] sub T50 Cp J/mol/K": "0x1.19b7416325fdcp+4",
"HarmonicVib[-500.0, 120.0, 45.0, 2100.0] sub T50 Cp positional": "0x1.0f0fa52303725p+1",
"HarmonicVib[-500.0, 120.0, 45.0, 2100.0] sub T50 Cv": "0x1.0f0fa52303725p+1",
"HarmonicVib[-500.0, 120.0, 45.0, 2100.0] sub T50 H G": [
"0x1.12da28527aee0p+5",
"0x1.057a2a2322641p+5"
],
"HarmonicVib[-500.0, 120.0, 45.0, 2100.0] sub T5000 Cp": "0x1.fc2887c26b70cp+1",
"HarmonicVib[-500.0, 120.0, 45.0, 2100.0] sub T5000 Cp J/mol/K": "0x1.0810fdb0f95d1p+5",
"HarmonicVib[-500.0, 120.0, 45.0, 2100.0] sub T5000 Cp positional": "0x1.fc2887c26b70cp+1",
"HarmonicVib[-500.0, 120.0, 45.0, 2100.0] sub T5000 Cv": "0x1.fc2887c26b70cp+1",
"HarmonicVib[-500.0, 120.0, 45.0, 2100.0] sub T5000 H G": [
"0x1.01f1b30d4bb6bp+2",
"-0x1.8e28e8b81322cp+3"
],
"HarmonicVib[-500.0, 120.0, 45.0, 2100.0] sub T77.3 Cp": "0x1.45bf5c2969182p+1",
"HarmonicVib[-500.0, 120.0, 45.0, 2100.0] sub T77.3 Cp J/mol/K": "0x1.528d4388c2df9p+4",
"HarmonicVib[-500.0, 120.0, 45.0, 2100.0] sub T77.3 Cp positional": "0x1.45bf5c2969182p+1",
"HarmonicVib[-500.0, 120.0, 45.0, 2100.0] sub T77.3 Cv": "0x1.45bf5c2969182p+1",
"HarmonicVib[-500.0, 120.0, 45.0, 2100.0] sub T77.3 H G": [
"0x1.70eab7e24c588p+4",
"0x1.45cde2c80a4d4p+4"
],
"HarmonicVib[-500.0, 120.0, 45.0, 2100.0] sub expected arguments": [
"self",
"T"
],
"HarmonicVib[-500.0, 120.0, 45.0, 2100.0] sub no T": "TypeError",
"HarmonicVib[-500.0, 120.0, 45.0, 2100.0] sub signature": "(T)",
"HarmonicVib[10.0, 25.0, 4500.0] T1000 Cp": "0x1.0848ed407ceb1p+1",
"HarmonicVib[10.0, 25.0, 4500.0] T1000 Cp J/mol/K": "0x1.12ac59876c9d3p+4",
"HarmonicVib[10.0, 25.0, 4500.0] T1000 Cp positional": "0x1.0848ed407ceb1p+1",
"HarmonicVib[10.0, 25.0, 4500.0] T1000 Cv": "0x1.0848ed407ceb1p+1",
"HarmonicVib[10.0, 25.0, 4500.0] T1000 H G": [
"0x1.4fd4fddba4f3ep+2",
"-0x1.152a17bf01a7cp+2"
],
"HarmonicVib[10.0, 25.0, 4500.0] T298.15 Cp": "0x1.ffa3dda4ce8bbp+0",
"HarmonicVib[10.0, 25.0, 4500.0] T298.15 Cp J/mol/K": "0x1.09e02d42a49a1p+4",
"HarmonicVib[10.0, 25.0, 4500.0] T298.15 Cp positional": "0x1.ffa3dda4ce8bbp+0",
"HarmonicVib[10.0, 25.0, 4500.0] T298.15 Cv": "0x1.ffa3dda4ce8bbp+0",
"HarmonicVib[10.0, 25.0, 4500.0] T298.15 H G": [
"0x1.9b7e829ff5302p+3",
"0x1.6d970e837812fp+2"
],
"HarmonicVib[10.0, 25.0, 4500.0] T50 Cp": "0x1.f37af5c4aeda4p+0",
"HarmonicVib[10.0, 25.0, 4500.0] T50 Cp J/mol/K": "0x1.038e8b2ed9249p+4",
"HarmonicVib[10.0, 25.0, 4500.0] T50 Cp positional": "0x1.f37af5c4aeda4p+0",
"HarmonicVib[10.0, 25.0, 4500.0] T50 Cv": "0x1.f37af5c4aeda4p+0",
"HarmonicVib[10.0, 25.0, 4500.0] T50 H G": [
"0x1.0b2db3b91466bp+6",
"0x1.f98f28d0e0393p+5"
],
"HarmonicVib[10.0, 25.0, 4500.0] T5000 Cp": "0x1.6f84e5ef7f802p+1",
"HarmonicVib[10.0, 25.0, 4500.0] T5000 Cp J/mol/K": "0x1.7df72351efeb2p+4",
"HarmonicVib[10.0, 25.0, 4500.0] T5000 Cp positional": "0x1.6f84e5ef7f802p+1",
"HarmonicVib[10.0, 25.0, 4500.0] T5000 Cv": "0x1.6f84e5ef7f802p+1",
"HarmonicVib[10.0, 25.0, 4500.0] T5000 H G": [
"0x1.9167cc00b92b0p+1",
"-0x1.4ea7d6ed84babp+3"
],
"HarmonicVib[10.0, 25.0, 4500.0] T77.3 Cp": "0x1.fab14d5a93b07p+0",
"HarmonicVib[10.0, 25.0, 4500.0] T77.3 Cp J/mol/K": "0x1.074e0094f0b72p+4",
"HarmonicVib[10.0, 25.0, 4500.0] T77.3 Cp positional": "0x1.fab14d5a93b07p+0",
"HarmonicVib[10.0, 25.0, 4500.0] T77.3 Cv": "0x1.fab14d5a93b07p+0",
"HarmonicVib[10.0, 25.0, 4500.0] T77.3 H G": [
"0x1.5f32fbf8f109fp+5",
"0x1.3b8b8cb6996e3p+5"
],
"HarmonicVib[10.0, 25.0, 4500.0] expected arguments": [
"self",
"T"
],
"HarmonicVib[10.0, 25.0, 4500.0] no T": "TypeError",
"HarmonicVib[10.0, 25.0, 4500.0] signature": "(T)",
"HarmonicVib[10.0, 25.0, 4500.0] sub T1000 Cp": "0x1.0848ed407ceb1p+1",
"HarmonicVib[10.0, 25.0, 4500.0] sub T1000 Cp J/mol/K": "0x1.12ac59876c9d3p+4",
"HarmonicVib[10.0, 25.0, 4500.0] sub T1000 Cp positional": "0x1.0848ed407ceb1p+1",
"HarmonicVib[10.0, 25.0, 4500.0] sub T1000 Cv": "0x1.0848ed407ceb1p+1",
"HarmonicVib[10.0, 25.0, 4500.0] sub T1000 H G": [
"0x1.4fd4fddba4f3ep+2",
"-0x1.152a17bf01a7cp+2"
],
"HarmonicVib[10.0, 25.0, 4500.0] sub T298.15 Cp": "0x1.ffa3dda4ce8bbp+0",
"HarmonicVib[10.0, 25.0, 4500.0] sub T298.15 Cp J/mol/K": "0x1.09e02d42a49a1p+4",
"HarmonicVib[10.0, 25.0, 4500.0] sub T298.15 Cp positional": "0x1.ffa3dda4ce8bbp+0",
"HarmonicVib[10.0, 25.0, 4500.0] sub T298.15 Cv": "0x1.ffa3dda4ce8bbp+0",
"HarmonicVib[10.0, 25.0, 4500.0] sub T298.15 H G": [
"0x1.9b7e829ff5302p+3",
"0x1.6d970e837812fp+2"
],
"HarmonicVib[10.0, 25.0, 4500.0] sub T50 Cp": "0x1.f37af5c4aeda4p+0",
"HarmonicVib[10.0, 25.0, 4500.0] sub T50 Cp J/mol/K": "0x1.038e8b2ed9249p+4",
"HarmonicVib[10.0, 25.0, 4500.0] sub T50 Cp positional": "0x1.f37af5c4aeda4p+0",
"HarmonicVib[10.0, 25.0, 4500.0] sub T50 Cv": "0x1.f37af5c4aeda4p+0",
"HarmonicVib[10.0, 25.0, 4500.0] sub T50 H G": [
"0x1.0b2db3b91466bp+6",
"0x1.f98f28d0e0393p+5"
],
"HarmonicVib[10.0, 25.0, 4500.0] sub T5000 Cp": "0x1.6f84e5ef7f802p+1",
"HarmonicVib[10.0, 25.0, 4500.0] sub T5000 Cp J/mol/K": "0x1.7df72351efeb2p+4",
"HarmonicVib[10.0, 25.0, 4500.0] sub T5000 Cp positional": "0x1.6f84e5ef7f802p+1",
"HarmonicVib[10.0, 25.0, 4500.0] sub T5000 Cv": "0x1.6f84e5ef7f802p+1",
"HarmonicVib[10.0, 25.0, 4500.0] sub T5000 H G": [
"0x1.9167cc00b92b0p+1",
"-0x1.4ea7d6ed84babp+3"
],
"HarmonicVib[10.0, 25.0, 4500.0] sub T77.3 Cp": "0x1.fab14d5a93b07p+0",
"HarmonicVib[10.0, 25.0, 4500.0] sub T77.3 Cp J/mol/K": "0x1.074e0094f0b72p+4",
"HarmonicVib[10.0, 25.0, 4500.0] sub T77.3 Cp positional": "0x1.fab14d5a93b07p+0",
"HarmonicVib[10.0, 25.0, 4500.0] sub T77.3 Cv": "0x1.fab14d5a93b07p+0",
"HarmonicVib[10.0, 25.0, 4500.0] sub T77.3 H G": [
"0x1.5f32fbf8f109fp+5",
"0x1.3b8b8cb6996e3p+5"
],
"HarmonicVib[10.0, 25.0, 4500.0] sub expected arguments": [
"self",
"T"
],
"HarmonicVib[10.0, 25.0, 4500.0] sub no T": "TypeError",
"HarmonicVib[10.0, 25.0, 4500.0] sub signature": "(T)",
"HarmonicVib[3825.434, 3710.2642, 1582.432] T1000 Cp": "0x1.d89ee1c3327c5p-1",
"HarmonicVib[3825.434, 3710.2642, 1582.432] T1000 Cp J/mol/K": "0x1.eb32ba5ae8426p+2",
"HarmonicVib[3825.434, 3710.2642, 1582.432] T1000 Cp positional": "0x1.d89ee1c3327c5p-1",
"HarmonicVib[3825.434, 3710.2642, 1582.432] T1000 Cv": "0x1.d89ee1c3327c5p-1",
"HarmonicVib[3825.434, 3710.2642, 1582.432] T1000 H G": [
"0x1.b78ed708b86ccp+2",
"0x1.9c4edf7ed7357p+2"
],
"HarmonicVib[3825.434, 3710.2642, 1582.432] T298.15 Cp": "0x1.cdab43027326bp-6",
"HarmonicVib[3825.434, 3710.2642, 1582.432] T298.15 Cp J/mol/K": "0x1.dfd0e79366f4fp-3",
"HarmonicVib[3825.434, 3710.2642, 1582.432] T298.15 Cp positional": "0x1.cdab43027326bp-6",
"HarmonicVib[3825.434, 3710.2642, 1582.432] T298.15 Cv": "0x1.cdab43027326bp-6",
"HarmonicVib[3825.434, 3710.2642, 1582.432] T298.15 H G": [
"0x1.601192696a039p+4",
"0x1.60007d84b886cp+4"
],
"HarmonicVib[3825.434, 3710.2642, 1582.432] T50 Cp": "0x1.4081c0016daccp-55",
"HarmonicVib[3825.434, 3710.2642, 1582.432] T50 Cp J/mol/K": "0x1.4d1aeb24189eep-52",
"HarmonicVib[3825.434, 3710.2642, 1582.432] T50 Cp positional": "0x1.4081c0016daccp-55",
"HarmonicVib[3825.434, 3710.2642, 1582.432] T50 Cv": "0x1.4081c0016daccp-55",
"HarmonicVib[3825.434, 3710.2642, 1582.432] T50 H G": [
"0x1.06611241a21fcp+7",
"0x1.06611241a21fcp+7"
],
"HarmonicVib[3825.434, 3710.2642, 1582.432] T5000 Cp": "0x1.662311e828dc0p+1",
"HarmonicVib[3825.434, 3710.2642, 1582.432] T5000 Cp J/mol/K": "0x1.7436e661b9777p+4",
"HarmonicVib[3825.434, 3710.2642, 1582.432] T5000 Cp positional": "0x1.662311e828dc0p+1",
"HarmonicVib[3825.434, 3710.2642, 1582.432] T5000 Cv": "0x1.662311e828dc0p+1",
"HarmonicVib[3825.434, 3710.2642, 1582.432] T5000 H G": [
"0x1.9acf308e15c08p+1",
"-0x1.09ffcdb643d2cp-1"
],
"HarmonicVib[3825.434, 3710.2642, 1582.432] T77.3 Cp": "0x1.34486cf2c0bc9p-33",
"HarmonicVib[3825.434, 3710.2642, 1582.432] T77.3 Cp J/mol/K": "0x1.406696968a31bp-30",
"HarmonicVib[3825.434, 3710.2642, 1582.432] T77.3 Cp positional": "0x1.34486cf2c0bc9p-33",
"HarmonicVib[3825.434, 3710.2642, 1582.432] T77.3 Cv": "0x1.34486cf2c0bc9p-33",
"HarmonicVib[3825.434, 3710.2642, 1582.432] T77.3 H G": [
"0x1.536e0315a717ep+6",
"0x1.536e0315a7024p+6"
],
"HarmonicVib[3825.434, 3710.2642, 1582.432] expected arguments": [
"self",
"T"
],
"HarmonicVib[3825.434, 3710.2642, 1582.432] no T": "TypeError",
"HarmonicVib[3825.434, 3710.2642, 1582.432] signature": "(T)",
"HarmonicVib[3825.434, 3710.2642, 1582.432] sub T1000 Cp": "0x1.d89ee1c3327c5p-1",
"HarmonicVib[3825.434, 3710.2642, 1582.432] sub T1000 Cp J/mol/K": "0x1.eb32ba5ae8426p+2",
"HarmonicVib[3825.434, 3710.2642, 1582.432] sub T1000 Cp positional": "0x1.d89ee1c3327c5p-1",
"HarmonicVib[3825.434, 3710.2642, 1582.432] sub T1000 Cv": "0x1.d89ee1c3327c5p-1",
"HarmonicVib[3825.434, 3710.2642, 1582.432] sub T1000 H G": [
"0x1.b78ed708b86ccp+2",
"0x1.9c4edf7ed7357p+2"
],
"HarmonicVib[3825.434, 3710.2642, 1582.432] sub T298.15 Cp": "0x1.cdab43027326bp-6",
"HarmonicVib[3825.434, 3710.2642, 1582.432] sub T298.15 Cp J/mol/K": "0x1.dfd0e79366f4fp-3",
"HarmonicVib[3825.434, 3710.2642, 1582.432] sub T298.15 Cp positional": "0x1.cdab43027326bp-6",
"HarmonicVib[3825.434, 3710.2642, 1582.432] sub T298.15 Cv": "0x1.cdab43027326bp-6",
"HarmonicVib[3825.434, 3710.2642, 1582.432] sub T298.15 H G": [
"0x1.601192696a039p+4",
"0x1.60007d84b886cp+4"
],
"HarmonicVib[3825.434, 3710.2642, 1582.432] sub T50 Cp": "0x1.4081c0016daccp-55",
"HarmonicVib[3825.434, 3710.2642, 1582.432] sub T50 Cp J/mol/K": "0x1.4d1aeb24189eep-52",
"HarmonicVib[3825.434, 3710.2642, 1582.432] sub T50 Cp positional": "0x1.4081c0016daccp-55",
"HarmonicVib[3825.434, 3710.2642, 1582.432] sub T50 Cv": "0x1.4081c0016daccp-55",
"HarmonicVib[3825.434, 3710.2642, 1582.432] sub T50 H G": [
"0x1.06611241a21fcp+7",
"0x1.06611241a21fcp+7"
],
"HarmonicVib[3825.434, 3710.2642, 1582.432] sub T5000 Cp": "0x1.662311e828dc0p+1",
"HarmonicVib[3825.434, 3710.2642, 1582.432] sub T5000 Cp J/mol/K": "0x1.7436e661b9777p+4",
"HarmonicVib[3825.434, 3710.2642, 1582.432] sub T5000 Cp positional": "0x1.662311e828dc0p+1",
"HarmonicVib[3825.434, 3710.2642, 1582.432] sub T5000 Cv": "0x1.662311e828dc0p+1",
"HarmonicVib[3825.434, 3710.2642, 1582.432] sub T5000 H G": [
"0x1.9acf308e15c08p+1",
"-0x1.09ffcdb643d2cp-1"
],
"HarmonicVib[3825.434, 3710.2642, 1582.432] sub T77.3 Cp": "0x1.34486cf2c0bc9p-33",
"HarmonicVib[3825.434, 3710.2642, 1582.432] sub T77.3 Cp J/mol/K": "0x1.406696968a31bp-30",
"HarmonicVib[3825.434, 3710.2642, 1582.432] sub T77.3 Cp positional": "0x1.34486cf2c0bc9p-33",
"HarmonicVib[3825.434, 3710.2642, 1582.432] sub T77.3 Cv": "0x1.34486cf2c0bc9p-33",
"HarmonicVib[3825.434, 3710.2642, 1582.432] sub T77.3 H G": [
"0x1.536e0315a717ep+6",
"0x1.536e0315a7024p+6"
],
"HarmonicVib[3825.434, 3710.2642, 1582.432] sub expected arguments": [
"self",
"T"
],
"HarmonicVib[3825.434, 3710.2642, 1582.432] sub no T": "TypeError",
"HarmonicVib[3825.434, 3710.2642, 1582.432] sub signature": "(T)",
"HarmonicVib[667.4, 667.4, 1388.2, 2349.2] T1000 Cp": "0x1.7f529c4c130ffp+1",
"HarmonicVib[667.4, 667.4, 1388.2, 2349.2] T1000 Cp J/mol/K": "0x1.8e63e086c0e48p+4",
"HarmonicVib[667.4, 667.4, 1388.2, 2349.2] T1000 Cp positional": "0x1.7f529c4c130ffp+1",
"HarmonicVib[667.4, 667.4, 1388.2, 2349.2] T1000 Cv": "0x1.7f529c4c130ffp+1",
"HarmonicVib[667.4, 667.4, 1388.2, 2349.2] T1000 H G": [
"0x1.517482e623b00p+2",
"0x1.406b742d574d4p+1"
],
"HarmonicVib[667.4, 667.4, 1388.2, 2349.2] T298.15 Cp": "0x1.e94821a73785cp-1",
"HarmonicVib[667.4, 667.4, 1388.2, 2349.2] T298.15 Cp J/mol/K": "0x1.fc83a23b0ecbcp+2",
"HarmonicVib[667.4, 667.4, 1388.2, 2349.2] T298.15 Cp positional": "0x1.e94821a73785cp-1",
"HarmonicVib[667.4, 667.4, 1388.2, 2349.2] T298.15 Cv": "0x1.e94821a73785cp-1",
"HarmonicVib[667.4, 667.4, 1388.2, 2349.2] T298.15 H G": [
"0x1.907873e5b55dbp+3",
"0x1.84fb486ac0d61p+3"
],
"HarmonicVib[667.4, 667.4, 1388.2, 2349.2] T50 Cp": "0x1.c3fb49b12fb78p-19",
"HarmonicVib[667.4, 667.4, 1388.2, 2349.2] T50 Cp J/mol/K": "0x1.d5bf72fdc5ebbp-16",
"HarmonicVib[667.4, 667.4, 1388.2, 2349.2] T50 Cp positional": "0x1.c3fb49b12fb78p-19",
"HarmonicVib[667.4, 667.4, 1388.2, 2349.2] T50 Cv": "0x1.c3fb49b12fb78p-19",
"HarmonicVib[667.4, 667.4, 1388.2, 2349.2] T50 H G": [
"0x1.23e9210b52098p+6",
"0x1.23e920fef0b85p+6"
],
"HarmonicVib[667.4, 667.4, 1388.2, 2349.2] T5000 Cp": "0x1.f8c2d63179367p+1",
"HarmonicVib[667.4, 667.4, 1388.2, 2349.2] T5000 Cp J/mol/K": "0x1.064d0d2b57ca6p+5",
"HarmonicVib[667.4, 667.4, 1388.2, 2349.2] T5000 Cp positional": "0x1.f8c2d63179367p+1",
"HarmonicVib[667.4, 667.4, 1388.2, 2349.2] T5000 Cv": "0x1.f8c2d63179367p+1",
"HarmonicVib[667.4, 667.4, 1388.2, 2349.2] T5000 H G": [
"0x1.03a927dbd10b0p+2",
"-0x1.2527a47763e54p+2"
],
"HarmonicVib[667.4, 667.4, 1388.2, 2349.2] T77.3 Cp": "0x1.45e1c9079f962p-10",
"HarmonicVib[667.4, 667.4, 1388.2, 2349.2] T77.3 Cp J/mol/K": "0x1.52b10ad05748cp-7",
"HarmonicVib[667.4, 667.4, 1388.2, 2349.2] T77.3 Cp positional": "0x1.45e1c9079f962p-10",
"HarmonicVib[667.4, 667.4, 1388.2, 2349.2] T77.3 Cv": "0x1.45e1c9079f962p-10",
"HarmonicVib[667.4, 667.4, 1388.2, 2349.2] T77.3 H G": [
"0x1.79a25e7e4cf44p+5",
"0x1.79a225cd753ffp+5"
],
"HarmonicVib[667.4, 667.4, 1388.2, 2349.2] expected arguments": [
"self",
"T"
],
"HarmonicVib[667.4, 667.4, 1388.2, 2349.2] no T": "TypeError",
"HarmonicVib[667.4, 667.4, 1388.2, 2349.2] signature": "(T)",
"HarmonicVib[667.4, 667.4, 1388.2, 2349.2] sub T1000 Cp": "0x1.7f529c4c130ffp+1",
"HarmonicVib[667.4, 667.4, 1388.2, 2349.2] sub T1000 Cp J/mol/K": "0x1.8e63e086c0e48p+4",
"HarmonicVib[667.4, 667.4, 1388.2, 2349.2] sub T1000 Cp positional": "0x1.7f529c4c130ffp+1",
"HarmonicVib[667.4, 667.4, 1388.2, 2349.2] sub T1000 Cv": "0x1.7f529c4c130ffp+1",
"HarmonicVib[667.4, 667.4, 1388.2, 2349.2] sub T1000 H G": [
"0x1.517482e623b00p+2",
"0x1.406b742d574d4p+1"
],
"HarmonicVib[667.4, 667.4, 1388.2, 2349.2] sub T298.15 Cp": "0x1.e94821a73785cp-1",
"HarmonicVib[667.4, 667.4, 1388.2, 2349.2] sub T298.15 Cp J/mol/K": "0x1.fc83a23b0ecbcp+2",
"HarmonicVib[667.4, 667.4, 1388.2, 2349.2] sub T298.15 Cp positional": "0x1.e94821a73785cp-1",
"HarmonicVib[667.4, 667.4, 1388.2, 2349.2] sub T298.15 Cv": "0x1.e94821a73785cp-1",
"HarmonicVib[667.4, 667.4, 1388.2, 2349.2] sub T298.15 H G": [
"0x1.907873e5b55dbp+3",
"0x1.84fb486ac0d61p+3"
],
"HarmonicVib[667.4, 667.4, 1388.2, 2349.2] sub T50 Cp": "0x1.c3fb49b12fb78p-19",
"HarmonicVib[667.4, 667.4, 1388.2, 2349.2] sub T50 Cp J/mol/K": "0x1.d5bf72fdc5ebbp-16",
"HarmonicVib[667.4, 667.4, 1388.2, 2349.2] sub T50 Cp positional": "0x1.c3fb49b12fb78p-19",
"HarmonicVib[667.4, 667.4, 1388.2, 2349.2] sub T50 Cv": "0x1.c3fb49b12fb78p-19",
"HarmonicVib[667.4, 667.4, 1388.2, 2349.2] sub T50 H G": [
"0x1.23e9210b52098p+6",
"0x1.23e920fef0b85p+6"
],
"HarmonicVib[667.4, 667.4, 1388.2, 2349.2] sub T5000 Cp": "0x1.f8c2d63179367p+1",
"HarmonicVib[667.4, 667.4, 1388.2, 2349.2] sub T5000 Cp J/mol/K": "0x1.064d0d2b57ca6p+5",
"HarmonicVib[667.4, 667.4, 1388.2, 2349.2] sub T5000 Cp positional": "0x1.f8c2d63179367p+1",
"HarmonicVib[667.4, 667.4, 1388.2, 2349.2] sub T5000 Cv": "0x1.f8c2d63179367p+1",
"HarmonicVib[667.4, 667.4, 1388.2, 2349.2] sub T5000 H G": [
"0x1.03a927dbd10b0p+2",
"-0x1.2527a47763e54p+2"
],
"HarmonicVib[667.4, 667.4, 1388.2, 2349.2] sub T77.3 Cp": "0x1.45e1c9079f962p-10",
"HarmonicVib[667.4, 667.4, 1388.2, 2349.2] sub T77.3 Cp J/mol/K": "0x1.52b10ad05748cp-7",
"HarmonicVib[667.4, 667.4, 1388.2, 2349.2] sub T77.3 Cp positional": "0x1.45e1c9079f962p-10",
"HarmonicVib[667.4, 667.4, 1388.2, 2349.2] sub T77.3 Cv": "0x1.45e1c9079f962p-10",
"HarmonicVib[667.4, 667.4, 1388.2, 2349.2] sub T77.3 H G": [
"0x1.79a25e7e4cf44p+5",
"0x1.79a225cd753ffp+5"
],
"HarmonicVib[667.4, 667.4, 1388.2, 2349.2] sub expected arguments": [
"self",
"T"
],
"HarmonicVib[667.4, 667.4, 1388.2, 2349.2] sub no T": "TypeError",
"HarmonicVib[667.4, 667.4, 1388.2, 2349.2] sub signature": "(T)",
"HarmonicVib[] T1000 Cp": "0x0.0p+0",
"HarmonicVib[] T1000 Cp J/mol/K": "0x0.0p+0",
"HarmonicVib[] T1000 Cp positional": "0x0.0p+0",
"HarmonicVib[] T1000 Cv": "0x0.0p+0",
"HarmonicVib[] T1000 H G": [
"0x0.0p+0",
"0x0.0p+0"
],
"HarmonicVib[] T298.15 Cp": "0x0.0p+0",
"HarmonicVib[] T298.15 Cp J/mol/K": "0x0.0p+0",
"HarmonicVib[] T298.15 Cp positional": "0x0.0p+0",
"HarmonicVib[] T298.15 Cv": "0x0.0p+0",
"HarmonicVib[] T298.15 H G": [
"0x0.0p+0",
"0x0.0p+0"
],
"HarmonicVib[] T50 Cp": "0x0.0p+0",
"HarmonicVib[] T50 Cp J/mol/K": "0x0.0p+0",
"HarmonicVib[] T50 Cp positional": "0x0.0p+0",
"HarmonicVib[] T50 Cv": "0x0.0p+0",
"HarmonicVib[] T50 H G": [
"0x0.0p+0",
"0x0.0p+0"
],
"HarmonicVib[] T5000 Cp": "0x0.0p+0",
"HarmonicVib[] T5000 Cp J/mol/K": "0x0.0p+0",
"HarmonicVib[] T5000 Cp positional": "0x0.0p+0",
"HarmonicVib[] T5000 Cv": "0x0.0p+0",
"HarmonicVib[] T5000 H G": [
"0x0.0p+0",
"0x0.0p+0"
],
"HarmonicVib[] T77.3 Cp": "0x0.0p+0",
"HarmonicVib[] T77.3 Cp J/mol/K": "0x0.0p+0",
"HarmonicVib[] T77.3 Cp positional": "0x0.0p+0",
"HarmonicVib[] T77.3 Cv": "0x0.0p+0",
"HarmonicVib[] T77.3 H G": [
"0x0.0p+0",
"0x0.0p+0"
],
"HarmonicVib[] expected arguments": [
"self",
"T"
],
"HarmonicVib[] no T": "TypeError",
"HarmonicVib[] signature": "(T)",
"HarmonicVib[] sub T1000 Cp": "0x0.0p+0",
"HarmonicVib[] sub T1000 Cp J/mol/K": "0x0.0p+0",
"HarmonicVib[] sub T1000 Cp positional": "0x0.0p+0",
"HarmonicVib[] sub T1000 Cv": "0x0.0p+0",
"HarmonicVib[] sub T1000 H G": [
"0x0.0p+0",
"0x0.0p+0"
],
"HarmonicVib[] sub T298.15 Cp": "0x0.0p+0",
"HarmonicVib[] sub T298.15 Cp J/mol/K": "0x0.0p+0",
"HarmonicVib[] sub T298.15 Cp positional": "0x0.0p+0",
"HarmonicVib[] sub T298.15 Cv": "0x0.0p+0",
"HarmonicVib[] sub T298.15 H G": [
"0x0.0p+0",
"0x0.0p+0"
],
"HarmonicVib[] sub T50 Cp": "0x0.0p+0",
"HarmonicVib[] sub T50 Cp J/mol/K": "0x0.0p+0",
"HarmonicVib[] sub T50 Cp positional": "0x0.0p+0",
"HarmonicVib[] sub T50 Cv": "0x0.0p+0",
"HarmonicVib[] sub T50 H G": [
"0x0.0p+0",
"0x0.0p+0"
],
"HarmonicVib[] sub T5000 Cp": "0x0.0p+0",
"HarmonicVib[] sub T5000 Cp J/mol/K": "0x0.0p+0",
"HarmonicVib[] sub T5000 Cp positional": "0x0.0p+0",
"HarmonicVib[] sub T5000 Cv": "0x0.0p+0",
"HarmonicVib[] sub T5000 H G": [
"0x0.0p+0",
"0x0.0p+0"
],
"HarmonicVib[] sub T77.3 Cp": "0x0.0p+0",
"HarmonicVib[] sub T77.3 Cp J/mol/K": "0x0.0p+0",
"HarmonicVib[] sub T77.3 Cp positional": "0x0.0p+0",
"HarmonicVib[] sub T77.3 Cv": "0x0.0p+0",
"HarmonicVib[] sub T77.3 H G": [
"0x0.0p+0",
"0x0.0p+0"
],
"HarmonicVib[] sub expected arguments": [
"self",
"T"
],
"HarmonicVib[] sub no T": "TypeError",
"HarmonicVib[] sub signature": "(T)",
"QRRHOVib[-500.0, 120.0, 45.0, 2100.0] T1000 Cp": "0x1.d8d1c6855c3a3p+0",
"QRRHOVib[-500.0, 120.0, 45.0, 2100.0] T1000 Cp J/mol/K": "0x1.eb679f3dbc333p+3",
"QRRHOVib[-500.0, 120.0, 45.0, 2100.0] T1000 Cp positional": "0x1.d8d1c6855c3a3p+0",
"QRRHOVib[-500.0, 120.0, 45.0, 2100.0] T1000 Cv": "0x1.d8d1c6855c3a3p+0",
"QRRHOVib[-500.0, 120.0, 45.0, 2100.0] T1000 H G": [
"0x1.8318fce1fd2efp+1",
"-0x1.156d8267bd497p+1"
],
"QRRHOVib[-500.0, 120.0, 45.0, 2100.0] T298.15 Cp": "0x1.57a7e03b8e10fp+0",
"QRRHOVib[-500.0, 120.0, 45.0, 2100.0] T298.15 Cp J/mol/K": "0x1.6529fc468eb8cp+3",
"QRRHOVib[-500.0, 120.0, 45.0, 2100.0] T298.15 Cp positional": "0x1.57a7e03b8e10fp+0",
"QRRHOVib[-500.0, 120.0, 45.0, 2100.0] T298.15 Cv": "0x1.57a7e03b8e10fp+0",
"QRRHOVib[-500.0, 120.0, 45.0, 2100.0] T298.15 H G": [
"0x1.9c5e83d6d4031p+2",
"0x1.8b77c0d10ce52p+1"
],
"QRRHOVib[-500.0, 120.0, 45.0, 2100.0] T50 Cp": "0x1.e5c9b7a49b3bbp-1",
"QRRHOVib[-500.0, 120.0, 45.0, 2100.0] T50 Cp J/mol/K": "0x1.f8e20ffccfcabp+2",
"QRRHOVib[-500.0, 120.0, 45.0, 2100.0] T50 Cp positional": "0x1.e5c9b7a49b3bbp-1",
"QRRHOVib[-500.0, 120.0, 45.0, 2100.0] T50 Cv": "0x1.e5c9b7a49b3bbp-1",
"QRRHOVib[-500.0, 120.0, 45.0, 2100.0] T50 H G": [
"0x1.0124895aa4601p+5",
"0x1.ef5cfa900e60fp+4"
],
"QRRHOVib[-500.0, 120.0, 45.0, 2100.0] T5000 Cp": "0x1.29dd5715b0987p+1",
"QRRHOVib[-500.0, 120.0, 45.0, 2100.0] T5000 Cp J/mol/K": "0x1.3592aa9ba2705p+4",
"QRRHOVib[-500.0, 120.0, 45.0, 2100.0] T5000 Cp positional": "0x1.29dd5715b0987p+1",
"QRRHOVib[-500.0, 120.0, 45.0, 2100.0] T5000 Cv": "0x1.29dd5715b0987p+1",
"QRRHOVib[-500.0, 120.0, 45.0, 2100.0] T5000 H G": [
"0x1.319411df07568p+1",
"-0x1.934c7e3fcffd8p+2"
],
"QRRHOVib[-500.0, 120.0, 45.0, 2100.0] T77.3 Cp": "0x1.21ec9f513cac8p+0",
"QRRHOVib[-500.0, 120.0, 45.0, 2100.0] T77.3 Cp J/mol/K": "0x1.2d520c2edebb2p+3",
"QRRHOVib[-500.0, 120.0, 45.0, 2100.0] T77.3 Cp positional": "0x1.21ec9f513cac8p+0",
"QRRHOVib[-500.0, 120.0, 45.0, 2100.0] T77.3 Cv": "0x1.21ec9f513cac8p+0",
"QRRHOVib[-500.0, 120.0, 45.0, 2100.0] T77.3 H G": [
"0x1.5299062c1d96dp+4",
"0x1.386446166b57dp+4"
],
"QRRHOVib[-500.0, 120.0, 45.0, 2100.0] expected arguments": [
"self",
"T"
],
"QRRHOVib[-500.0, 120.0, 45.0, 2100.0] no T": "TypeError",
"QRRHOVib[-500.0, 120.0, 45.0, 2100.0] signature": "(T)",
"QRRHOVib[-500.0, 120.0, 45.0, 2100.0] sub T1000 Cp": "0x1.42641055afd61p+1",
"QRRHOVib[-500.0, 120.0, 45.0, 2100.0] sub T1000 Cp J/mol/K": "0x1.4f1030db0a4c1p+4",
"QRRHOVib[-500.0, 120.0, 45.0, 2100.0] sub T1000 Cp positional": "0x1.42641055afd61p+1",
"QRRHOVib[-500.0, 120.0, 45.0, 2100.0] sub T1000 Cv": "0x1.42641055afd61p+1",
"QRRHOVib[-500.0, 120.0, 45.0, 2100.0] sub T1000 H G": [
"0x1.d9334a5b75edcp+1",
"-0x1.0fa0673d6fefep+2"
],
"QRRHOVib[-500.0, 120.0, 45.0, 2100.0] sub T298.15 Cp": "0x1.01327fd1163e6p+1",
"QRRHOVib[-500.0, 120.0, 45.0, 2100.0] sub T298.15 Cp J/mol/K": "0x1.0b4e9a079db8dp+4",
"QRRHOVib[-500.0, 120.0, 45.0, 2100.0] sub T298.15 Cp positional": "0x1.01327fd1163e6p+1",
"QRRHOVib[-500.0, 120.0, 45.0, 2100.0] sub T298.15 Cv": "0x1.01327fd1163e6p+1",
"QRRHOVib[-500.0, 120.0, 45.0, 2100.0] sub T298.15 H G": [
"0x1.c7baf20b6ed20p+2",
"0x1.d427af058ba18p+0"
],
"QRRHOVib[-500.0, 120.0, 45.0, 2100.0] sub T50 Cp": "0x1.7f734844c864cp+0",
"QRRHOVib[-500.0, 120.0, 45.0, 2100.0] sub T50 Cp J/mol/K": "0x1.8e85d543b634fp+3",
"QRRHOVib[-500.0, 120.0, 45.0, 2100.0] sub T50 Cp positional": "0x1.7f734844c864cp+0",
"QRRHOVib[-500.0, 120.0, 45.0, 2100.0] sub T50 Cv": "0x1.7f734844c864cp+0",
"QRRHOVib[-500.0, 120.0, 45.0, 2100.0] sub T50 H G": [
"0x1.07d4bcf74a1fbp+5",
"0x1.efc1c26ba0e78p+4"
],
"QRRHOVib[-500.0, 120.0, 45.0, 2100.0] sub T5000 Cp": "0x1.7fe770fd1ae1cp+1",
"QRRHOVib[-500.0, 120.0, 45.0, 2100.0] sub T5000 Cp J/mol/K": "0x1.8efe8edc217d2p+4",
"QRRHOVib[-500.0, 120.0, 45.0, 2100.0] sub T5000 Cp positional": "0x1.7fe770fd1ae1cp+1",
"QRRHOVib[-500.0, 120.0, 45.0, 2100.0] sub T5000 Cv": "0x1.7fe770fd1ae1cp+1",
"QRRHOVib[-500.0, 120.0, 45.0, 2100.0] sub T5000 H G": [
"0x1.879f6b1c02f9ep+1",
"-0x1.2ebb9a45160b6p+3"
],
"QRRHOVib[-500.0, 120.0, 45.0, 2100.0] sub T77.3 Cp": "0x1.bd635fedc0c42p+0",
"QRRHOVib[-500.0, 120.0, 45.0, 2100.0] sub T77.3 Cp J/mol/K": "0x1.cee5303dcc2fdp+3",
"QRRHOVib[-500.0, 120.0, 45.0, 2100.0] sub T77.3 Cp positional": "0x1.bd635fedc0c42p+0",
"QRRHOVib[-500.0, 120.0, 45.0, 2100.0] sub T77.3 Cv": "0x1.bd635fedc0c42p+0",
"QRRHOVib[-500.0, 120.0, 45.0, 2100.0] sub T77.3 H G": [
"0x1.5e8a38dfe44dap+4",
"0x1.334eae7a02335p+4"
],
"QRRHOVib[-500.0, 120.0, 45.0, 2100.0] sub expected arguments": [
"self",
"T"
],
"QRRHOVib[-500.0, 120.0, 45.0, 2100.0] sub no T": "TypeError",
"QRRHOVib[-500.0, 120.0, 45.0, 2100.0] sub signature": "(T)",
"QRRHOVib[10.0, 25.0, 4500.0] T1000 Cp": "0x1.111ccea77b4a9p+0",
"QRRHOVib[10.0, 25.0, 4500.0] T1000 Cp J/mol/K": "0x1.1bd90f761a462p+3",
"QRRHOVib[10.0, 25.0, 4500.0] T1000 Cp positional": "0x1.111ccea77b4a9p+0",
"QRRHOVib[10.0, 25.0, 4500.0] T1000 Cv": "0x1.111ccea77b4a9p+0",
"QRRHOVib[10.0, 25.0, 4500.0] T1000 H G": [
"0x1.0ff3a212b1d86p+2",
"-0x1.b1d7b6805c5c8p+0"
],
"QRRHOVib[10.0, 25.0, 4500.0] T298.15 Cp": "0x1.00827cced7ed7p+0",
"QRRHOVib[10.0, 25.0, 4500.0] T298.15 Cp J/mol/K": "0x1.0a97abdd78eecp+3",
"QRRHOVib[10.0, 25.0, 4500.0] T298.15 Cp positional": "0x1.00827cced7ed7p+0",
"QRRHOVib[10.0, 25.0, 4500.0] T298.15 Cv": "0x1.00827cced7ed7p+0",
"QRRHOVib[10.0, 25.0, 4500.0] T298.15 H G": [
"0x1.7b835a3f21b9dp+3",
"0x1.c8f50e74a00f3p+2"
],
"QRRHOVib[10.0, 25.0, 4500.0] T50 Cp": "0x1.007805d2448b9p+0",
"QRRHOVib[10.0, 25.0, 4500.0] T50 Cp J/mol/K": "0x1.0a8ccb9305841p+3",
"QRRHOVib[10.0, 25.0, 4500.0] T50 Cp positional": "0x1.007805d2448b9p+0",
"QRRHOVib[10.0, 25.0, 4500.0] T50 Cv": "0x1.007805d2448b9p+0",
"QRRHOVib[10.0, 25.0, 4500.0] T50 H G": [
"0x1.06fd0f14c9572p+6",
"0x1.f687e624fe1adp+5"
],
"QRRHOVib[10.0, 25.0, 4500.0] T5000 Cp": "0x1.df8ce546893e4p+0",
"QRRHOVib[10.0, 25.0, 4500.0] T5000 Cp J/mol/K": "0x1.f26679429a209p+3",
"QRRHOVib[10.0, 25.0, 4500.0] T5000 Cp positional": "0x1.df8ce546893e4p+0",
"QRRHOVib[10.0, 25.0, 4500.0] T5000 Cv": "0x1.df8ce546893e4p+0",
"QRRHOVib[10.0, 25.0, 4500.0] T5000 H G": [
"0x1.11a90483da06ep+1",
"-0x1.8dce1d7838ad9p+2"
],
"QRRHOVib[10.0, 25.0, 4500.0] T77.3 Cp": "0x1.007e373715177p+0",
"QRRHOVib[10.0, 25.0, 4500.0] T77.3 Cp J/mol/K": "0x1.0a933b4933339p+3",
"QRRHOVib[10.0, 25.0, 4500.0] T77.3 Cp positional": "0x1.007e373715177p+0",
"QRRHOVib[10.0, 25.0, 4500.0] T77.3 Cv": "0x1.007e373715177p+0",
"QRRHOVib[10.0, 25.0, 4500.0] T77.3 H G": [
"0x1.570c76d48c022p+5",
"0x1.3c1c4f266611ap+5"
],
"QRRHOVib[10.0, 25.0, 4500.0] expected arguments": [
"self",
"T"
],
"QRRHOVib[10.0, 25.0, 4500.0] no T": "TypeError",
"QRRHOVib[10.0, 25.0, 4500.0] signature": "(T)",
"QRRHOVib[10.0, 25.0, 4500.0] sub T1000 Cp": "0x1.11d7880171660p+0",
"QRRHOVib[10.0, 25.0, 4500.0] sub T1000 Cp J/mol/K": "0x1.1c9b1fc35f78cp+3",
"QRRHOVib[10.0, 25.0, 4500.0] sub T1000 Cp positional": "0x1.11d7880171660p+0",
"QRRHOVib[10.0, 25.0, 4500.0] sub T1000 Cv": "0x1.11d7880171660p+0",
"QRRHOVib[10.0, 25.0, 4500.0] sub T1000 H G": [
"0x1.10225760c3dafp+2",
"-0x1.b3b3578731b2cp+0"
],
"QRRHOVib[10.0, 25.0, 4500.0] sub T298.15 Cp": "0x1.013ccea837c4dp+0",
"QRRHOVib[10.0, 25.0, 4500.0] sub T298.15 Cp J/mol/K": "0x1.0b595098a44c6p+3",
"QRRHOVib[10.0, 25.0, 4500.0] sub T298.15 Cp positional": "0x1.013ccea837c4dp+0",
"QRRHOVib[10.0, 25.0, 4500.0] sub T298.15 Cv": "0x1.013ccea837c4dp+0",
"QRRHOVib[10.0, 25.0, 4500.0] sub T298.15 H G": [
"0x1.7b9ac41f3eaffp+3",
"0x1.c8b6b8899aadbp+2"
],
"QRRHOVib[10.0, 25.0, 4500.0] sub T50 Cp": "0x1.01236aae08c90p+0",
"QRRHOVib[10.0, 25.0, 4500.0] sub T50 Cp J/mol/K": "0x1.0b3eed1f0c69fp+3",
"QRRHOVib[10.0, 25.0, 4500.0] sub T50 Cp positional": "0x1.01236aae08c90p+0",
"QRRHOVib[10.0, 25.0, 4500.0] sub T50 Cv": "0x1.01236aae08c90p+0",
"QRRHOVib[10.0, 25.0, 4500.0] sub T50 H G": [
"0x1.07003b1c1030ap+6",
"0x1.f68ac85459188p+5"
],
"QRRHOVib[10.0, 25.0, 4500.0] sub T5000 Cp": "0x1.e047aa42f6ad6p+0",
"QRRHOVib[10.0, 25.0, 4500.0] sub T5000 Cp J/mol/K": "0x1.f32895a76a1a7p+3",
"QRRHOVib[10.0, 25.0, 4500.0] sub T5000 Cp positional": "0x1.e047aa42f6ad6p+0",
"QRRHOVib[10.0, 25.0, 4500.0] sub T5000 Cv": "0x1.e047aa42f6ad6p+0",
"QRRHOVib[10.0, 25.0, 4500.0] sub T5000 H G": [
"0x1.120667bb3f96ap+1",
"-0x1.8e902e046aeb9p+2"
],
"QRRHOVib[10.0, 25.0, 4500.0] sub T77.3 Cp": "0x1.013273c580a0ap+0",
"QRRHOVib[10.0, 25.0, 4500.0] sub T77.3 Cp J/mol/K": "0x1.0b4e8d82d2e0fp+3",
"QRRHOVib[10.0, 25.0, 4500.0] sub T77.3 Cp positional": "0x1.013273c580a0ap+0",
"QRRHOVib[10.0, 25.0, 4500.0] sub T77.3 Cv": "0x1.013273c580a0ap+0",
"QRRHOVib[10.0, 25.0, 4500.0] sub T77.3 H G": [
"0x1.571284ae1ff77p+5",
"0x1.3c1c8036396c5p+5"
],
"QRRHOVib[10.0, 25.0, 4500.0] sub expected arguments": [
"self",
"T"
],
"QRRHOVib[10.0, 25.0, 4500.0] sub no T": "TypeError",
"QRRHOVib[10.0, 25.0, 4500.0] sub signature": "(T)",
"QRRHOVib[3825.434, 3710.2642, 1582.432] T1000 Cp": "0x1.d89e982736c1ep-1",
"QRRHOVib[3825.434, 3710.2642, 1582.432] T1000 Cp J/mol/K": "0x1.eb326dda36ec8p+2",
"QRRHOVib[3825.434, 3710.2642, 1582.432] T1000 Cp positional": "0x1.d89e982736c1ep-1",
"QRRHOVib[3825.434, 3710.2642, 1582.432] T1000 Cv": "0x1.d89e982736c1ep-1",
"QRRHOVib[3825.434, 3710.2642, 1582.432] T1000 H G": [
"0x1.b78e919b43762p+2",
"0x1.9c4e85ae96172p+2"
],
"QRRHOVib[3825.434, 3710.2642, 1582.432] T298.15 Cp": "0x1.cdcce865d0edap-6",
"QRRHOVib[3825.434, 3710.2642, 1582.432] T298.15 Cp J/mol/K": "0x1.dff3df88d399fp-3",
"QRRHOVib[3825.434, 3710.2642, 1582.432] T298.15 Cp positional": "0x1.cdcce865d0edap-6",
"QRRHOVib[3825.434, 3710.2642, 1582.432] T298.15 Cv": "0x1.cdcce865d0edap-6",
"QRRHOVib[3825.434, 3710.2642, 1582.432] T298.15 H G": [
"0x1.601151e96c776p+4",
"0x1.60003c8c09444p+4"
],
"QRRHOVib[3825.434, 3710.2642, 1582.432] T50 Cp": "0x1.1c3e0353fd020p-17",
"QRRHOVib[3825.434, 3710.2642, 1582.432] T50 Cp J/mol/K": "0x1.276a42e0706aap-14",
"QRRHOVib[3825.434, 3710.2642, 1582.432] T50 Cp positional": "0x1.1c3e0353fd020p-17",
"QRRHOVib[3825.434, 3710.2642, 1582.432] T50 Cv": "0x1.1c3e0353fd020p-17",
"QRRHOVib[3825.434, 3710.2642, 1582.432] T50 H G": [
"0x1.0660dcb714498p+7",
"0x1.0660dea14befbp+7"
],
"QRRHOVib[3825.434, 3710.2642, 1582.432] T5000 Cp": "0x1.6622cde78116bp+1",
"QRRHOVib[3825.434, 3710.2642, 1582.432] T5000 Cp J/mol/K": "0x1.74369fb4c7620p+4",
"QRRHOVib[3825.434, 3710.2642, 1582.432] T5000 Cp positional": "0x1.6622cde78116bp+1",
"QRRHOVib[3825.434, 3710.2642, 1582.432] T5000 Cv": "0x1.6622cde78116bp+1",
"QRRHOVib[3825.434, 3710.2642, 1582.432] T5000 H G": [
"0x1.9acee663f14c4p+1",
"-0x1.0a00482bad9fcp-1"
],
"QRRHOVib[3825.434, 3710.2642, 1582.432] T77.3 Cp": "0x1.1c3f379b22c03p-17",
"QRRHOVib[3825.434, 3710.2642, 1582.432] T77.3 Cp J/mol/K": "0x1.276b8345b2f00p-14",
"QRRHOVib[3825.434, 3710.2642, 1582.432] T77.3 Cp positional": "0x1.1c3f379b22c03p-17",
"QRRHOVib[3825.434, 3710.2642, 1582.432] T77.3 Cv": "0x1.1c3f379b22c03p-17",
"QRRHOVib[3825.434, 3710.2642, 1582.432] T77.3 H G": [
"0x1.536dbe9ac9effp+6",
"0x1.536dc1778d133p+6"
],
"QRRHOVib[3825.434, 3710.2642, 1582.432] expected arguments": [
"self",
"T"
],
"QRRHOVib[3825.434, 3710.2642, 1582.432] no T": "TypeError",
"QRRHOVib[3825.434, 3710.2642, 1582.432] signature": "(T)",
"QRRHOVib[3825.434, 3710.2642, 1582.432] sub T1000 Cp": "0x1.d89ec39c9e01dp-1",
"QRRHOVib[3825.434, 3710.2642, 1582.432] sub T1000 Cp J/mol/K": "0x1.eb329b04edebcp+2",
"QRRHOVib[3825.434, 3710.2642, 1582.432] sub T1000 Cp positional": "0x1.d89ec39c9e01dp-1",
"QRRHOVib[3825.434, 3710.2642, 1582.432] sub T1000 Cv": "0x1.d89ec39c9e01dp-1",
"QRRHOVib[3825.434, 3710.2642, 1582.432] sub T1000 H G": [
"0x1.b78eba98a71fep+2",
"0x1.9c4ebab51a3b6p+2"
],
"QRRHOVib[3825.434, 3710.2642, 1582.432] sub T298.15 Cp": "0x1.cdb90b15a6f7ap-6",
"QRRHOVib[3825.434, 3710.2642, 1582.432] sub T298.15 Cp J/mol/K": "0x1.dfdf3a549ceb0p-3",
"QRRHOVib[3825.434, 3710.2642, 1582.432] sub T298.15 Cp positional": "0x1.cdb90b15a6f7ap-6",
"QRRHOVib[3825.434, 3710.2642, 1582.432] sub T298.15 Cv": "0x1.cdb90b15a6f7ap-6",
"QRRHOVib[3825.434, 3710.2642, 1582.432] sub T298.15 H G": [
"0x1.601177fe0c379p+4",
"0x1.600062e7e8c62p+4"
],
"QRRHOVib[3825.434, 3710.2642, 1582.432] sub T50 Cp": "0x1.d1b4e4f5b4081p-19",
"QRRHOVib[3825.434, 3710.2642, 1582.432] sub T50 Cp J/mol/K": "0x1.e4032aacccdedp-16",
"QRRHOVib[3825.434, 3710.2642, 1582.432] sub T50 Cp positional": "0x1.d1b4e4f5b4081p-19",
"QRRHOVib[3825.434, 3710.2642, 1582.432] sub T50 Cv": "0x1.d1b4e4f5b4081p-19",
"QRRHOVib[3825.434, 3710.2642, 1582.432] sub T50 H G": [
"0x1.0660fc5361f15p+7",
"0x1.0660fd1c2d264p+7"
],
"QRRHOVib[3825.434, 3710.2642, 1582.432] sub T5000 Cp": "0x1.6622f60d82af6p+1",
"QRRHOVib[3825.434, 3710.2642, 1582.432] sub T5000 Cp J/mol/K": "0x1.7436c96ec99ccp+4",
"QRRHOVib[3825.434, 3710.2642, 1582.432] sub T5000 Cp positional": "0x1.6622f60d82af6p+1",
"QRRHOVib[3825.434, 3710.2642, 1582.432] sub T5000 Cv": "0x1.6622f60d82af6p+1",
"QRRHOVib[3825.434, 3710.2642, 1582.432] sub T5000 H G": [
"0x1.9acf122d4ae64p+1",
"-0x1.09ffffdf56ce0p-1"
],
"QRRHOVib[3825.434, 3710.2642, 1582.432] sub T77.3 Cp": "0x1.d1b9b61543e65p-19",
"QRRHOVib[3825.434, 3710.2642, 1582.432] sub T77.3 Cp J/mol/K": "0x1.e4082c44edc2ap-16",
"QRRHOVib[3825.434, 3710.2642, 1582.432] sub T77.3 Cp positional": "0x1.d1b9b61543e65p-19",
"QRRHOVib[3825.434, 3710.2642, 1582.432] sub T77.3 Cv": "0x1.d1b9b61543e65p-19",
"QRRHOVib[3825.434, 3710.2642, 1582.432] sub T77.3 H G": [
"0x1.536de708f3ad3p+6",
"0x1.536de83517771p+6"
],
"QRRHOVib[3825.434, 3710.2642, 1582.432] sub expected arguments": [
"self",
"T"
],
"QRRHOVib[3825.434, 3710.2642, 1582.432] sub no T": "TypeError",
"QRRHOVib[3825.434, 3710.2642, 1582.432] sub signature": "(T)",
"QRRHOVib[667.4, 667.4, 1388.2, 2349.2] T1000 Cp": "0x1.7f44566c89792p+1",
"QRRHOVib[667.4, 667.4, 1388.2, 2349.2] T1000 Cp J/mol/K": "0x1.8e550b0756288p+4",
"QRRHOVib[667.4, 667.4, 1388.2, 2349.2] T1000 Cp positional": "0x1.7f44566c89792p+1",
"QRRHOVib[667.4, 667.4, 1388.2, 2349.2] T1000 Cv": "0x1.7f44566c89792p+1",
"QRRHOVib[667.4, 667.4, 1388.2, 2349.2] T1000 H G": [
"0x1.516a9451c7038p+2",
"0x1.4056d797c6850p+1"
],
"QRRHOVib[667.4, 667.4, 1388.2, 2349.2] T298.15 Cp": "0x1.e9509b325f95bp-1",
"QRRHOVib[667.4, 667.4, 1388.2, 2349.2] T298.15 Cp J/mol/K": "0x1.fc8c710db5c12p+2",
"QRRHOVib[667.4, 667.4, 1388.2, 2349.2] T298.15 Cp positional": "0x1.e9509b325f95bp-1",
"QRRHOVib[667.4, 667.4, 1388.2, 2349.2] T298.15 Cv": "0x1.e9509b325f95bp-1",
"QRRHOVib[667.4, 667.4, 1388.2, 2349.2] T298.15 H G": [
"0x1.906d69ccbf7f8p+3",
"0x1.84eda3ea03086p+3"
],
"QRRHOVib[667.4, 667.4, 1388.2, 2349.2] T50 Cp": "0x1.11ce996faa8c4p-11",
"QRRHOVib[667.4, 667.4, 1388.2, 2349.2] T50 Cp J/mol/K": "0x1.1c91d75080b59p-8",
"QRRHOVib[667.4, 667.4, 1388.2, 2349.2] T50 Cp positional": "0x1.11ce996faa8c4p-11",
"QRRHOVib[667.4, 667.4, 1388.2, 2349.2] T50 Cv": "0x1.11ce996faa8c4p-11",
"QRRHOVib[667.4, 667.4, 1388.2, 2349.2] T50 H G": [
"0x1.23df16c69dabdp+6",
"0x1.23df88185d4c0p+6"
],
"QRRHOVib[667.4, 667.4, 1388.2, 2349.2] T5000 Cp": "0x1.f8b1f373334b8p+1",
"QRRHOVib[667.4, 667.4, 1388.2, 2349.2] T5000 Cp J/mol/K": "0x1.064446d6f1553p+5",
"QRRHOVib[667.4, 667.4, 1388.2, 2349.2] T5000 Cp positional": "0x1.f8b1f373334b8p+1",
"QRRHOVib[667.4, 667.4, 1388.2, 2349.2] T5000 Cv": "0x1.f8b1f373334b8p+1",
"QRRHOVib[667.4, 667.4, 1388.2, 2349.2] T5000 H G": [
"0x1.03a0988550716p+2",
"-0x1.2523923db2eb6p+2"
],
"QRRHOVib[667.4, 667.4, 1388.2, 2349.2] T77.3 Cp": "0x1.cdbd2e2a5171dp-10",
"QRRHOVib[667.4, 667.4, 1388.2, 2349.2] T77.3 Cp J/mol/K": "0x1.dfe3870a81422p-7",
"QRRHOVib[667.4, 667.4, 1388.2, 2349.2] T77.3 Cp positional": "0x1.cdbd2e2a5171dp-10",
"QRRHOVib[667.4, 667.4, 1388.2, 2349.2] T77.3 Cv": "0x1.cdbd2e2a5171dp-10",
"QRRHOVib[667.4, 667.4, 1388.2, 2349.2] T77.3 H G": [
"0x1.7995c17ce72e2p+5",
"0x1.7995f50a407b5p+5"
],
"QRRHOVib[667.4, 667.4, 1388.2, 2349.2] expected arguments": [
"self",
"T"
],
"QRRHOVib[667.4, 667.4, 1388.2, 2349.2] no T": "TypeError",
"QRRHOVib[667.4, 667.4, 1388.2, 2349.2] signature": "(T)",
"QRRHOVib[667.4, 667.4, 1388.2, 2349.2] sub T1000 Cp": "0x1.7f4cc33b2383ep+1",
"QRRHOVib[667.4, 667.4, 1388.2, 2349.2] sub T1000 Cp J/mol/K": "0x1.8e5dcc9d45115p+4",
"QRRHOVib[667.4, 667.4, 1388.2, 2349.2] sub T1000 Cp positional": "0x1.7f4cc33b2383ep+1",
"QRRHOVib[667.4, 667.4, 1388.2, 2349.2] sub T1000 Cv": "0x1.7f4cc33b2383ep+1",
"QRRHOVib[667.4, 667.4, 1388.2, 2349.2] sub T1000 H G": [
"0x1.517071294c50ap+2",
"0x1.4063023dece96p+1"
],
"QRRHOVib[667.4, 667.4, 1388.2, 2349.2] sub T298.15 Cp": "0x1.e94b9a8278319p-1",
"QRRHOVib[667.4, 667.4, 1388.2, 2349.2] sub T298.15 Cp J/mol/K": "0x1.fc873e069e4cfp+2",
"QRRHOVib[667.4, 667.4, 1388.2, 2349.2] sub T298.15 Cp positional": "0x1.e94b9a8278319p-1",
"QRRHOVib[667.4, 667.4, 1388.2, 2349.2] sub T298.15 Cv": "0x1.e94b9a8278319p-1",
"QRRHOVib[667.4, 667.4, 1388.2, 2349.2] sub T298.15 H G": [
"0x1.9073ee019c240p+3",
"0x1.84f5b179febc7p+3"
],
"QRRHOVib[667.4, 667.4, 1388.2, 2349.2] sub T50 Cp": "0x1.c4e765f5ecb21p-13",
"QRRHOVib[667.4, 667.4, 1388.2, 2349.2] sub T50 Cp J/mol/K": "0x1.d6b4d72bdfc45p-10",
"QRRHOVib[667.4, 667.4, 1388.2, 2349.2] sub T50 Cp positional": "0x1.c4e765f5ecb21p-13",
"QRRHOVib[667.4, 667.4, 1388.2, 2349.2] sub T50 Cv": "0x1.c4e765f5ecb21p-13",
"QRRHOVib[667.4, 667.4, 1388.2, 2349.2] sub T50 H G": [
"0x1.23e503f7e8f03p+6",
"0x1.23e5325e0c2aep+6"
],
"QRRHOVib[667.4, 667.4, 1388.2, 2349.2] sub T5000 Cp": "0x1.f8bbeb15c6b6cp+1",
"QRRHOVib[667.4, 667.4, 1388.2, 2349.2] sub T5000 Cp J/mol/K": "0x1.064974ce6ac41p+5",
"QRRHOVib[667.4, 667.4, 1388.2, 2349.2] sub T5000 Cp positional": "0x1.f8bbeb15c6b6cp+1",
"QRRHOVib[667.4, 667.4, 1388.2, 2349.2] sub T5000 Cv": "0x1.f8bbeb15c6b6cp+1",
"QRRHOVib[667.4, 667.4, 1388.2, 2349.2] sub T5000 H G": [
"0x1.03a5a606f63fap+2",
"-0x1.2525f975c4beep+2"
],
"QRRHOVib[667.4, 667.4, 1388.2, 2349.2] sub T77.3 Cp": "0x1.7d8b8bd729a8ap-10",
"QRRHOVib[667.4, 667.4, 1388.2, 2349.2] sub T77.3 Cp J/mol/K": "0x1.8c8aece35cda2p-7",
"QRRHOVib[667.4, 667.4, 1388.2, 2349.2] sub T77.3 Cp positional": "0x1.7d8b8bd729a8ap-10",
"QRRHOVib[667.4, 667.4, 1388.2, 2349.2] sub T77.3 Cv": "0x1.7d8b8bd729a8ap-10",
"QRRHOVib[667.4, 667.4, 1388.2, 2349.2] sub T77.3 H G": [
"0x1.799d33861ead4p+5",
"0x1.799d272de29b4p+5"
],
"QRRHOVib[667.4, 667.4, 1388.2, 2349.2] sub expected arguments": [
"self",
"T"
],
"QRRHOVib[667.4, 667.4, 1388.2, 2349.2] sub no T": "TypeError",
"QRRHOVib[667.4, 667.4, 1388.2, 2349.2] sub signature": "(T)"
}""")

if __name__ == '__main__':
    got = {k: canon(v) for k, v in compute().items()}
    diff = [k for k in sorted(set(got) | set(EXPECTED)) if got.get(k) != EXPECTED.get(k)]
    for k in diff[:20]:
        print('DIFFERS %s: got %r recorded %r' % (k, got.get(k), EXPECTED.get(k)))
    print('%d results compared bit for bit with the recorded values of the unchanged tree, %d differ'
          % (len(EXPECTED), len(diff)))
    sys.exit(1 if diff else 0)
