"""C02 A5: get_nasa9_CpoR builds its basis with a comprehension, [T**n for n in range(-2, 5)].  The temperature reaches
this evaluator as a numpy array (SingleNasa9.get_CpoR wraps it), and numpy refuses a negative integer power of an
integer: a NASA-9 species cannot report Cp at T=300 or at np.arange(300, 1000, 100) any more, while H, S (and Cp at
300.0) are unchanged.  (The defect repaired by commit b0f4e40, back in another spelling.)
exit 1 / prints WRONG with the change, exit 0 without.  Takes pmutt from PYTHONPATH."""
import sys
import numpy as np
from pmutt.empirical.nasa import Nasa9, SingleNasa9

a0 = np.array([2.2e4, -3.4e2, 3.5, 5.1e-3, -2.3e-6, 6.1e-10, -6.6e-14, -3.9e4, 2.1])
a1 = np.array([1.2e5, -1.7e3, 8.3, -9.2e-5, 4.9e-9, -1.9e-12, 6.3e-16, -3.9e4, -26.5])
sp = Nasa9(name='X', nasas=[SingleNasa9(T_low=200., T_high=1000., a=a0), SingleNasa9(T_low=1000., T_high=6000., a=a1)])
bad = False
for T in (300, np.arange(300, 1000, 100), [300, 1500]):
    ref = sp.get_CpoR(T=np.asarray(T, dtype=float)) if np.ndim(T) else sp.get_CpoR(T=float(T))
    H, S = sp.get_HoRT(T=T), sp.get_SoR(T=T)           # the siblings accept the same temperatures
    try:
        Cp = sp.get_CpoR(T=T)
    except ValueError as e:
        print('WRONG: get_CpoR(T=%r) raises %s: %s (H/RT and S/R are fine, Cp/R at the float temperatures = %s)'
              % (T, type(e).__name__, e, ref))
        bad = True
    else:
        ok = np.allclose(Cp, ref, rtol=1e-13)
        print('get_CpoR(T=%r) = %s  %s' % (T, Cp, 'ok' if ok else 'WRONG'))
        bad = bad or not ok
sys.exit(1 if bad else 0)
