"""C02 A4: the result buffer of Nasa9.get_SoR's array branch is made with np.asarray(T, dtype=np.double) instead of
np.zeros_like(a=T, dtype=np.double).  For a list or an integer array that is a fresh float array; for a float64
ndarray np.asarray returns THE CALLER'S ARRAY, so the entropies are written over the temperatures.  Everything that
uses the array afterwards sees S/R values instead of temperatures: get_G(T, units) = get_GoRT(T) * T * R is silently
wrong for arrays, and Cp or H asked for on the same array are evaluated at (or refused for) the wrong temperatures.
exit 1 / prints WRONG with the change, exit 0 without.  Takes pmutt from PYTHONPATH."""
import sys
import numpy as np
from pmutt import constants as c
from pmutt.empirical.nasa import Nasa9, SingleNasa9

a0 = np.array([2.2e4, -3.4e2, 3.5, 5.1e-3, -2.3e-6, 6.1e-10, -6.6e-14, -3.9e4, 2.1])
a1 = np.array([1.2e5, -1.7e3, 8.3, -9.2e-5, 4.9e-9, -1.9e-12, 6.3e-16, -3.9e4, -26.5])
sp = Nasa9(name='X', elements={'C': 1, 'O': 2},
           nasas=[SingleNasa9(T_low=50., T_high=1000., a=a0), SingleNasa9(T_low=1000., T_high=6000., a=a1)])
T0 = np.array([300., 650., 1000., 1800.])
bad = False

# 1. G = H - T S with units, array against one temperature at a time
T = T0.copy()
G = sp.get_G(T=T, units='kJ/mol')
G_each = np.array([sp.get_G(T=float(t), units='kJ/mol') for t in T0])
print('get_G(array)   :', G)
print('get_G one by one:', G_each)
if not np.allclose(G, G_each, rtol=1e-12):
    print('WRONG: G(array) differs from G evaluated one temperature at a time')
    bad = True
if not np.array_equal(T, T0):
    print('WRONG: the caller\'s temperature array now holds', T)
    bad = True

# 2. S then Cp on the same array: dS/dT = Cp/T cannot be checked any more
T = T0.copy()
S = sp.get_SoR(T=T)
try:
    Cp = sp.get_CpoR(T=T)
except ValueError as e:
    print('WRONG: get_CpoR on the same array after get_SoR raises:', str(e)[:70])
    bad = True
else:
    Cp_each = np.array([sp.get_CpoR(T=float(t)) for t in T0])
    if not np.allclose(Cp, Cp_each, rtol=1e-12):
        print('WRONG: Cp/R on the same array after S/R = %s, one by one %s' % (Cp, Cp_each))
        bad = True
sys.exit(1 if bad else 0)
