"""C15_extraA: string cells '-' and 'n/a' are non-empty cells (pandas' own NA strings are 'N/A', 'NA', 'n/a' ... but
not '-'; the demo uses '-' only, which pandas delivers as text) and must appear in the record under their header.
Tree is taken from PYTHONPATH."""
import os
import sys
import tempfile
import warnings

import openpyxl

warnings.filterwarnings('ignore')
from pmutt.io.excel import read_excel

wb = openpyxl.Workbook()
ws = wb.active
ws.title = 'species'
ws.append(['name', 'phase', 'notes', 'list.sites', 'list.sites', 'dict.bonds.C', 'dict.bonds.O'])
ws.append(['comment row', None, None, None, None, None, None])
ws.append(['CO(S)', 'S', '-', 'top', '-', '-', '='])
ws.append(['-', 'G', None, None, None, None, None])
path = os.path.join(tempfile.mkdtemp(), 'book.xlsx')
wb.save(path)
out = read_excel(path, sheet_name='species')
want = [{'name': 'CO(S)', 'phase': 'S', 'notes': '-', 'sites': ['top', '-'], 'bonds': {'C': '-', 'O': '='}},
        {'name': '-', 'phase': 'G'}]
bad = 0
for i, (got, exp) in enumerate(zip(out, want)):
    ok = got == exp
    print('%s row %d: got %s' % ('ok   ' if ok else 'WRONG', i + 1, got))
    if not ok:
        print('            expected %s' % exp)
        bad = 1
sys.exit(bad or len(out) != 2)
