"""C19 / A4: scan over the pressure of ONE species. pMuTT hands species-specific conditions over as
<species name>_kwargs={'P': ...} (see pmutt._get_specie_kwargs and the Reaction docstring), so the scan variable is
'O2_kwargs' and the grid a list of dictionaries. Every tabulated energy must be the reaction's own delta G/RT at that
grid point over its normalisation factor (times RT with units), the stable phase the arg-min - in one and two
parameters alike."""
import sys
import numpy as np
from pmutt import constants as c
from pmutt.reaction import Reaction
from pmutt.reaction.phasediagram import PhaseDiagram


class Sp:
    """species with an ideal-gas like Gibbs energy depending on T and P"""
    def __init__(self, name, h, s, elements, gas=False):
        self.name, self.h, self.s, self.elements, self.gas = name, h, s, elements, gas
        self.phase = 'G' if gas else 'S'

    def get_GoRT(self, T=298.15, P=1., **kwargs):
        return self.h / T - self.s + (np.log(P) if self.gas else 0.)

    def get_G(self, units, T=298.15, **kwargs):
        return self.get_GoRT(T=T, **kwargs) * T * c.R('{}/K'.format(units))


sp = {'M': Sp('M', 0., 0., {'M': 1}), 'O2': Sp('O2', 0., 25., {'O': 2}, gas=True),
      'H2': Sp('H2', 0., 16., {'H': 2}, gas=True), 'H2O': Sp('H2O', -29000., 23., {'H': 2, 'O': 1}, gas=True),
      'MO': Sp('MO', -30000., 5., {'M': 1, 'O': 1}), 'MO2': Sp('MO2', -52000., 9., {'M': 1, 'O': 2}),
      'MH2': Sp('MH2', -9000., 3., {'M': 1, 'H': 2})}
rx = [Reaction.from_string(s, sp) for s in ('M = M', 'M + 0.5O2 = MO', 'M + O2 = MO2', 'M + H2 = MH2')]
nf = [1., 1., 1.5, 1.]
pO2 = [{'P': p} for p in (1e-30, 1e-20, 1e-10, 1.)]
T_grid = [800., 1600.]
bad = 0
pd = PhaseDiagram(rx, norm_factors=list(nf))
for units in (None, 'kJ/mol'):
    want = np.array([[[r.get_delta_GoRT(T=t, P=1., O2_kwargs=p) / f * (c.R(units + '/K') * t if units else 1.)
                       for p in pO2] for t in T_grid] for r, f in zip(rx, nf)])
    wst = np.argmin(want, axis=0)
    for j, t in enumerate(T_grid):
        G, st = pd.get_GoRT_1D('O2_kwargs', pO2, G_units=units, T=t, P=1.)
        ok = np.allclose(G, want[:, j, :], rtol=1e-10) and [int(v) for v in st] == [int(v) for v in wst[j]]
        print('1D scan of p(O2) at T=%g units=%s: stable=%s expected=%s; MO2 row %s expected %s  %s' % (
            t, units, [int(v) for v in st], [int(v) for v in wst[j]], np.round(G[2], 2), np.round(want[2, j], 2),
            'ok' if ok else 'WRONG'))
        bad += not ok
    G2, st2 = pd.get_GoRT_2D('T', T_grid, 'O2_kwargs', pO2, G_units=units, P=1.)
    ok = np.allclose(G2, want, rtol=1e-10) and np.array_equal(np.asarray(st2).astype(int), wst)
    print('2D scan T x p(O2) units=%s: stable=%s expected=%s  %s' % (
        units, np.asarray(st2).astype(int).tolist(), wst.tolist(), 'ok' if ok else 'WRONG'))
    bad += not ok
sys.exit(1 if bad else 0)
