"""C20 A3: the gas root requested with a truthy flag that is not the singleton True - the numpy bool that a comparison
of numpy numbers yields (gas_phase = T > T_boil) or 1. Solve for V, substitute back, and compare with gas_phase=True.
Exit 0 when right, exit 1 (prints WRONG) otherwise. Tree taken from PYTHONPATH."""
import sys
import numpy as np
from pmutt.eos import vanDerWaalsEOS

co2 = vanDerWaalsEOS(a=0.364, b=4.27e-5)      # Tc = 303.8 K, Pc = 73.9 bar
T_sat = 220.                                  # some saturation temperature at the pressure below
bad = 0
for T in np.linspace(230., 290., 3):          # states above T_sat: the caller wants the gas
    P, n = 5., 2.
    ref = co2.get_V(T=T, P=P, n=n, gas_phase=True)
    for flag in (T > T_sat, 1):
        label = 'T=%g K P=%g bar n=%g gas_phase=%r (%s)' % (T, P, n, flag, type(flag).__name__)
        V = co2.get_V(T=T, P=P, n=n, gas_phase=flag)
        n_back = co2.get_n(V=ref, P=P, T=T, gas_phase=flag)
        ok = abs(V / ref - 1) < 1e-12 and abs(n_back / n - 1) < 1e-12
        print('%s  %s: V=%.6e m3 (gas root %.6e), get_n(V_gas)=%.6g (n=%g)' % ('ok   ' if ok else 'WRONG', label, V, ref,
                                                                           n_back, n))
        bad += not ok
sys.exit(1 if bad else 0)
