"""C14_B3: _parse_reaction_state reads the coefficient with match[0] / match.end() instead of match.group() / len() -
identical results for every string.  Run with PYTHONPATH=<tree>; exit 0 on the original and on the refactored tree."""
import random
import re
import sys
from pmutt.reaction import Reaction, _parse_reaction_state, _parse_reaction


def reference(reaction_str, species_delimiter='+'):
    # the original implementation (dcdf1e7), verbatim
    species_str = reaction_str.split(species_delimiter)
    species = []
    stoichiometry = []
    for specie in species_str:
        specie = specie.strip()
        stoich_search = re.search(r'^\d+\.?\d*', specie)
        if stoich_search is None:
            specie = specie.strip()
            specie_stoich = 1.
        else:
            specie_stoich = stoich_search.group()
            trim_len = len(specie_stoich)
            specie = specie[trim_len:].strip()
            specie_stoich = float(specie_stoich)
        try:
            i = species.index(specie)
        except ValueError:
            species.append(specie)
            stoichiometry.append(specie_stoich)
        else:
            stoichiometry[i] += specie_stoich
    return (species, stoichiometry)


def outcome(f, *a, **k):
    try:
        return ('value', f(*a, **k))
    except Exception as e:      # the same exception, the same message
        return ('raised', type(e).__name__, str(e))


rnd = random.Random(3)
names = ['H2', 'O2', 'H2O', 'CH3OH(S)', '*', 'CO*', 'A(g)_shomate', 'H2O_TS', 'E1', 'Pt(S)', 'e2', '', '2', 'A B']
coefs = ['', '', '2', '0.5', '12.5', '100.25', '2.0', '2.', '007', '1e3', '.5', '3 ', ' 4', '10  ', '2.5.1', '٣']
delims = ['+', '.', ' + ', '&', '<>', 'and']
n = bad = 0
for _ in range(6000):
    d = rnd.choice(delims)
    parts = [rnd.choice(['', ' ', '  ']) + rnd.choice(coefs) + rnd.choice(['', ' ']) + rnd.choice(names) +
             rnd.choice(['', ' ', '\t', '\n']) for _ in range(rnd.randint(1, 5))]
    s = d.join(parts)
    got, want = outcome(_parse_reaction_state, s, d), outcome(reference, s, d)
    n += 1
    if got != want or repr(got) != repr(want):
        print('DIFFERENT: %r with %r -> %r, original %r' % (s, d, got, want))
        bad += 1
# whole reactions through the public constructor
species = {k: object() for k in names if k}
for txt in ('H2+0.5O2=H2O_TS=H2O', ' H2 + 0.5 O2 = H2O ', '2H2 + O2 + 1.5 H2 = 2 H2O', '12.5CO* + 10 * = 100.25 Pt(S)',
            'A(g)_shomate + * = CO*', '2E1 = e2', 'H2 = XX'):
    got = outcome(lambda: (lambda r: (r.reactants, r.reactants_stoich, r.products, r.products_stoich,
                                      r.transition_state, r.transition_state_stoich))(Reaction.from_string(txt, species)))
    (rn, rs), (pn, ps) = reference(txt.split('=')[0]), reference(txt.split('=')[-1])
    if got[0] == 'value':
        ok = got[1][:4] == ([species[x] for x in rn], rs, [species[x] for x in pn], ps)
    else:
        ok = got[1] == 'KeyError' and '"XX"' in got[2]
    n += 1
    if not ok:
        print('DIFFERENT: from_string(%r) -> %r' % (txt, got))
        bad += 1
assert _parse_reaction('H2+0.5O2=H2O') == (['H2', 'O2'], [1., 0.5], ['H2O'], [1.], None, None)
print('%d strings compared, %d differences' % (n, bad))
sys.exit(1 if bad else 0)
