"""C03 (T_mid given as a list of candidates, some of them close to the bounds): the fitted NASA-7 species must track
the source, and data sampled from a NASA-7 polynomial pair must be reproduced.  Exit 1 / prints WRONG otherwise."""
import sys
import warnings
import numpy as np
from ase.build import molecule
from pmutt.statmech import StatMech, presets
from pmutt.empirical.nasa import Nasa

warnings.simplefilter('ignore')
bad = False
h2o = StatMech(name='H2O', atoms=molecule('H2O'), symmetrynumber=2, spin=0, potentialenergy=-14.22,
               vib_wavenumbers=[3825.434, 3710.264, 1582.432], **presets['idealgas'])
ads = StatMech(name='CO*', potentialenergy=-2.1, vib_wavenumbers=[2050., 420., 380., 370., 90., 85.],
               **presets['harmonic'])
for label, model, T_low, T_high, n_T, cands in (
        ('H2O gas ', h2o, 100., 3000., 50, np.arange(200., 3000., 200.)),
        ('H2O gas ', h2o, 100., 3000., 30, [250., 500., 1000., 1500.]),
        ('CO* ads ', ads, 100., 1500., 40, np.arange(150., 1500., 150.)),
        ('CO* ads ', ads, 300., 2000., 20, np.linspace(300., 2000., 12)[1:-1])):
    fit = Nasa.from_model(model=model, name='sp', T_low=T_low, T_high=T_high, n_T=n_T, T_mid=cands)
    Ts = np.linspace(T_low, T_high, 400)
    eCp = max(abs(fit.get_CpoR(T=T) - model.get_CpoR(T=T)) for T in Ts)
    eH = max(abs(fit.get_HoRT(T=T) - model.get_HoRT(T=T)) for T in Ts)
    eS = max(abs(fit.get_SoR(T=T) - model.get_SoR(T=T)) for T in Ts)
    # the error of the best single candidate, fitted on its own
    best = min(max(abs(f.get_CpoR(T=T) - model.get_CpoR(T=T)) for T in Ts) for f in
               (Nasa.from_model(model=model, name='sp', T_low=T_low, T_high=T_high, n_T=n_T, T_mid=float(c))
                for c in cands if T_low + 5 * (T_high - T_low) / (n_T - 1) < c < T_high - 5 * (T_high - T_low) / (n_T - 1)))
    print('%s %5.0f-%5.0f K n_T=%3d: T_mid=%7.1f  max|dCp/R|=%.2e max|dH/RT|=%.2e max|dS/R|=%.2e   '
          '(best single candidate: max|dCp/R|=%.2e)' % (label, T_low, T_high, n_T, fit.T_mid, eCp, eH, eS, best))
    if eCp > 10 * best and eCp > 2e-2:
        bad = True
print('WRONG: the species does not track the source (break temperature and coefficients come from different '
      'candidates)' if bad else 'OK')
sys.exit(1 if bad else 0)
