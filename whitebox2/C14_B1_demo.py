"""C14_B1: parse_formula totals repeated symbols with collections.Counter.update (which ADDS counts) and returns a
plain dict - same result, same type, same key order as the original for every formula.
Run with PYTHONPATH=<tree>; exit 0 on the original and on the refactored tree."""
import itertools
import random
import re
import sys
import pmutt


def reference(formula):
    # the original implementation (dcdf1e7), verbatim
    elements_tuples = re.findall(r'([A-Z][a-z]*)(\d*)', formula)
    elements = {}
    for (element, coefficient) in elements_tuples:
        elements[element] = elements.get(element, 0) + int(coefficient or '1')
    return elements


formulas = ['CH3CH2OH', 'Al2O3', 'C10H22', 'Pt100', 'Al20O30C456H789Pt1', 'HF', 'CaTiO3', 'CH3CH2CH3', 'H2O', 'OHH',
            'C999', 'CoCO', 'PtPt2Pt3', 'NaCl', 'C0H4', 'H', '', 'ch4', 'H2SO4', 'Cu5Zn8', 'HHHHHH', 'C2H5OC2H5',
            'Mg3Si4O10O2H2', 'Xe', 'UuoX12', 'CH3(CH2)3CH3', 'H2 O', 'Fe2(SO4)3']
rnd = random.Random(14)
symbols = ['H', 'C', 'N', 'O', 'S', 'P', 'F', 'Pt', 'Cu', 'Ni', 'Al', 'Si', 'Cl', 'Na', 'Zn', 'Co']
for _ in range(3000):
    n = rnd.randint(1, 7)
    formulas.append(''.join(rnd.choice(symbols) + rnd.choice(['', '', str(rnd.randint(1, 999)), str(rnd.randint(1, 9))])
                            for _ in range(n)))
for a, b, c in itertools.product(['C', 'Cl', 'H'], repeat=3):
    formulas.append(a + b + '2' + c + '30')
bad = 0
for f in formulas:
    got, want = pmutt.parse_formula(f), reference(f)
    if type(got) is not dict or got != want or list(got) != list(want) or \
            any(type(v) is not int for v in got.values()):
        print('DIFFERENT: parse_formula(%r) = %r (%s), original gives %r' % (f, got, type(got).__name__, want))
        bad += 1
# a second call is independent of the first, and the result may be modified by the caller
d = pmutt.parse_formula('CH4')
d['C'] = 99
if pmutt.parse_formula('CH4') != {'C': 1, 'H': 4}:
    print('DIFFERENT: second call')
    bad += 1
print('%d formulas compared, %d differences' % (len(formulas), bad))
sys.exit(1 if bad else 0)
