"""C08 A5: two adsorbate conformers A(S) = [TS(S)] = B(S) that differ by 2 meV (0.19 kJ/mol), harmonic StatMech models with
DFT-sized electronic energies (-300 eV).  The reaction change must be final minus initial, forward minus reverse
activation must equal it, and K = exp(-delta G/RT).
"""
import sys
import numpy as np
from pmutt.statmech import StatMech, presets
from pmutt.reaction import Reaction
from pmutt.omkm.reaction import SurfaceReaction

vib = [3000., 1500., 1200., 800., 400.]
A = StatMech(name='A(S)', potentialenergy=-300.000, vib_wavenumbers=vib, **presets['harmonic'])
B = StatMech(name='B(S)', potentialenergy=-300.002, vib_wavenumbers=vib, **presets['harmonic'])
TS = StatMech(name='TS(S)', potentialenergy=-299.600, vib_wavenumbers=vib[:-1], **presets['harmonic'])
T = 300.
bad = 0
for cls in (Reaction, SurfaceReaction):
    rxn = cls(reactants=[A], reactants_stoich=[1.], products=[B], products_stoich=[1.],
              transition_state=[TS], transition_state_stoich=[1.])
    for X in ('HoRT', 'GoRT', 'UoRT', 'FoRT'):
        st = lambda s: getattr(rxn, 'get_%s_state' % X)(state=s, T=T)
        want = st('products') - st('reactants')
        got = getattr(rxn, 'get_delta_' + X)(T=T)
        back = getattr(rxn, 'get_delta_' + X)(T=T, rev=True)
        act = getattr(rxn, 'get_delta_' + X)(T=T, act=True) - getattr(rxn, 'get_delta_' + X)(T=T, rev=True, act=True)
        for label, g, w in (('delta_%s' % X, got, want), ('delta_%s(rev)' % X, back, -want),
                            ('%s_act(fwd) - %s_act(rev) vs delta' % (X, X), got, act)):
            if not np.isclose(g, w, rtol=1e-9, atol=1e-9):
                bad += 1
                print('WRONG %s %s: %.8f, expected %.8f' % (cls.__name__, label, g, w))
    K = rxn.get_Keq(T=T)
    dG = B.get_GoRT(T=T) - A.get_GoRT(T=T)
    if not np.isclose(K, np.exp(-dG), rtol=1e-9):
        bad += 1
        print('WRONG %s Keq = %.8f, exp(-delta G/RT) = %.8f' % (cls.__name__, K, np.exp(-dG)))
print('violations: %d' % bad)
sys.exit(1 if bad else 0)
