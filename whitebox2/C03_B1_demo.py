"""C03 part B: the Cp-fitting helpers of pmutt.empirical.nasa in the tree on PYTHONPATH give bit-identical results to
the original ones (copied below from commit dcdf1e7) on a spread of inputs: statistical-mechanical sources, random
NASA-7 polynomials, constant and zero Cp, random windows and grid sizes, T_mid None / scalar / list (also candidates
next to the bounds).  Also compares whole Nasa.from_data results.  Exit 0 = identical everywhere."""
import sys
import warnings
import numpy as np
from warnings import warn
from pmutt import _is_iterable
from pmutt.empirical import nasa as N
from pmutt.empirical.nasa import Nasa, get_nasa_CpoR
from pmutt.statmech import StatMech, presets

warnings.simplefilter('ignore')


# ---- original code (dcdf1e7) -------------------------------------------------------------------------------
def orig_fit_CpoR(T, CpoR, T_mid=None):
    if all([np.isclose(x, 0.) for x in CpoR]) \
       or any([np.isnan(x) for x in CpoR]):
        T_mid = T[int(len(T) / 2)]
        a_low = np.zeros(7)
        a_high = np.zeros(7)
        return a_low, a_high, T_mid
    if T_mid is None:
        T_mid = T[5:-5]
    if not _is_iterable(T_mid):
        T_mid = (T_mid, )
    mse_list = []
    prev_mse = np.inf
    all_a_low = []
    all_a_high = []
    for T_m in T_mid:
        (mse, a_low, a_high) = orig_get_CpoR_MSE(T=T, CpoR=CpoR, T_mid=T_m)
        mse_list.append(mse)
        all_a_low.append(a_low)
        all_a_high.append(a_high)
        if mse > prev_mse:
            break
        prev_mse = mse
    min_mse = min(mse_list)
    min_i = np.where(min_mse == mse_list)[0][0]
    T_mid_out = T_mid[min_i]
    a_low_rev = all_a_low[min_i]
    a_high_rev = all_a_high[min_i]
    empty_arr = np.zeros(2)
    a_low_out = np.concatenate((a_low_rev[::-1], empty_arr))
    a_high_out = np.concatenate((a_high_rev[::-1], empty_arr))
    return a_low_out, a_high_out, T_mid_out


def orig_get_CpoR_MSE(T, CpoR, T_mid):
    low_condition = (T <= T_mid)
    high_condition = (T > T_mid)
    T_low = np.extract(condition=low_condition, arr=T)
    T_high = np.extract(condition=high_condition, arr=T)
    CpoR_low = np.extract(condition=low_condition, arr=CpoR)
    CpoR_high = np.extract(condition=high_condition, arr=CpoR)
    if len(T_low) < 5:
        warn('Small set of CpoR data between T_low and T_mid. Fit may not be desirable.', RuntimeWarning)
    if len(T_high) < 5:
        warn('Small set of CpoR data between T_mid and T_high. Fit may not be desirable.', RuntimeWarning)
    p_low = np.polyfit(x=T_low, y=CpoR_low, deg=4)
    p_high = np.polyfit(x=T_high, y=CpoR_high, deg=4)
    CpoR_low_fit = np.polyval(p_low, T_low)
    CpoR_high_fit = np.polyval(p_high, T_high)
    CpoR_fit = np.concatenate((CpoR_low_fit, CpoR_high_fit))
    mse = np.mean((CpoR_fit - CpoR)**2)
    return (mse, p_low, p_high)
# -------------------------------------------------------------------------------------------------------------


def same(x, y):
    x, y = np.asarray(x), np.asarray(y)
    return x.shape == y.shape and x.dtype == y.dtype and bool(np.all(x == y))


rng = np.random.default_rng(20260928)
models = []
for k in range(6):
    nv = int(rng.integers(1, 12))
    models.append(StatMech(name='ads%d' % k, potentialenergy=float(rng.uniform(-5, 0)),
                           vib_wavenumbers=list(rng.uniform(10., 4500., size=nv)), **presets['harmonic']))
n_cases = n_bad = 0
for case in range(240):
    T_lo = float(rng.uniform(100., 1500.))
    T_hi = float(rng.uniform(T_lo + 300., 3000.))
    n_T = int(rng.integers(15, 201))
    T = np.linspace(T_lo, T_hi, n_T)
    kind = case % 4
    if kind == 0:
        m = models[case % len(models)]
        CpoR = np.array([m.get_CpoR(T=T_i) for T_i in T])
    elif kind == 1:     # one random NASA-7 quartic
        a = np.append(rng.normal(size=5) * np.array([3., 1e-3, 1e-6, 1e-9, 1e-13]), [0., 0.])
        CpoR = np.array([get_nasa_CpoR(a, T_i) for T_i in T])
    elif kind == 2:
        CpoR = np.full(n_T, float(rng.uniform(1., 6.)))
    else:
        CpoR = np.zeros(n_T) if case % 8 == 3 else rng.uniform(2., 9., size=n_T)
    choice = (case // 4) % 4
    if choice == 0:
        T_mid = None
    elif choice == 1:
        T_mid = float(rng.uniform(T_lo, T_hi))
    elif choice == 2:
        T_mid = sorted(rng.uniform(T_lo, T_hi, size=int(rng.integers(2, 7))).tolist())
    else:               # candidates that coincide with data points, also next to the bounds
        T_mid = [float(T[i]) for i in sorted(set(rng.integers(0, n_T - 1, size=5).tolist()))]
    try:
        want = orig_fit_CpoR(T=T.copy(), CpoR=CpoR.copy(), T_mid=T_mid)
    except Exception as e:      # e.g. a candidate that leaves one side empty: both versions must fail alike
        want = type(e)
    try:
        got = N._fit_CpoR(T=T.copy(), CpoR=CpoR.copy(), T_mid=T_mid)
    except Exception as e:
        got = type(e)
    n_cases += 1
    ok = (want is got) if isinstance(want, type) or isinstance(got, type) else all(same(w, g) for w, g in zip(want, got))
    if ok and not isinstance(want, type) and choice != 3:
        # the whole public pipeline on the same data
        T_ref = float(rng.uniform(T_lo, T_hi))
        sp = Nasa.from_data(name='sp', T=T, CpoR=CpoR, T_ref=T_ref, HoRT_ref=-12.5, SoR_ref=21.25, T_mid=T_mid)
        a_lo, a_hi = want[0].copy(), want[1].copy()
        a_lo[5], a_hi[5] = N._fit_HoRT(T_ref=T_ref, HoRT_ref=-12.5, a_low=a_lo, a_high=a_hi, T_mid=want[2])
        a_lo[6], a_hi[6] = N._fit_SoR(T_ref=T_ref, SoR_ref=21.25, a_low=a_lo, a_high=a_hi, T_mid=want[2])
        ok = same(sp.a_low, a_lo) and same(sp.a_high, a_hi) and sp.T_mid == want[2] and \
            sp.T_low == min(T) and sp.T_high == max(T)
    if not ok:
        n_bad += 1
        print('DIFFERENT: case %d kind %d T_mid=%r' % (case, kind, T_mid))
print('%d cases compared with the original implementation, %d differ' % (n_cases, n_bad))
sys.exit(1 if n_bad else 0)
