"""C10_A4: the composition of the species is counted with numpy (the usual idiom for an atoms list:
dict(zip(*np.unique(symbols, return_counts=True)))), so the counts are numpy integers (np.int64), not Python ints.
Property: 'any target species composition', 'applying them to each reference species reproduces its experimental
enthalpy', 'adds to H and G of any species an energy that is linear in its composition'.
exit 1 / prints WRONG when the adjustment of a species is lost, exit 0 otherwise.  Tree taken from PYTHONPATH."""
import sys
import warnings
import numpy as np
from pmutt.empirical.references import Reference, References
from pmutt.statmech import StatMech, presets
from pmutt import constants as c

warnings.simplefilter('ignore')
T0 = 298.15
RT = c.R('J/mol/K') * T0


def count(symbols):
    """composition from a list of chemical symbols"""
    names, counts = np.unique(symbols, return_counts=True)
    return {str(k): n for k, n in zip(names, counts)}


data = {'H2': (['H', 'H'], -6.77, 0.), 'H2O': (['H', 'H', 'O'], -14.22, -241.8),
        'CH4': (['C', 'H', 'H', 'H', 'H'], -24.04, -74.6)}
ref_species = [Reference(name=k, elements=count(sym), T_ref=T0, HoRT_ref=H * 1000. / RT,
                         model=StatMech(potentialenergy=E, **presets['electronic'])) for k, (sym, E, H) in data.items()]
refs = References(references=ref_species)
print('offsets:', {k: round(float(v), 4) for k, v in refs.offset.items()},
      ' count type:', type(ref_species[0].elements['H']).__name__)
bad = 0
for r in ref_species:
    sp = StatMech(name=r.name, elements=r.elements, potentialenergy=data[r.name][1], references=refs,
                  **presets['electronic'])
    got = sp.get_HoRT(T=T0)
    direct = r.model.get_HoRT(T=T0) + refs.get_HoRT(descriptors=r.elements, T=T0)
    as_float = r.model.get_HoRT(T=T0) + refs.get_HoRT(descriptors={k: float(v) for k, v in r.elements.items()}, T=T0)
    ok = all(abs(x - r.HoRT_ref) < 1e-8 * max(1., abs(r.HoRT_ref)) for x in (got, direct, as_float))
    print('%-4s adjusted H/RT: through StatMech %12.5f, References.get_HoRT %12.5f, same counts as float %12.5f; '
          'experimental %12.5f   %s' % (r.name, got, direct, as_float, r.HoRT_ref, 'ok' if ok else 'WRONG'))
    bad += not ok
sys.exit(1 if bad else 0)
