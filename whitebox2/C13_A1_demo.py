"""C13_A1: a decorator on the coverage model's getters hides their signature from the keyword routing
(_pass_expected_arguments reads fn.__code__), so the species never hands x and T to the attached model.
Tree is taken from PYTHONPATH.  exit 1 / WRONG when the property is broken."""
import sys
import numpy as np
from pmutt.empirical.nasa import Nasa, Nasa9, SingleNasa9
from pmutt.empirical.shomate import Shomate
from pmutt.mixture.cov import PiecewiseCovEffect

A_LOW = [4.04618796e+00, -2.34746343e-03, 7.46806220e-06, -6.40166207e-09, 2.05109613e-12, -3.03156920e+04, 0.242]
A_HIGH = [2.41854323e+00, 3.35448922e-03, -9.66398101e-07, 1.34441829e-10, -7.18940063e-15, -2.97582484e+04, 8.37]
A9 = [2.210371497e+04, -3.818461820e+02, 6.082738360e+00, -8.530914410e-03, 1.384646189e-05, -9.625793620e-09,
      2.519705809e-12, 7.108460860e+02, -1.076003744e+01]
ASH = np.array([30.09200, 6.832514, 6.793435, -2.534480, 0.082139, -250.8810, 223.3967, -241.8264])


def cov():
    return PiecewiseCovEffect(name_i='H2O(S)', name_j='CO(S)', intervals=[0., 0.4], slopes=[-20., -35.])


def species(misc):
    return [Nasa(name='H2O(S)', phase='S', T_low=200., T_mid=1000., T_high=3500., a_low=A_LOW, a_high=A_HIGH,
                 misc_models=misc()),
            Nasa9(name='H2O(S)', phase='S', nasas=[SingleNasa9(T_low=200., T_high=1000., a=A9)], misc_models=misc()),
            Shomate(name='H2O(S)', phase='S', T_low=298., T_high=1700., a=ASH, misc_models=misc())]


bad = 0
for sp, bare in zip(species(lambda: [cov()]), species(lambda: None)):
    for T in (500., np.array([400., 500., 650.])):
        for x in (0.25, 0.7):
            got = np.atleast_1d(sp.get_HoRT(T=T, x=x))
            contrib = np.array([cov().get_HoRT(x=x, T=T_i) for T_i in np.atleast_1d(T)])
            want = np.atleast_1d(bare.get_HoRT(T=T)) + contrib
            ok = np.allclose(got, want, rtol=1e-10, atol=1e-12)
            print('%-8s T=%-18s x=%.2f  H/RT=%s  bare+model=%s  %s' % (type(sp).__name__, T, x, got, want,
                                                                      'ok' if ok else 'WRONG'))
            bad += not ok
            gG = np.atleast_1d(sp.get_GoRT(T=T, x=x))
            wG = np.atleast_1d(bare.get_GoRT(T=T)) + contrib
            if not np.allclose(gG, wG, rtol=1e-10, atol=1e-12):
                print('         G/RT=%s  bare+model=%s  WRONG' % (gG, wG))
                bad += 1
sys.exit(1 if bad else 0)
