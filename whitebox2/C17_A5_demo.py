"""C17_A5: insert a breakpoint equal to the first breakpoint (0)."""
import sys

from pmutt import constants as c
from pmutt.mixture.cov import PiecewiseCovEffect


def ref_insert(pairs, interval, slope):
    """reference: (breakpoint, slope) pairs ascending, a new pair goes after every breakpoint that is not larger"""
    k = len([p for p in pairs if p[0] <= interval])
    pairs.insert(k, (interval, slope))


def ref_energy(pairs, x):
    """the continuous piecewise-linear energy (kcal/mol): zero at zero coverage, slope pairs[k][1] from
    pairs[k][0] up to the next breakpoint"""
    u = 0.
    for k, (b, s) in enumerate(pairs):
        if x < b:
            break
        upper = pairs[k + 1][0] if k + 1 < len(pairs) else float('inf')
        u += s * (min(x, upper) - b)
    return u


def energy(model, x, T):
    """excess energy of the model in kcal/mol"""
    try:
        return model.get_UoRT(x=x, T=T) * c.R('kcal/mol/K') * T
    except Exception as e:
        return 'raises %s: %s' % (type(e).__name__, e)


bad = []


def expect(what, got, want, tol=1e-9):
    if isinstance(want, float):
        ok = isinstance(got, float) and abs(got - want) < tol
    else:
        ok = got == want
    print('%-5s %s: got %r, expected %r' % ('ok' if ok else 'WRONG', what, got, want))
    if not ok:
        bad.append(what)


pairs = [(0., 1.), (0.5, 3.)]
m = PiecewiseCovEffect('A', 'B', [0., 0.5], [1., 3.])
T = 300.
try:
    m.insert(0., 2.)
    outcome = 'accepted'
except Exception as e:
    outcome = 'raises %s: %s' % (type(e).__name__, e)
ref_insert(pairs, 0., 2.)
expect('insert(0., 2.) (equal to the existing breakpoint 0)', outcome, 'accepted')
expect('breakpoints after insert(0., 2.)', m.intervals, [p[0] for p in pairs])
expect('slopes after insert(0., 2.)', m.slopes, [p[1] for p in pairs])
for x in (0., 0.25, 0.5, 0.8):
    expect('U(%g) after insert(0., 2.)' % x, energy(m, x, T), ref_energy(pairs, x))
sys.exit(1 if bad else 0)
