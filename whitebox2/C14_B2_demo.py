"""C14_B2: _write_reaction_state inserts the optional blank as ' ' * bool(stoich_space) instead of an if/else with two
format templates - the same text for every value of stoich_space (True/False and any other truthy/falsy value).
Run with PYTHONPATH=<tree>; exit 0 on the original and on the refactored tree."""
import itertools
import random
import sys
import numpy as np
from pmutt.reaction import Reaction, ChemkinReaction, _write_reaction_state


def reference(species, stoich, species_delimiter='+', stoich_format='.2f', stoich_space=False, key='name'):
    # the original implementation (dcdf1e7), verbatim
    if species is None:
        return ''
    for i, (specie, stoich_val) in enumerate(zip(species, stoich)):
        specie_key = getattr(specie, key)
        if np.isclose(stoich_val, 1.):
            specie_str = '{}'.format(specie_key)
        else:
            if np.isclose(stoich_val, round(stoich_val)):
                stoich_val = int(round(stoich_val))
            else:
                stoich_val = '{:{format}}'.format(stoich_val, format=stoich_format)
            if stoich_space:
                specie_str = '{} {}'.format(stoich_val, specie_key)
            else:
                specie_str = '{}{}'.format(stoich_val, specie_key)
        if i == 0:
            reaction_str = specie_str
        else:
            reaction_str += '{}{}'.format(species_delimiter, specie_str)
    return reaction_str


class Sp:
    def __init__(self, name):
        self.name = name
        self.phase = 'G'
        self.formula = name.lower()


names = ['H2', 'O2', 'H2O', 'CH3OH(S)', '*', 'CO*', 'A(g)_shomate', 'H2O_TS', 'E1', 'Pt(S)']
sp = [Sp(n) for n in names]
rnd = random.Random(2)
coeffs = [1, 1., 2, 2., 0.5, 1.5, 0.25, 12.5, 10, 120, 1.995, 2.004, 0.996, 2 - 1e-13, 3 + 1e-13, 1 - 1e-14, 0.333,
          1000.004, 1e-9, 0, 7.0, np.float64(2.5), np.int64(3)]
spaces = [True, False, 1, 0, 2, None, 'yes', '', [], [0], np.bool_(True), np.bool_(False)]
n = bad = 0
for _ in range(4000):
    k = rnd.randint(1, 4)
    species = rnd.sample(sp, k)
    stoich = [rnd.choice(coeffs) for _ in range(k)]
    kw = {'species_delimiter': rnd.choice(['+', ' + ', '.', ' & ', '<>']), 'stoich_format': rnd.choice(['.2f', '.3f', '.1f', 'g', '.4e']),
          'stoich_space': rnd.choice(spaces), 'key': rnd.choice(['name', 'name', 'formula'])}
    got, want = _write_reaction_state(species, stoich, **kw), reference(species, stoich, **kw)
    n += 1
    if got != want or type(got) is not type(want):
        print('DIFFERENT: %r %r %r -> %r, original %r' % ([s.name for s in species], stoich, kw, got, want))
        bad += 1
assert _write_reaction_state(None, None) == reference(None, None) == ''
# through the public printers
for cls, space, fmt in itertools.product((Reaction, ChemkinReaction), spaces[:6], ('.2f', '.3f')):
    rxn = cls(reactants=sp[:2], reactants_stoich=[1, 0.5], products=[sp[2]], products_stoich=[2.],
              transition_state=[sp[7]], transition_state_stoich=[1])
    got = rxn.to_string(stoich_space=space, stoich_format=fmt, species_delimiter=' + ', reaction_delimiter=' <=> ')
    want = ' <=> '.join(reference(a, b, ' + ', fmt, space) for a, b in (
        (rxn.reactants, rxn.reactants_stoich), (rxn.transition_state, rxn.transition_state_stoich),
        (rxn.products, rxn.products_stoich)))
    n += 1
    if got != want:
        print('DIFFERENT: %s.to_string(stoich_space=%r) -> %r, original %r' % (cls.__name__, space, got, want))
        bad += 1
print('%d printed states compared, %d differences' % (n, bad))
sys.exit(1 if bad else 0)
