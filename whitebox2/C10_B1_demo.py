"""C10_B1: equivalence demonstration.  Runs the reference fit / application of the tree on PYTHONPATH over a spread
of inputs (1-8 reference species over 1-5 descriptors, full-rank and rank-deficient, described by elements or by a
'groups' dictionary, equal and slightly different reference temperatures, append/extend + refit histories, target
species with descriptors the references do not know, several temperatures, through References and through StatMech
with use_references on/off, warnings included) and compares a digest of every result - bit for bit (float.hex) - with
the digest recorded on the unchanged tree dcdf1e7.  It also checks the property itself (unique fits reproduce the
experiment).  exit 0 = identical to the unchanged tree, exit 1 otherwise.  `--print` shows the digest."""
import hashlib
import sys
import warnings
import numpy as np
from pmutt.empirical.references import Reference, References
from pmutt.statmech import StatMech, presets
from pmutt import constants as c

EXPECTED = '990181280818d9eacdd8ff6af139fdc975141d8d7ef52cda19d7c7239cd870c6'
out = []


def rec(tag, v):
    if isinstance(v, dict):
        v = [(k, float(x).hex()) for k, x in v.items()]          # key order is part of the behaviour
    elif isinstance(v, (float, np.floating, int, np.integer)):
        v = float(v).hex()
    elif isinstance(v, (tuple, list, np.ndarray)):
        v = [float(x).hex() if not isinstance(x, str) else x for x in np.ravel(np.asarray(v, dtype=object))]
    out.append('%s=%r' % (tag, v))


def species(rng, names, dname, T_ref, k):
    n = {d: float(rng.integers(0, 7)) for d in names if rng.random() < 0.75}
    if not n:
        n = {names[0]: 1.}
    if rng.random() < 0.3:
        n = {d: v + 0.5 for d, v in n.items()}                    # fractional counts
    sm = StatMech(potentialenergy=float(rng.uniform(-60, -5)), **presets['electronic'])
    r = Reference(name='s%d' % k, model=sm, T_ref=T_ref, HoRT_ref=float(rng.uniform(-150, 30)))
    if dname == 'elements':
        r.elements = n
    else:
        r.elements = {'X': 1}
        r.groups = n
    return r


bad = 0
rng = np.random.default_rng(20260928)
pool = ['C', 'H', 'O', 'N', 'Pt']
for case in range(60):
    dname = 'elements' if case % 3 else 'groups'
    nd = int(rng.integers(1, 6))
    ns = int(rng.integers(1, 9))
    names = list(rng.permutation(pool)[:nd])
    vary_T = case % 4 == 0
    T0 = float(rng.choice([298.15, 300., 273.15]))
    sp = [species(rng, names, dname, T0 + (0.01 * (k % 2) if vary_T else 0.), k) for k in range(ns)]
    if case % 5 == 0 and ns > 1:                                  # rank-deficient: a species listed twice as a copy
        sp[-1] = species(rng, names, dname, sp[0].T_ref, ns - 1)
        setattr(sp[-1], dname, dict(getattr(sp[0], dname)))
    n0 = max(1, ns // 2)
    with warnings.catch_warnings(record=True) as w:
        warnings.simplefilter('always')
        kw = {} if dname == 'elements' else {'descriptor': dname}
        refs = References(references=list(sp[:n0]), **kw)
        stages = [('init', n0)]
        if n0 < ns:
            refs.append(sp[n0])
            refs.fit_HoRT_offset()
            stages.append(('append', n0 + 1))
        if n0 + 1 < ns:
            refs.extend(sp[n0 + 1:])
            refs.fit_HoRT_offset()
            stages.append(('extend', ns))
        rec('case%d.descriptors' % case, list(refs.get_descriptors()))
        rec('case%d.matrix' % case, refs.get_descriptors_matrix())
        rec('case%d.offset' % case, refs.offset)
        rec('case%d.T_ref' % case, refs.T_ref)
        M = refs.get_descriptors_matrix()
        unique = np.linalg.matrix_rank(M) == M.shape[1] and M.shape[0] == M.shape[1]
        for r in sp:
            comp = dict(getattr(r, dname))
            comp['Zz'] = 2.                                        # a descriptor the references do not know
            for T in (None, r.T_ref, 250., 1000.):
                kw2 = {} if T is None else {'T': T}
                rec('H', refs.get_HoRT(descriptors=comp, **kw2))
            rec('G', refs.get_GoRT(descriptors=comp, T=500.))
            rec('zero', [refs.get_SoR(), refs.get_CpoR(), refs.get_CvoR(), refs.get_UoRT()])
            adj = r.model.get_HoRT(T=r.T_ref) + refs.get_HoRT(descriptors=getattr(r, dname), T=r.T_ref)
            rec('adj', adj)
            if unique and not vary_T and np.linalg.cond(M) < 1e6 and abs(adj - r.HoRT_ref) > 1e-6:
                print('case', case, 'reference not reproduced', adj, r.HoRT_ref)
                bad += 1
            s = StatMech(name=r.name, potentialenergy=-10., references=refs, **presets['electronic'])
            s.elements = r.elements
            if dname != 'elements':
                s.groups = r.groups
            for q, kq in (('get_HoRT', {}), ('get_GoRT', {}), ('get_H', {'units': 'kJ/mol'}),
                          ('get_G', {'units': 'eV'}), ('get_SoR', {}), ('get_CpoR', {}), ('get_Cv', {'units': 'J/mol/K'})):
                for use in (True, False):
                    rec(q, getattr(s, q)(T=600., use_references=use, **kq))
            rec('kw', s.get_HoRT(T=600., **{r.name + '_kwargs': {'T': 450.}}))
    rec('case%d.warnings' % case, sorted((x.category.__name__ + ':' + str(x.message)) for x in w))
    rec('case%d.json' % case, sorted((k, repr(v) if k != 'references' else len(v)) for k, v in refs.to_dict().items()))

digest = hashlib.sha256('\n'.join(out).encode()).hexdigest()
if '--print' in sys.argv:
    print(digest, len(out))
    sys.exit(0)
print('results recorded: %d   digest %s   %s' % (len(out), digest[:16], 'identical to the unchanged tree'
                                                 if digest == EXPECTED else 'DIFFERENT from the unchanged tree'))
sys.exit(0 if digest == EXPECTED and not bad else 1)
