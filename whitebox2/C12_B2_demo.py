"""C12_B2: the two 'Hartree per particle' rows of unit_dict are no longer written out but computed, inside
convert_unit, from the Hartree rows and Na (the same division the literal rows spelled out).  Every conversion returns
bit-for-bit what it returned before.  Takes the tree from PYTHONPATH and compares with the factors as written at
dcdf1e7; exit 0 on both trees, exit 1 on any difference.  (Cross-tree check of everything C12 observes:
C12_B_dump.py prints the same digest for both trees.)"""
import sys
import numpy as np
from pmutt.constants import convert_unit, type_dict

F = {   # the energy/amount rows of unit_dict as written at dcdf1e7
    'J/mol': 1., 'kJ/mol': 1.e-3, 'cal/mol': 0.239006, 'kcal/mol': 0.000239006,
    'eV/molecule': 6.242e+18 / 6.02214086e23,
    'Eh/molecule': 2.2937122783963248e+17 / 6.02214086e23,
    'Ha/molecule': 2.2937122783963248e+17 / 6.02214086e23,
    'eV/particle': 6.242e+18 / 6.02214086e23,
    'Eh/particle': 2.2937122783963248e+17 / 6.02214086e23,
    'Ha/particle': 2.2937122783963248e+17 / 6.02214086e23,
}
assert sorted(F) == sorted(u for u, t in type_dict.items() if t == 'energy/amount')
rng = np.random.default_rng(12)
nums = [1., 0., -2.5, 7, 1e-23, 6.02e23] + list(10. ** rng.uniform(-30, 30, 40)) + \
    [np.array([1., 2.5, -3.]), np.array([300, 400]), rng.uniform(-10., 10., (2, 3))]
bad = n = 0
for a in F:
    for b in F:
        got = convert_unit(initial=a, final=b)
        n += 1
        if not (type(got) is float and got == 1. * F[b] / F[a]):
            bad += 1
            print('DIFFERENT factor %s -> %s: %r vs %r' % (a, b, got, 1. * F[b] / F[a]))
        for x in nums:
            arg = x.copy() if isinstance(x, np.ndarray) else x
            got, want = convert_unit(arg, a, b), x * F[b] / F[a]
            n += 1
            same = (got.dtype == want.dtype and np.array_equal(got, want) and np.array_equal(arg, x)) \
                if isinstance(x, np.ndarray) else (type(got) is type(want) and got == want)
            if not same:
                bad += 1
                print('DIFFERENT convert_unit(%r, %r, %r): %r vs %r' % (x, a, b, got, want))
    for other in ('J', 'eV', 'Eh', 'mol', 'K', 'm'):         # different quantity types stay refused
        for pair in ((a, other), (other, a)):
            n += 1
            try:
                convert_unit(1., *pair)
            except ValueError:
                pass
            else:
                bad += 1
                print('DIFFERENT: %s -> %s not refused' % pair)
print('%d comparisons, %d differences' % (n, bad))
sys.exit(1 if bad else 0)
