"""C09 / A1: the pre-exponential factor of a Chemkin / OpenMKM surface reaction in the REVERSE direction.
get_A(rev=True) must be built on the entropy (partition function) of activation of the reverse direction:
A_rev = (kB/h) exp(dS_act(rev)/R) / (site density)^(n_surf-1).  Exit 1 / WRONG when it returns the forward factor."""
import sys
import numpy as np
from pmutt import constants as c
from pmutt.empirical.nasa import Nasa
from pmutt.chemkin import CatSite
from pmutt.reaction import ChemkinReaction
from pmutt.omkm.reaction import SurfaceReaction
from pmutt.omkm.phase import InteractingInterface, IdealGas


def nasa(name, H, S, phase='G', cat_site=None, cp=3.5):
    a = np.array([cp, 0., 0., 0., 0., H, S])
    return Nasa(name=name, T_low=100., T_mid=1000., T_high=3000., a_low=a, a_high=a, phase=phase, cat_site=cat_site)


T = 500.
kbh = c.kb('J/K') / c.h('J s')
bad = []

# --- Chemkin ---------------------------------------------------------------------------------------------------
site = CatSite(name='RU(S)', site_density=2.5e-9, density=12.1, bulk_specie='RU(B)')
sp = {'H2': nasa('H2', 0., 10.),
      'RU(S)': nasa('RU(S)', 0., 0., 'S', site, cp=0.),
      'H(S)': nasa('H(S)', -3000., 1., 'S', site, cp=1.),
      'TS(S)': nasa('TS(S)', 2000., 6., 'S', site, cp=2.5)}
rxn = ChemkinReaction.from_string('H2 + 2RU(S) = TS(S) + RU(S) = 2H(S)', sp)
for rev in (False, True):
    dS = rxn.get_delta_SoR(T=T, rev=rev, act=True)
    want = kbh * np.exp(dS) / (2 * 2.5e-9)**(rxn._get_n_surf() - 1)
    got = rxn.get_A(T=T, rev=rev, use_q=False)
    print('ChemkinReaction.get_A(rev=%s, use_q=False) = %.6e   expected (kB/h) exp(dS_act(rev=%s)) / sden^(n-1) = %.6e'
          % (rev, got, rev, want))
    if not np.isclose(got, want, rtol=1e-9):
        bad.append('ChemkinReaction rev=%s' % rev)

# --- OpenMKM ---------------------------------------------------------------------------------------------------
so = {'H2': nasa('H2', 0., 10.), 'RU(S)': nasa('RU(S)', 0., 0., cp=0.), 'H(S)': nasa('H(S)', -3000., 1., cp=1.),
      'TS(S)': nasa('TS(S)', 2000., 6., cp=2.5)}
IdealGas(name='gas', species=[so['H2']])
InteractingInterface(name='ru', species=[so['RU(S)'], so['H(S)'], so['TS(S)']], site_density=2.5e-9)
rxo = SurfaceReaction.from_string('H2 + 2RU(S) = TS(S) + RU(S) = 2H(S)', so)
for rev in (False, True):
    dS = rxo.get_delta_SoR(T=T, rev=rev, act=True)
    want = kbh * np.exp(dS) / (2 * 2.5e-9 * c.Na)**(rxo._get_n_surf() - 1)
    got = rxo.get_A(T=T, rev=rev, use_q=False)
    print('SurfaceReaction.get_A(rev=%s, use_q=False) = %.6e   expected %.6e' % (rev, got, want))
    if not np.isclose(got, want, rtol=1e-9):
        bad.append('SurfaceReaction rev=%s' % rev)

if bad:
    print('WRONG: get_A does not use the entropy of activation of the requested direction: %s' % ', '.join(bad))
    sys.exit(1)
print('ok')
