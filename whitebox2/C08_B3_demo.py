"""C08 B3 (equivalence): Reaction.get_state_quantity collects the species values first and combines them with
map(operator.mul / operator.pow, values, stoich) - the same products and powers, accumulated in the same order.
The tree's results are compared bit for bit with a verbatim copy of the original loop (states, changes, Keq; StatMech
and Nasa species, fractional coefficients, several T/P, species blocks).  Exit 0 on both trees.
"""
import itertools
import sys
import numpy as np
from ase.build import molecule
from pmutt import _force_pass_arguments, _get_specie_kwargs
from pmutt.empirical.nasa import Nasa
from pmutt.reaction.bep import BEP
from pmutt.statmech import StatMech, presets
from pmutt.reaction import Reaction
from pmutt.omkm.reaction import SurfaceReaction


def original(self, state, method_name, **kwargs):
    species, stoich = self._parse_state(state=state)
    if method_name == 'get_q':
        state_quantity = 1.
    else:
        state_quantity = 0.
    for specie, coeff in zip(species, stoich):
        specie_kwargs = _get_specie_kwargs(specie.name, **kwargs)
        if isinstance(specie, BEP):
            specie_kwargs['reaction'] = self
        method = getattr(specie, method_name)
        if method_name == 'get_q':
            state_quantity *= _force_pass_arguments(method, **specie_kwargs)**coeff
        else:
            state_quantity += _force_pass_arguments(method, **specie_kwargs)*coeff
    return state_quantity


ig = presets['idealgas']
H2O = StatMech(name='H2O', atoms=molecule('H2O'), symmetrynumber=2, vib_wavenumbers=[3825.434, 3710.2642, 1582.432],
               potentialenergy=-6.7598, spin=0., **ig)
H2 = StatMech(name='H2', atoms=molecule('H2'), symmetrynumber=2, vib_wavenumbers=[4306.1793],
              potentialenergy=-14.2209, spin=0., **ig)
O2 = StatMech(name='O2', atoms=molecule('O2'), symmetrynumber=2, vib_wavenumbers=[2205.], potentialenergy=-9.862407,
              spin=1., **ig)
TS = StatMech(name='H2O_TS', atoms=molecule('H2O'), symmetrynumber=1., vib_wavenumbers=[4000., 3900., 1600.],
              potentialenergy=-5.7598, spin=0., **ig)
TS2 = StatMech(name='X_TS', atoms=molecule('H2'), symmetrynumber=1., vib_wavenumbers=[3000.],
               potentialenergy=-13.1, spin=0., **ig)


def nasa(name, a):
    return Nasa(name=name, T_low=200., T_mid=1000., T_high=3500., elements={'H': 2}, phase='G', a_low=a, a_high=a)
nH2 = nasa('nH2', [2.34433112E+00, 7.98052075E-03, -1.94781510E-05, 2.01572094E-08, -7.37611761E-12, -9.17935173E+02, 6.83010238E-01])
nO2 = nasa('nO2', [3.78245636E+00, -2.99673416E-03, 9.84730201E-06, -9.68129509E-09, 3.24372837E-12, -1.06394356E+03, 3.65767573E+00])
nH2O = nasa('nH2O', [4.19864056E+00, -2.03643410E-03, 6.52040211E-06, -5.48797062E-09, 1.77197817E-12, -3.02937267E+04, -8.49032208E-01])

cases = [
    (dict(reactants=[H2, O2], reactants_stoich=[1., 0.5], products=[H2O], products_stoich=[1.],
          transition_state=[TS], transition_state_stoich=[1.]),
     ('q', 'CvoR', 'CpoR', 'UoRT', 'HoRT', 'SoR', 'FoRT', 'GoRT', 'EoRT')),
    (dict(reactants=[H2, O2, H2O, TS], reactants_stoich=[2, 0.25, 3.5, 4], products=[H2O, H2], products_stoich=(0.75, 1.25),
          transition_state=[TS, TS2], transition_state_stoich=np.array([1., 0.5])),
     ('q', 'CvoR', 'CpoR', 'UoRT', 'HoRT', 'SoR', 'FoRT', 'GoRT', 'EoRT')),
    (dict(reactants=[nH2, nO2], reactants_stoich=[1., 0.5], products=[nH2O, H2O], products_stoich=[0.5, 0.5],
          transition_state=TS, transition_state_stoich=1.5),
     ('CpoR', 'HoRT', 'SoR', 'GoRT')),
]
conds = [dict(T=300., P=1.), dict(T=650., P=7.), dict(T=500.), dict(T=500., P=2., H2O_kwargs={'T': 450., 'P': 3.}),
         dict(H2_kwargs={'P': 0.5}, T=900., O2_kwargs={'P': 0.1}, nH2_kwargs={'T': 400.}, H2O_TS_kwargs={'T': 333.})]
bad = n = 0
for cls in (Reaction, SurfaceReaction):
    for ctor, quantities in cases:
        rxn = cls(**ctor)
        for kw, X in itertools.product(conds, quantities):
            m = 'get_' + X
            ref = {}
            for st in ('reactants', 'products', 'transition state', 'TS'):
                ref[st] = original(rxn, st, m, **kw)
                got = getattr(rxn, 'get_%s_state' % X)(state=st, **kw)
                n += 1
                if not (got == ref[st] and type(got) is type(ref[st])):
                    bad += 1
                    print('DIFFERENT %s.get_%s_state(%r, %r): %r vs %r' % (cls.__name__, X, st, kw, got, ref[st]))
            for rev, act in itertools.product((False, True), repeat=2):
                i = ref['products' if rev else 'reactants']
                f = ref['TS'] if act else ref['reactants' if rev else 'products']
                want = f / i if X == 'q' else f - i
                got = getattr(rxn, 'get_delta_' + X)(rev=rev, act=act, **kw)
                n += 1
                if got != want:
                    bad += 1
                    print('DIFFERENT %s.get_delta_%s(rev=%r, act=%r, %r): %r vs %r' % (cls.__name__, X, rev, act, kw, got, want))
            if X == 'GoRT':
                n += 1
                if rxn.get_Keq(**kw) != np.exp(-(ref['products'] - ref['reactants'])):
                    bad += 1
                    print('DIFFERENT Keq', kw)
print('%d comparisons, %d differences' % (n, bad))
sys.exit(1 if bad else 0)
