"""C10_A5: as many reference species as descriptors, but the composition matrix is rank-deficient
(C2H4 and C3H6 are both (CH2)n; methanol, ethylene glycol and glycerol are CH4O + k*CH2O).
Property: 'with full-rank and rank-deficient composition matrices', '... and otherwise leaves a least-squares residual
orthogonal to the composition matrix'.
exit 1 / prints WRONG when the fit fails or the residual is not orthogonal to the composition matrix, exit 0 otherwise."""
import sys
import warnings
import numpy as np
from pmutt.empirical.references import Reference, References
from pmutt.statmech import StatMech, presets
from pmutt import constants as c

warnings.simplefilter('ignore')
T0 = 298.15
RT = c.R('J/mol/K') * T0


def ref(name, el, E, H):
    return Reference(name=name, elements=el, T_ref=T0, HoRT_ref=H * 1000. / RT,
                     model=StatMech(potentialenergy=E, **presets['electronic']))


sets = {
    'C2H4|C3H6 (2 species x 2 elements, rank 1)': [ref('C2H4', {'C': 2, 'H': 4}, -31.96, 52.4),
                                                    ref('C3H6', {'C': 3, 'H': 6}, -48.42, 20.0)],
    'CH3OH|C2H4(OH)2|C3H5(OH)3 (3 species x 3 elements, rank 2)': [
        ref('CH4O', {'C': 1, 'H': 4, 'O': 1}, -30.25, -201.0),
        ref('C2H6O2', {'C': 2, 'H': 6, 'O': 2}, -53.60, -392.2),
        ref('C3H8O3', {'C': 3, 'H': 8, 'O': 3}, -76.90, -577.9)],
}
bad = 0
for label, species in sets.items():
    try:
        refs = References(references=species)
    except Exception as e:              # noqa
        print('%s: fit failed with %s: %s   WRONG' % (label, type(e).__name__, e))
        bad += 1
        continue
    M = refs.get_descriptors_matrix()
    resid = np.array([sp.model.get_HoRT(T=T0) + refs.get_HoRT(descriptors=sp.elements, T=T0) - sp.HoRT_ref
                      for sp in species])
    orth = np.abs(M.T @ resid).max()
    ok = orth < 1e-7 * max(1., np.abs(resid).max()) * np.abs(M).max()
    print('%s: rank %d, offsets %s, residual %s, |M^T r| = %.2e   %s'
          % (label, np.linalg.matrix_rank(M), {k: round(float(v), 3) for k, v in refs.offset.items()},
             np.round(resid, 4), orth, 'ok' if ok else 'WRONG'))
    bad += not ok
sys.exit(1 if bad else 0)
