"""C15_A5: list.name(.i) columns whose name ends in a digit (list.T2, list.coverages_CO2). All cells of the
columns list.<name>, list.<name>.1, ... must be collected, in column order, under the key <name>.
Tree is taken from PYTHONPATH."""
import os
import sys
import tempfile
import warnings

import openpyxl

warnings.filterwarnings('ignore')
from pmutt.io.excel import read_excel

wb = openpyxl.Workbook()
ws = wb.active
ws.title = 'lsr'
# openpyxl writes the header cells as given; pandas numbers the repeated ones: list.T2, list.T2.1, list.T2.2
ws.append(['name', 'list.T2', 'list.T2', 'list.T2', 'list.sites', 'list.sites', 'list.coverages_CO2'])
ws.append(['comment row', None, None, None, None, None, None])
ws.append(['CO2(S)', 300.5, 400.5, 500.5, ' fcc ', 'hcp', 0.25])
ws.append(['CO(S)', 350.5, None, 550.5, 'top', None, None])
path = os.path.join(tempfile.mkdtemp(), 'book.xlsx')
wb.save(path)

out = read_excel(path, sheet_name='lsr')
want = [{'name': 'CO2(S)', 'T2': [300.5, 400.5, 500.5], 'sites': ['fcc', 'hcp'], 'coverages_CO2': [0.25]},
        {'name': 'CO(S)', 'T2': [350.5, 550.5], 'sites': ['top']}]
bad = 0
if len(out) != len(want):
    print('WRONG: %d records for %d rows' % (len(out), len(want)))
    bad = 1
for i, (got, exp) in enumerate(zip(out, want)):
    ok = got == exp
    print('%s row %d: got %s' % ('ok   ' if ok else 'WRONG', i + 1, got))
    if not ok:
        print('            expected %s' % exp)
        bad = 1
sys.exit(bad)
