"""C06 A2: gas.inp / surf.inp written by pMuTT and read back with pmutt.io.chemkin.read_reactions must give the species
and coefficients of the model - also for species whose names contain digits (H2, O2, H2O, CH3(S), ...).
Run: cd <tree> && PYTHONPATH=<tree> python C06_A2_demo.py   (exit 0 = right, exit 1 = WRONG)"""
import os
import sys
import tempfile
from pmutt.empirical.nasa import Nasa
from pmutt.chemkin import CatSite
from pmutt.reaction import ChemkinReaction, Reactions
from pmutt.io import chemkin as ck


def nasa(name, phase, elements, h, s, cat_site=None, n_sites=None):
    a = [4., 0., 0., 0., 0., h, s]
    return Nasa(name=name, T_low=200., T_mid=1000., T_high=3000., a_low=a, a_high=a, phase=phase,
                elements=elements, cat_site=cat_site, n_sites=n_sites)


site = CatSite(name='PT_TERRACE', site_density=2.1671e-09, density=21.45, bulk_specie='PT(B)')
sp = {s.name: s for s in [
    nasa('H2', 'G', {'H': 2}, -1000., 10.), nasa('O2', 'G', {'O': 2}, -900., 12.),
    nasa('H2O', 'G', {'H': 2, 'O': 1}, -30000., 11.),
    nasa('H(S)', 'S', {'H': 1, 'PT': 1}, -4000., 1., site, 1),
    nasa('CH3(S)', 'S', {'C': 1, 'H': 3, 'PT': 1}, -9000., 2., site, 1),
    nasa('CH2(S)', 'S', {'C': 1, 'H': 2, 'PT': 1}, -7000., 1.8, site, 1),
    nasa('PT(S)', 'S', {'PT': 1}, 0., 0., site, 1),
    nasa('TS2', 'G', {'O': 1, 'H': 4}, 5000., 30.)]}
rx = [ChemkinReaction(reactants=[sp['H2'], sp['O2']], reactants_stoich=[2, 1], products=[sp['H2O']],
                      products_stoich=[2], transition_state=[sp['TS2']], transition_state_stoich=[1]),
      ChemkinReaction(reactants=[sp['H2'], sp['PT(S)']], reactants_stoich=[1, 2], products=[sp['H(S)']],
                      products_stoich=[2], is_adsorption=True, sticking_coeff=0.3, beta=0.),
      ChemkinReaction(reactants=[sp['CH3(S)'], sp['PT(S)']], reactants_stoich=[1, 1],
                      products=[sp['CH2(S)'], sp['H(S)']], products_stoich=[1, 1])]
rset = Reactions(rx)
d = tempfile.mkdtemp()
gas, surf = os.path.join(d, 'gas.inp'), os.path.join(d, 'surf.inp')
ck.write_gas(nasa_species=list(sp.values()), reactions=rset, filename=gas, T=500., P=1., act_method_name='get_G_act')
ck.write_surf(reactions=rset, filename=surf, T=500., P=1., act_method_name='get_G_act')
bad = False
for fname, rxns in ((gas, [r for r in rx if r.gas_phase]), (surf, [r for r in rx if not r.gas_phase])):
    eqs, reac, rst, prod, pst = ck.read_reactions(fname)
    for i, r in enumerate(rxns):
        want = ([s.name for s in r.reactants], [int(x) for x in r.reactants_stoich],
                [s.name for s in r.products], [int(x) for x in r.products_stoich])
        got = (reac[i], rst[i], prod[i], pst[i])
        flag = 'ok' if got == want else 'WRONG'
        bad = bad or got != want
        print('%-9s %-28s read back %s  model %s  %s' % (os.path.basename(fname), eqs[i], got, want, flag))
if bad:
    print('WRONG')
    sys.exit(1)
print('right')
