"""C04_B2: pmutt.constants.R with its table hoisted out of the function body.  Every key, unknown keys, the error text,
independence of calls (the table is not handed out), and a spread of dimensional getters.  Run with PYTHONPATH=<tree>;
exit 0 on the pristine and on the refactored tree, same digest on both."""
import sys
import hashlib
import numpy as np
from pmutt import constants as c
from pmutt.statmech import StatMech, presets
from pmutt.empirical.nasa import Nasa

EXPECTED = {'J/mol/K': 8.3144598, 'kJ/mol/K': 8.3144598e-3, 'L kPa/mol/K': 8.3144598, 'cm3 kPa/mol/K': 8.3144598e3,
            'm3 Pa/mol/K': 8.3144598, 'cm3 MPa/mol/K': 8.3144598, 'm3 bar/mol/K': 8.3144598e-5,
            'L bar/mol/K': 8.3144598e-2, 'L torr/mol/K': 62.363577, 'cal/mol/K': 1.9872036,
            'kcal/mol/K': 1.9872036e-3, 'L atm/mol/K': 0.082057338, 'cm3 atm/mol/K': 82.057338,
            'eV/K': 8.6173303e-5, 'Eh/K': 3.1668105e-06, 'Ha/K': 3.1668105e-06}
bad = 0
digest = hashlib.sha256()
for k, v in EXPECTED.items():
    for _ in range(2):
        got = c.R(k)
        if got != v or type(got) is not float:
            bad += 1
            print('DIFFERENT', k, got, v)
        digest.update(repr(got).encode())
for k in ('J/mol', 'j/mol/K', '', None, 'J/g/K', 3):
    try:
        c.R(k)
        bad += 1
        print('no error for', k)
    except KeyError as e:
        want = ('Invalid unit for R: {}. Use help(pmutt.constants.R) for accepted units.'.format(k))
        if e.args != (want,):
            bad += 1
            print('DIFFERENT message', e.args)
        digest.update(repr(e.args).encode())
    except TypeError as e:          # unhashable ... none of the above is, kept for completeness
        digest.update(b'TypeError')
a = np.array([3.5, 1.e-3, 0., 0., 0., -3.0e4, 2.])
sp = Nasa(name='H2O', elements={'H': 2, 'O': 1}, a_low=a, a_high=a, T_low=200., T_mid=1000., T_high=3000., phase='G')
sm = StatMech(name='H2O*', elements={'H': 2, 'O': 1}, potentialenergy=-1., vib_wavenumbers=[3800., 3650., 1600.],
              **presets['harmonic'])
for k, v in EXPECTED.items():
    for T in (300., 999.):
        for got, want in ((sp.get_Cp(T=T, units=k), sp.get_CpoR(T=T) * v),
                          (sp.get_G(T=T, units=k[:-2], P=3.), sp.get_GoRT(T=T, P=3.) * T * v),
                          (sm.get_S(T=T, units=k), sm.get_SoR(T=T) * v),
                          (sm.get_H(T=T, units=k[:-2]), sm.get_HoRT(T=T) * T * v)):
            if got != want:
                bad += 1
                print('DIFFERENT', k, T, got, want)
            digest.update(np.float64(got).tobytes())
print('%d different, digest %s' % (bad, digest.hexdigest()[:16]))
sys.exit(1 if bad else 0)
