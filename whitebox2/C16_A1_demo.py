"""C16 A1: the non-convergence warning is issued only for the first failing call of an Equilibrium object.
Exit 1 / 'WRONG' when a composition that does not conserve the atoms of the feed is returned without warning or
exception; exit 0 otherwise. The tree is taken from PYTHONPATH."""
import os
import sys
import warnings
import numpy as np
import pmutt
from pmutt.io.thermdat import read_thermdat
from pmutt.equilibrium import Equilibrium

TD = os.path.join(os.path.dirname(pmutt.__file__), 'tests', 'equilibrium', 'thermdat_equilibrium_unittest.txt')
model = read_thermdat(TD, 'dict')
# 3 gas species over 3 elements (C, H, O), the feed contains every element
network = {'CH2CHCH3': 1.0, 'CH2CH2': 0.0, 'H2O': 2.0}
eq = Equilibrium(model, network)
feed_atoms = dict(zip(eq.elements, eq.ele_feed))
wrong = False
for T, P in ((500., 1.), (700., 1.), (1000., 10.)):
    signalled = False
    with warnings.catch_warnings(record=True) as rec:
        warnings.simplefilter('always')
        try:
            r = eq.get_net_comp(T=T, P=P)
        except Exception as e:          # an exception is a signal too
            print('T=%g P=%g: exception %r' % (T, P, e))
            continue
    msgs = [str(w.message) for w in rec if 'converge' in str(w.message)]
    signalled = bool(msgs)
    atoms = dict(zip(eq.elements, np.asarray(r.moles).dot(eq.mol_elem)))
    err = max(abs(atoms[e] - feed_atoms[e])/feed_atoms[e] for e in feed_atoms)
    print('T=%g P=%g: moles=%s atoms=%s feed atoms=%s  signalled=%s' % (
        T, P, np.round(r.moles, 6), {str(k): round(float(v), 6) for k, v in atoms.items()},
        {str(k): round(float(v), 6) for k, v in feed_atoms.items()}, signalled))
    if err > 1e-6 and not signalled:
        print('  WRONG: atoms of the feed are not conserved (rel. error %.2g) and nothing was signalled' % err)
        wrong = True
sys.exit(1 if wrong else 0)
