"""C08 A1: a side of the reaction re-assigned through its public setter after a first evaluation.

H2 + 0.5 O2 = H2O [TS H2O_TS], StatMech species of the test-suite.  The user evaluates the reaction once, then writes
the same reaction for two moles of water (rxn.reactants_stoich = [2, 1]; rxn.products_stoich = [2];
rxn.transition_state_stoich = [2]) and evaluates it again.  Every state value / change must be the
stoichiometry-weighted sum with the coefficients the reaction object shows.
"""
import sys
import numpy as np
from ase.build import molecule
from pmutt.statmech import StatMech, presets
from pmutt.reaction import Reaction
from pmutt.omkm.reaction import SurfaceReaction

ig = presets['idealgas']
H2O = StatMech(name='H2O', atoms=molecule('H2O'), symmetrynumber=2, vib_wavenumbers=[3825.434, 3710.2642, 1582.432],
               potentialenergy=-6.7598, spin=0., **ig)
H2 = StatMech(name='H2', atoms=molecule('H2'), symmetrynumber=2, vib_wavenumbers=[4306.1793],
              potentialenergy=-14.2209, spin=0., **ig)
O2 = StatMech(name='O2', atoms=molecule('O2'), symmetrynumber=2, vib_wavenumbers=[2205.], potentialenergy=-9.862407,
              spin=1., **ig)
TS = StatMech(name='H2O_TS', atoms=molecule('H2O'), symmetrynumber=1., vib_wavenumbers=[4000., 3900., 1600.],
              potentialenergy=-5.7598, spin=0., **ig)

T, P = 500., 2.
bad = 0
for cls in (Reaction, SurfaceReaction):
    rxn = cls(reactants=[H2, O2], reactants_stoich=[1., 0.5], products=[H2O], products_stoich=[1.],
              transition_state=[TS], transition_state_stoich=[1.])
    first = rxn.get_delta_GoRT(T=T, P=P)
    # the same reaction written for two moles of water
    rxn.reactants_stoich = [2., 1.]
    rxn.products_stoich = [2.]
    rxn.transition_state_stoich = [2.]

    def ssum(species, stoich, meth):
        return sum(nu * getattr(sp, meth)(T=T, P=P) for sp, nu in zip(species, stoich))
    for meth in ('get_HoRT', 'get_GoRT', 'get_SoR', 'get_CpoR'):
        r = ssum(rxn.reactants, rxn.reactants_stoich, meth)
        p = ssum(rxn.products, rxn.products_stoich, meth)
        t = ssum(rxn.transition_state, rxn.transition_state_stoich, meth)
        X = meth[4:]
        checks = [
            ('%s_state(products)' % X, getattr(rxn, 'get_%s_state' % X)(state='products', T=T, P=P), p),
            ('delta_%s' % X, getattr(rxn, 'get_delta_%s' % X)(T=T, P=P), p - r),
            ('delta_%s(rev, act)' % X, getattr(rxn, 'get_delta_%s' % X)(T=T, P=P, rev=True, act=True), t - p),
        ]
        for label, got, want in checks:
            ok = np.isclose(got, want, rtol=1e-10, atol=1e-10)
            if not ok:
                bad += 1
                print('WRONG %s %s: got %.6f, sum over the species with the coefficients %s/%s/%s is %.6f'
                      % (cls.__name__, label, got, rxn.reactants_stoich, rxn.products_stoich,
                         rxn.transition_state_stoich, want))
    K = rxn.get_Keq(T=T, P=P)
    dG = ssum(rxn.products, rxn.products_stoich, 'get_GoRT') - ssum(rxn.reactants, rxn.reactants_stoich, 'get_GoRT')
    if not np.isclose(np.log(K), -dG, rtol=1e-10):
        bad += 1
        print('WRONG %s ln Keq = %.6f, -delta G/RT = %.6f (first evaluation gave delta G/RT = %.6f)'
              % (cls.__name__, np.log(K), -dG, first))
print('violations: %d' % bad)
sys.exit(1 if bad else 0)
