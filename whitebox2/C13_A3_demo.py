"""C13_A3: get_SoR of Nasa/Nasa9/Shomate drops the pressure (with a warning) when the species has no phase.
A species built without phase (the constructor default, phase=None is inside the quantifier) that carries a
GasPressureAdj handed over by the user then reports S(P) = S(1 bar) and G(P) = G(1 bar): the attached model is no
longer evaluated at the conditions given.  Tree is taken from PYTHONPATH.  exit 1 / WRONG when the property is broken."""
import sys
import warnings
import numpy as np
from pmutt.empirical import GasPressureAdj
from pmutt.empirical.nasa import Nasa, Nasa9, SingleNasa9
from pmutt.empirical.shomate import Shomate
from pmutt.mixture.cov import PiecewiseCovEffect

warnings.simplefilter('ignore')
A_LOW = [4.04618796e+00, -2.34746343e-03, 7.46806220e-06, -6.40166207e-09, 2.05109613e-12, -3.03156920e+04, 0.242]
A_HIGH = [2.41854323e+00, 3.35448922e-03, -9.66398101e-07, 1.34441829e-10, -7.18940063e-15, -2.97582484e+04, 8.37]
A9 = [2.210371497e+04, -3.818461820e+02, 6.082738360e+00, -8.530914410e-03, 1.384646189e-05, -9.625793620e-09,
      2.519705809e-12, 7.108460860e+02, -1.076003744e+01]
ASH = np.array([30.09200, 6.832514, 6.793435, -2.534480, 0.082139, -250.8810, 223.3967, -241.8264])


def build(kind, **kw):
    if kind == 'Nasa':
        return Nasa(name='H2O', T_low=200., T_mid=1000., T_high=3500., a_low=A_LOW, a_high=A_HIGH, **kw)
    if kind == 'Nasa9':
        return Nasa9(name='H2O', nasas=[SingleNasa9(T_low=200., T_high=1000., a=A9)], **kw)
    return Shomate(name='H2O', T_low=298., T_high=1700., a=ASH, **kw)


def cov():
    return PiecewiseCovEffect(name_i='H2O', name_j='CO', intervals=[0., 0.4], slopes=[-20., -35.])


bad = 0
for kind in ('Nasa', 'Nasa9', 'Shomate'):
    bare = build(kind)
    for phase, misc in ((None, lambda: [GasPressureAdj()]), (None, lambda: [cov(), GasPressureAdj()]),
                        ('G', lambda: None), ('S', lambda: [GasPressureAdj()]), (None, lambda: None)):
        sp = build(kind, phase=phase, misc_models=misc())
        models = sp.misc_models or []
        for T in (500., np.array([400., 650.])):
            for P in (1e-3, 0.5, 10., 100.):
                x = 0.25
                dS = sum(m.get_SoR(P=P) for m in models if isinstance(m, GasPressureAdj))
                dH = np.array([sum(m.get_HoRT(x=x, T=Ti) for m in models if isinstance(m, PiecewiseCovEffect))
                               for Ti in np.atleast_1d(T)])
                for q, want in (('get_SoR', np.atleast_1d(bare.get_SoR(T=T)) + dS),
                                ('get_GoRT', np.atleast_1d(bare.get_GoRT(T=T)) + dH - dS)):
                    got = np.atleast_1d(getattr(sp, q)(T=T, P=P, x=x))
                    ok = np.allclose(got, want, rtol=1e-10, atol=1e-12)
                    if not ok or P == 10.:
                        print('%-8s phase=%-5r models=%-36s T=%-14s P=%-6g %s=%s  bare+models=%s  %s'
                              % (kind, phase, [type(m).__name__ for m in models], np.atleast_1d(T).tolist(), P, q,
                                 got.round(5).tolist(), want.round(5).tolist(), 'ok' if ok else 'WRONG'))
                    bad += not ok
sys.exit(1 if bad else 0)
