"""C12_A2: an array is returned with the element type of the argument - integer arrays are truncated.
Takes the tree from PYTHONPATH.  exit 1 / prints WRONG when the property is broken, exit 0 otherwise."""
import sys
import numpy as np
from pmutt.constants import convert_unit

bad = []


def check(label, got, want):
    ok = np.allclose(np.asarray(got, dtype=float), want, rtol=1e-12, atol=0.)
    print('%-58s got %-30s want %s %s' % (label, np.asarray(got).tolist(), want, '' if ok else '  <-- WRONG'))
    if not ok:
        bad.append(label)


T = np.arange(300, 700, 100)            # a temperature grid as users write it: integers
check("convert_unit(np.arange(300,700,100), 'K', 'C')", convert_unit(T, 'K', 'C'), [26.85, 126.85, 226.85, 326.85])
check("convert_unit(np.array([25, 100]), 'C', 'K')", convert_unit(np.array([25, 100]), 'C', 'K'), [298.15, 373.15])
check("convert_unit(np.array([1, 2, 3]), 'J', 'kJ')", convert_unit(np.array([1, 2, 3]), 'J', 'kJ'), [1e-3, 2e-3, 3e-3])
check("convert_unit(np.array([1, 2]), 'bar', 'atm')", convert_unit(np.array([1, 2]), 'bar', 'atm'), [0.986923, 1.973846])
# invertible: kJ -> kcal -> kJ
E = np.array([10, 20, 30])
check("kcal->kJ of kJ->kcal of [10, 20, 30]", convert_unit(convert_unit(E, 'kJ', 'kcal'), 'kcal', 'kJ'), [10., 20., 30.])
# the same numbers as floats (unchanged behaviour)
check("convert_unit(np.array([25., 100.]), 'C', 'K')", convert_unit(np.array([25., 100.]), 'C', 'K'), [298.15, 373.15])
if bad:
    print('WRONG: %d conversions of integer arrays are not the conversion of their elements' % len(bad))
    sys.exit(1)
print('ok')
