"""C20 A5: states whose temperature / pressure are numpy integers (what iterating over np.arange yields). Solve for
V and n with the van der Waals EOS and substitute back. Exit 0 when right, exit 1 (prints WRONG) otherwise.
Tree taken from PYTHONPATH."""
import sys
import numpy as np
from pmutt.eos import vanDerWaalsEOS

co2 = vanDerWaalsEOS(a=0.364, b=4.27e-5)
bad = 0
for T in np.arange(250, 551, 100):          # numpy.int64
    for P in (10., np.int64(50)):
        label = 'T=%r (%s) P=%r (%s) n=2' % (T, type(T).__name__, P, type(P).__name__)
        try:
            V = co2.get_V(T=T, P=P, n=2.)
            P_back = co2.get_P(T=T, V=V, n=2.)
            n_back = co2.get_n(V=V, P=P, T=T)
        except Exception as e:
            print('WRONG  %s: %s: %s' % (label, type(e).__name__, e))
            bad += 1
            continue
        ok = abs(P_back / P - 1) < 1e-8 and abs(n_back / 2. - 1) < 1e-10
        print('%s  %s: V=%.6e m3, back P=%.10g n=%.10g' % ('ok   ' if ok else 'WRONG', label, V, P_back, n_back))
        bad += not ok
sys.exit(1 if bad else 0)
