"""C03 (T_mid=None, the break temperature is screened by from_data): the fitted NASA-7 species must track a smooth
statistical-mechanical source within the small error of the two-range polynomial form.  The yardstick is computed
with the same code: the mean squared Cp/R error on the data grid of the best single candidate T[k], 5 <= k < n-5
(fitted with T_mid given as a scalar).  Exit 1 / prints WRONG if the screened fit is more than 3x worse (rms)."""
import sys
import warnings
import numpy as np
from ase.build import molecule
from pmutt.statmech import StatMech, presets
from pmutt.empirical.nasa import Nasa

warnings.simplefilter('ignore')
h2o = StatMech(name='H2O', atoms=molecule('H2O'), symmetrynumber=2, spin=0, potentialenergy=-14.22,
               vib_wavenumbers=[3825.434, 3710.264, 1582.432], **presets['idealgas'])
co_ads = StatMech(name='CO*', potentialenergy=-2.1, vib_wavenumbers=[2050., 420., 380., 370., 90., 85.],
                  **presets['harmonic'])
ch3_ads = StatMech(name='CH3*', potentialenergy=-1.0,
                   vib_wavenumbers=[3050., 3040., 2950., 1400., 1390., 1200., 650., 640., 400., 120., 110., 60.],
                   **presets['harmonic'])


def rms(fit, model, T):
    return np.sqrt(np.mean([(fit.get_CpoR(T=T_i) - model.get_CpoR(T=T_i))**2 for T_i in T]))


bad = False
for label, model, T_low, T_high, n_T in (('H2O gas', h2o, 100., 3000., 50), ('H2O gas', h2o, 200., 3000., 200),
                                         ('CO* ads', co_ads, 100., 1500., 50), ('CO* ads', co_ads, 100., 3000., 100),
                                         ('CH3* ads', ch3_ads, 100., 2000., 40)):
    T = np.linspace(T_low, T_high, n_T)
    fit = Nasa.from_model(model=model, name='sp', T_low=T_low, T_high=T_high, n_T=n_T)
    err = rms(fit, model, T)
    best, best_T = min((rms(Nasa.from_model(model=model, name='sp', T_low=T_low, T_high=T_high, n_T=n_T,
                                            T_mid=float(T_m)), model, T), T_m) for T_m in T[5:-5])
    Ts = np.linspace(T_low, T_high, 400)
    worst = max(abs(fit.get_CpoR(T=T_i) - model.get_CpoR(T=T_i)) for T_i in Ts)
    print('%-8s %5.0f-%5.0f K n_T=%3d: screened T_mid=%7.1f rms dCp/R=%.2e (max %.2e) | best candidate %7.1f rms %.2e'
          ' | ratio %.1f' % (label, T_low, T_high, n_T, fit.T_mid, err, worst, best_T, best, err / best))
    if err > 3. * best:
        bad = True
print('WRONG: the break temperature screened by from_data is far from the candidate that fits best; the species '
      'tracks Cp/R several times worse than the polynomial form allows' if bad else 'OK')
sys.exit(1 if bad else 0)
