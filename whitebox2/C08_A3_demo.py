"""C08 A3: a block addressed to a species whose name contains an underscore (the transition state 'H2O_TS' of the
test-suite, 'CH3_TS', 'TS1_NH3' ... are the usual pMuTT spellings) must reach that species.

H2 + 0.5 O2 = [H2O_TS] = H2O, StatMech species.  Shared T = 500 K, P = 1 bar; block H2O_TS_kwargs = {T: 650, P: 5}.
"""
import sys
import numpy as np
from ase.build import molecule
from pmutt.statmech import StatMech, presets
from pmutt.reaction import Reaction
from pmutt.omkm.reaction import SurfaceReaction

ig = presets['idealgas']
H2O = StatMech(name='H2O', atoms=molecule('H2O'), symmetrynumber=2, vib_wavenumbers=[3825.434, 3710.2642, 1582.432],
               potentialenergy=-6.7598, spin=0., **ig)
H2 = StatMech(name='H2', atoms=molecule('H2'), symmetrynumber=2, vib_wavenumbers=[4306.1793],
              potentialenergy=-14.2209, spin=0., **ig)
O2 = StatMech(name='O2', atoms=molecule('O2'), symmetrynumber=2, vib_wavenumbers=[2205.], potentialenergy=-9.862407,
              spin=1., **ig)
TS = StatMech(name='H2O_TS', atoms=molecule('H2O'), symmetrynumber=1., vib_wavenumbers=[4000., 3900., 1600.],
              potentialenergy=-5.7598, spin=0., **ig)

T, P = 500., 1.
blk = {'T': 650., 'P': 5.}
bad = 0
for cls in (Reaction, SurfaceReaction):
    rxn = cls(reactants=[H2, O2], reactants_stoich=[1., 0.5], products=[H2O], products_stoich=[1.],
              transition_state=[TS], transition_state_stoich=[1.])
    for X in ('HoRT', 'SoR', 'GoRT'):
        m = 'get_' + X
        r = getattr(H2, m)(T=T, P=P) + 0.5 * getattr(O2, m)(T=T, P=P)
        p = getattr(H2O, m)(T=T, P=P)
        t = getattr(TS, m)(**blk)
        rows = (('get_%s_state(TS)' % X, getattr(rxn, 'get_%s_state' % X)(state='TS', T=T, P=P, H2O_TS_kwargs=dict(blk)), t),
                ('get_delta_%s(act=True)' % X, getattr(rxn, 'get_delta_' + X)(act=True, T=T, P=P, H2O_TS_kwargs=dict(blk)), t - r),
                ('get_delta_%s(rev=True, act=True)' % X,
                 getattr(rxn, 'get_delta_' + X)(rev=True, act=True, T=T, P=P, H2O_TS_kwargs=dict(blk)), t - p),
                ('get_delta_%s()' % X, getattr(rxn, 'get_delta_' + X)(T=T, P=P, H2O_TS_kwargs=dict(blk)), p - r))
        for label, got, want in rows:
            if not np.isclose(got, want, rtol=1e-10, atol=1e-12):
                bad += 1
                print('WRONG %s.%s with H2O_TS_kwargs={T: 650, P: 5}: %.6f; with H2O_TS at (650 K, 5 bar) and the '
                      'others at (500 K, 1 bar): %.6f' % (cls.__name__, label, got, want))
    Ka = rxn.get_Keq(act=True, T=T, P=P, H2O_TS_kwargs=dict(blk))
    dGa = TS.get_GoRT(**blk) - H2.get_GoRT(T=T, P=P) - 0.5 * O2.get_GoRT(T=T, P=P)
    if not np.isclose(np.log(Ka), -dGa, rtol=1e-10):
        bad += 1
        print('WRONG %s ln Keq(act=True) = %.6f, -delta G(act)/RT = %.6f' % (cls.__name__, np.log(Ka), -dGa))
print('violations: %d' % bad)
sys.exit(1 if bad else 0)
