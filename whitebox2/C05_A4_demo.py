"""C05_A4: precision of the coefficients that are read back.
Property: "all fourteen coefficients equal to nine significant digits, so every thermodynamic value agrees to that
precision".  Exit 0 = right, exit 1 = WRONG.
"""
import os
import sys
import tempfile

import numpy as np

from pmutt.empirical.nasa import Nasa
from pmutt.io.thermdat import read_thermdat, write_thermdat

a_low = [4.04618796e+00, -6.87238823e-04, 5.27316255e-06, -4.19869217e-09, 1.12691457e-12, -3.02864170e+04,
         -2.50354790e-01]
a_high = [2.41854323e+00, 3.35448922e-03, -9.66398101e-07, 1.34441829e-10, -7.18940063e-15, -2.97582484e+04,
          8.37839787e+00]
h2o = Nasa(name='H2O', elements={'H': 2, 'O': 1}, phase='G', T_low=200., T_mid=1000., T_high=3500.,
           a_low=a_low, a_high=a_high)
fd, path = tempfile.mkstemp(suffix='.thermdat')
os.close(fd)
try:
    write_thermdat([h2o], filename=path, write_date=False)
    back = read_thermdat(path)[0]
finally:
    os.remove(path)

worst = 0.
for want, got in zip(list(h2o.a_low) + list(h2o.a_high), list(back.a_low) + list(back.a_high)):
    worst = max(worst, abs(float(got) - want) / abs(want))
print('a_low[5]  written % .8E, read back % .8E' % (h2o.a_low[5], back.a_low[5]))
print('a_high[0] written % .8E, read back % .8E' % (h2o.a_high[0], back.a_high[0]))
print('largest relative difference of a coefficient: %.2e (nine significant digits: < 5e-9)' % worst)
dH = abs(back.get_H(T=298.15, units='kJ/mol') - h2o.get_H(T=298.15, units='kJ/mol'))
print('H(298.15 K): original %.9f kJ/mol, read back %.9f kJ/mol'
      % (h2o.get_H(T=298.15, units='kJ/mol'), back.get_H(T=298.15, units='kJ/mol')))
if worst > 5e-9:
    print('WRONG: the coefficients read back do not agree with the written ones to nine significant digits')
    sys.exit(1)
print('right')
