"""C06 A4: read_reactions(filename, species=...) hands back the species OBJECTS of every reaction of a file pMuTT wrote:
the product objects must be the products of the model reaction.
Run: cd <tree> && PYTHONPATH=<tree> python C06_A4_demo.py   (exit 0 = right, exit 1 = WRONG)"""
import os
import sys
import tempfile
from pmutt.empirical.nasa import Nasa
from pmutt.chemkin import CatSite
from pmutt.reaction import ChemkinReaction, Reactions
from pmutt.io import chemkin as ck


def nasa(name, phase, elements, h, s, cat_site=None, n_sites=None):
    a = [4., 0., 0., 0., 0., h, s]
    return Nasa(name=name, T_low=200., T_mid=1000., T_high=3000., a_low=a, a_high=a, phase=phase,
                elements=elements, cat_site=cat_site, n_sites=n_sites)


site = CatSite(name='PT_TERRACE', site_density=2.1671e-09, density=21.45, bulk_specie='PT(B)')
species = [nasa('H2', 'G', {'H': 2}, -1000., 10.),
           nasa('H(S)', 'S', {'H': 1, 'PT': 1}, -4000., 1., site, 1),
           nasa('O(S)', 'S', {'O': 1, 'PT': 1}, -14000., 1.5, site, 1),
           nasa('OH(S)', 'S', {'O': 1, 'H': 1, 'PT': 1}, -20000., 2., site, 1),
           nasa('PT(S)', 'S', {'PT': 1}, 0., 0., site, 1),
           nasa('TS1', 'S', {'O': 1, 'H': 1, 'PT': 2}, -15000., 2.5, site, 2)]
sp = {s.name: s for s in species}
rx = [ChemkinReaction(reactants=[sp['H2'], sp['PT(S)']], reactants_stoich=[1, 2], products=[sp['H(S)']],
                      products_stoich=[2], is_adsorption=True, sticking_coeff=0.3, beta=0.),
      ChemkinReaction(reactants=[sp['H(S)'], sp['O(S)']], reactants_stoich=[1, 1],
                      products=[sp['OH(S)'], sp['PT(S)']], products_stoich=[1, 1],
                      transition_state=[sp['TS1']], transition_state_stoich=[1], beta=1.)]
fname = os.path.join(tempfile.mkdtemp(), 'surf.inp')
ck.write_surf(reactions=Reactions(rx), filename=fname, T=500., P=1., act_method_name='get_G_act')
eqs, reac, reac_obj, rst, prod, prod_obj, pst = ck.read_reactions(fname, species=species)
bad = False
for i, r in enumerate(rx):
    got_r, got_p = [o.name for o in reac_obj[i]], [o.name for o in prod_obj[i]]
    want_r, want_p = [s.name for s in r.reactants], [s.name for s in r.products]
    ok = got_r == want_r and got_p == want_p and all(a is b for a, b in zip(prod_obj[i], r.products))
    bad = bad or not ok
    print('%-24s reactant objects %s (model %s)  product objects %s (model %s)  %s'
          % (eqs[i], got_r, want_r, got_p, want_p, 'ok' if ok else 'WRONG'))
if bad:
    print('WRONG')
    sys.exit(1)
print('right')
