"""C14_A3: balanced reactions are refused when a composition lists an element with the count 0 (what the spreadsheet
reader produces for an `elements.O` column holding 0) and the other side does not list that element.
Run with PYTHONPATH=<tree>.  exit 0 = right behaviour, exit 1 = WRONG."""
import sys
from pmutt.reaction import Reaction


class Sp:
    def __init__(self, name, elements):
        self.name = name
        self.elements = elements


# compositions as pmutt.io.excel.read_excel builds them from the columns elements.C / elements.H / elements.O:
# every column of the sheet is stored, 0 included
H2 = Sp('H2', {'C': 0, 'H': 2, 'O': 0})
O2 = Sp('O2', {'C': 0, 'H': 0, 'O': 2})
H2O_xl = Sp('H2O', {'C': 0, 'H': 2, 'O': 1})
# compositions written by hand or parsed from a formula list only the elements present
H2O = Sp('H2O', {'H': 2, 'O': 1})
H = Sp('H', {'H': 1})
OH = Sp('OH', {'O': 1, 'H': 1})
TS = Sp('H2O_TS', {'H': 2, 'O': 1})

bad = 0
for label, rxn in (
        ('H2 = 2H             (O: 0 = nothing)', Reaction([H2], [1], [H], [2])),
        ('H2 + 0.5O2 = H2O    (C: 0 = nothing)', Reaction([H2, O2], [1, 0.5], [H2O], [1])),
        ('0.5H2 + OH = H2O_TS = H2O', Reaction([H2, OH], [0.5, 1], [H2O_xl], [1], [TS], [1])),
        ('H2 + 0.5O2 = H2O    (all three from the sheet)', Reaction([H2, O2], [1, 0.5], [H2O_xl], [1]))):
    try:
        rxn.check_element_balance()
    except ValueError as e:
        print('WRONG: %-50s refused although the element totals agree: %s' % (label, str(e).replace('\n', ' | ')))
        bad += 1
    else:
        print('right: %-50s accepted' % label)
# unbalanced stays refused
try:
    Reaction([H2], [1], [H], [1]).check_element_balance()
except ValueError:
    pass
else:
    print('WRONG: H2 = H accepted')
    bad += 1
sys.exit(1 if bad else 0)
