"""C18 A1: a collection with duplicates and a gap must still denote exactly the ids given."""
import sys
from pmutt.cantera import _get_omkm_range


def expand(entries):
    out = set()
    for e in entries:
        e = e.strip('"')
        if ' to ' in e:
            a, b = e.split(' to ')
            ha, fa = a.rsplit('_', 1)
            hb, fb = b.rsplit('_', 1)
            assert ha == hb
            for k in range(int(fa), int(fb) + 1):
                out.add('%s_%s' % (ha, str(k).zfill(len(fa))))
        else:
            out.add(e)
    return out


bad = 0
cases = [['r_0001', 'r_0001', 'r_0002', 'r_0003', 'r_0005'],        # one duplicate, one gap
         ['r_0007', 'r_0003', 'r_0003', 'r_0004', 'r_0004', 'r_0001'],  # control: two duplicates, four holes
         ['s_0010', 'r_0002', 's_0012', 'r_0002', 'r_0004', 's_0012'],   # two prefixes, each: one duplicate, one gap
         ]


class R:
    def __init__(self, id):
        self.id = id


for ids in cases:
    for objs in (ids, [R(i) for i in ids]):
        lst = _get_omkm_range(objs, format='list')
        st = _get_omkm_range(objs)
        got = expand(lst)
        ok = got == set(ids) and st == '[' + ', '.join(lst) + ']'
        print('%s  %s -> %s%s' % ('ok   ' if ok else 'WRONG', ids, st,
                                  '' if ok else '   (added: %s)' % sorted(got - set(ids))))
        bad += not ok
sys.exit(1 if bad else 0)
