"""C16 A2: compositions are kept in a dictionary that is a class attribute, so a second Equilibrium object (other feed)
gets the composition computed for the first one at the same (T, P).
Exit 1 / 'WRONG' when the returned composition does not contain the atoms of its own feed."""
import os
import sys
import warnings
import numpy as np
import pmutt
from pmutt.io.thermdat import read_thermdat
from pmutt.equilibrium import Equilibrium

TD = os.path.join(os.path.dirname(pmutt.__file__), 'tests', 'equilibrium', 'thermdat_equilibrium_unittest.txt')
model = read_thermdat(TD, 'dict')
species = ['CH4', 'H2O', 'CO', 'H2', 'CO2']          # 5 gas species over C, H, O
feeds = [[1., 2., 0., 0., 0.], [2., 1., 0., 0., 0.], [0.5, 0.5, 1., 3., 0.]]
T, P = 1000., 1.
wrong = False
for feed in feeds:
    eq = Equilibrium(model, dict(zip(species, feed)))
    with warnings.catch_warnings(record=True) as rec:
        warnings.simplefilter('always')
        r = eq.get_net_comp(T=T, P=P)
    signalled = any('converge' in str(w.message) for w in rec)
    atoms = np.asarray(r.moles).dot(eq.mol_elem)
    err = np.max(np.abs(atoms - eq.ele_feed)/eq.ele_feed)
    print('feed %s -> moles %s\n   atoms %s %s, feed atoms %s, signalled=%s' % (
        dict(zip(species, feed)), np.round(r.moles, 5), [str(e) for e in eq.elements], np.round(atoms, 6),
        np.round(eq.ele_feed, 6), signalled))
    if err > 1e-6 and not signalled:
        print('   WRONG: the composition does not contain the atoms of the feed (rel. error %.2g), no signal' % err)
        wrong = True
sys.exit(1 if wrong else 0)
