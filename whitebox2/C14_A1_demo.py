"""C14_A1: the element-balance check accepts reactions whose element totals differ (tolerance 0.01).
Run with PYTHONPATH=<tree>.  exit 0 = right behaviour, exit 1 = WRONG."""
import sys
from pmutt.reaction import Reaction


class Sp:
    def __init__(self, name, elements):
        self.name = name
        self.elements = elements


H2 = Sp('H2', {'H': 2})
O2 = Sp('O2', {'O': 2})
H2O = Sp('H2O', {'H': 2, 'O': 1})
C3H6 = Sp('C3H6', {'C': 3, 'H': 6})
CH2 = Sp('CH2', {'C': 1, 'H': 2})
species = {s.name: s for s in (H2, O2, H2O, C3H6, CH2)}

bad = 0
# unbalanced reactions inside the quantifier (fractional coefficients): every one must be refused
for txt in ('H2 + 0.5O2 = 1.004H2O',          # H 2 vs 2.008, O 1 vs 1.004
            '0.333C3H6 = CH2',                # C 0.999 vs 1, H 1.998 vs 2
            'H2 + 0.497O2 = H2O',             # O 0.994 vs 1
            'H2 + 0.5O2 = 0.998H2O = H2O'):   # transition state: H 1.996 vs 2
    rxn = Reaction.from_string(txt, species)
    try:
        rxn.check_element_balance()
    except ValueError:
        print('right: %-32s refused (ValueError)' % txt)
    else:
        print('WRONG: %-32s accepted although the element totals differ' % txt)
        bad += 1
# balanced reactions stay accepted, grossly unbalanced ones stay refused
Reaction.from_string('H2 + 0.5O2 = H2O', species).check_element_balance()
try:
    Reaction.from_string('H2 + O2 = H2O', species).check_element_balance()
except ValueError:
    pass
else:
    print('WRONG: H2 + O2 = H2O accepted')
    bad += 1
sys.exit(1 if bad else 0)
