"""C18 A4: a token that is three characters shorter than the first-line width fits on every line;
no line may be longer than the requested width."""
import sys
from pmutt.io.cantera import obj_to_cti

bad = 0
# (tokens, line_len, max_line_len): the long token has exactly line_len - 3 characters and is not the first one
cases = [(['H2O(S)', 'A' * 30, 'CO(S)', 'B' * 30, 'OH(S)'], 33, 33),
         (['PT(S)', 'X' * 27, 'Y' * 27, 'O(S)'], 30, 30),
         (['C' * 12, 'D' * 29, 'E' * 5, 'F' * 29], 32, 60),
         (['H2O(S)', 'CO(S)', 'OH(S)', 'COOH(S)', 'HCOO(S)', 'CH3O(S)', 'CH2O(S)', 'CHO(S)'], 30, 30)]  # control
for toks, line_len, max_line_len in cases:
    out = obj_to_cti(toks, line_len=line_len, max_line_len=max_line_len)
    lines = out.split('\n')
    got = out.replace('"""', ' ').split()
    over = [(k, len(l)) for k, l in enumerate(lines) if len(l) > (line_len if k == 0 else max_line_len)]
    longest = max(len(t) for t in toks)
    ok = got == toks and not over
    print('%s line_len=%d max_line_len=%d longest token=%d: line widths %s%s'
          % ('ok   ' if ok else 'WRONG', line_len, max_line_len, longest, [len(l) for l in lines],
             '' if ok else '  -> lines %s exceed the width although no token is longer than it' % over))
    bad += not ok
sys.exit(1 if bad else 0)
