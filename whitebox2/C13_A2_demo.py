"""C13_A2: the per-species block '<name>_kwargs' is matched with key.rstrip('_kwargs') == name.  str.rstrip strips a
SET of characters, so every species whose name ends in one of  _ k w a r g s  (Ag, Na, Ar, Os, CO_s, OH_ads, ...) never
receives its block: the coverage effect is evaluated at x = 0 instead of the coverage that was given.
Tree is taken from PYTHONPATH.  exit 1 / WRONG when the property is broken."""
import sys
import numpy as np
from pmutt.empirical.nasa import Nasa, Nasa9, SingleNasa9
from pmutt.empirical.shomate import Shomate
from pmutt.mixture.cov import PiecewiseCovEffect

A_LOW = [4.04618796e+00, -2.34746343e-03, 7.46806220e-06, -6.40166207e-09, 2.05109613e-12, -3.03156920e+04, 0.242]
A_HIGH = [2.41854323e+00, 3.35448922e-03, -9.66398101e-07, 1.34441829e-10, -7.18940063e-15, -2.97582484e+04, 8.37]
A9 = [2.210371497e+04, -3.818461820e+02, 6.082738360e+00, -8.530914410e-03, 1.384646189e-05, -9.625793620e-09,
      2.519705809e-12, 7.108460860e+02, -1.076003744e+01]
ASH = np.array([30.09200, 6.832514, 6.793435, -2.534480, 0.082139, -250.8810, 223.3967, -241.8264])


def build(kind, misc):
    if kind == 'Nasa':
        return Nasa(name='H2O(S)', phase='S', T_low=200., T_mid=1000., T_high=3500., a_low=A_LOW, a_high=A_HIGH,
                    misc_models=misc)
    if kind == 'Nasa9':
        return Nasa9(name='H2O(S)', phase='S', nasas=[SingleNasa9(T_low=200., T_high=1000., a=A9)],
                     misc_models=misc)
    return Shomate(name='H2O(S)', phase='S', T_low=298., T_high=1700., a=ASH, misc_models=misc)


bad = 0
for kind in ('Nasa', 'Nasa9', 'Shomate'):
    # one coverage effect at a time, and two together (the second name is one the checker uses)
    for names in (['CO'], ['O'], ['K'], ['Ag'], ['CO_s'], ['OH_ads'], ['CO', 'K'], ['Na', 'CO2']):
        covs = [PiecewiseCovEffect(name_i='H2O(S)', name_j=n, intervals=[0., 0.4], slopes=[-20. - 3 * j, -35.])
                for j, n in enumerate(names)]
        sp, bare = build(kind, list(covs)), build(kind, None)
        xs = {n: 0.15 + 0.2 * j for j, n in enumerate(names)}
        blocks = {'%s_kwargs' % n: {'x': xs[n]} for n in names}
        for T in (500., np.array([400., 650.])):
            got = np.atleast_1d(sp.get_HoRT(T=T, **blocks))
            want = np.atleast_1d(bare.get_HoRT(T=T)) + np.array(
                [sum(m.get_HoRT(x=xs[m.name_j], T=Ti) for m in covs) for Ti in np.atleast_1d(T)])
            ok = np.allclose(got, want, rtol=1e-10, atol=1e-12)
            print('%-8s species %-14s T=%-12s H/RT=%s  bare+models=%s  %s'
                  % (kind, ','.join(names), np.atleast_1d(T).tolist(), got.round(6).tolist(), want.round(6).tolist(),
                     'ok' if ok else 'WRONG'))
            bad += not ok
sys.exit(1 if bad else 0)
