"""C04_A3: Nasa.get_Cp with raise_error=False / raise_warning=False for a species that carries a mixing model which
only corrects the enthalpy (no get_CpoR).  Run with PYTHONPATH=<tree>.
Exit 1 / prints WRONG when get_Cp(units, options) does not behave like get_CpoR(options) * R(units)."""
import sys
import warnings
import numpy as np
from pmutt import constants as c
from pmutt.empirical.nasa import Nasa

bad = 0


class LateralShift:
    """user-defined mixing model: a constant shift of the enthalpy (and nothing else)"""
    def get_HoRT(self, T):
        return -500. / T


a = np.array([3.5, 1.e-3, 0., 0., 0., -3.0e4, 2.])
sp = Nasa(name='CO(S)', elements={'C': 1, 'O': 1}, a_low=a, a_high=a, T_low=200., T_mid=1000., T_high=3000.,
          misc_models=[LateralShift()])
for T in (500., np.array([400., 600.])):
    for units in ('J/mol/K', 'cal/mol/K', 'J/g/K'):
        M = 28.0106 if '/g/' in units else 1.
        with warnings.catch_warnings(record=True) as w_twin:
            warnings.simplefilter('always')
            want = sp.get_CpoR(T=T, raise_error=False, raise_warning=False) * c.R(units.replace('/g/', '/mol/')) / M
        with warnings.catch_warnings(record=True) as w_dim:
            warnings.simplefilter('always')
            try:
                got = sp.get_Cp(T=T, units=units, raise_error=False, raise_warning=False)
            except Exception as e:
                got = e
        ok = not isinstance(got, Exception) and np.allclose(got, want, rtol=1e-6) and len(w_dim) == len(w_twin)
        print('T=%s units=%-10s get_Cp -> %r   get_CpoR*R -> %r   warnings %d/%d  %s'
              % (T, units, got, want, len(w_dim), len(w_twin), 'ok' if ok else 'WRONG'))
        bad += not ok
print('WRONG' if bad else 'all right')
sys.exit(1 if bad else 0)
