"""C08 A4: the direction flag handed over by position (documented order: units, T, rev).

H2 + 0.5 O2 = [H2O_TS] = H2O, StatMech species.  Forward minus reverse activation Gibbs energy must be the reaction
change; the reverse activation quantity is transition state minus products.
"""
import sys
import numpy as np
from ase.build import molecule
from pmutt import constants as c
from pmutt.statmech import StatMech, presets
from pmutt.reaction import Reaction

ig = presets['idealgas']
H2O = StatMech(name='H2O', atoms=molecule('H2O'), symmetrynumber=2, vib_wavenumbers=[3825.434, 3710.2642, 1582.432],
               potentialenergy=-6.7598, spin=0., **ig)
H2 = StatMech(name='H2', atoms=molecule('H2'), symmetrynumber=2, vib_wavenumbers=[4306.1793],
              potentialenergy=-14.2209, spin=0., **ig)
O2 = StatMech(name='O2', atoms=molecule('O2'), symmetrynumber=2, vib_wavenumbers=[2205.], potentialenergy=-9.862407,
              spin=1., **ig)
TS = StatMech(name='H2O_TS', atoms=molecule('H2O'), symmetrynumber=1., vib_wavenumbers=[4000., 3900., 1600.],
              potentialenergy=-5.7598, spin=0., **ig)
rxn = Reaction(reactants=[H2, O2], reactants_stoich=[1., 0.5], products=[H2O], products_stoich=[1.],
               transition_state=[TS], transition_state_stoich=[1.])
T, u = 500., 'kJ/mol'
RT = c.R('kJ/mol/K') * T
G = lambda sp: sp.get_GoRT(T=T) * RT
want_fwd = G(TS) - G(H2) - 0.5 * G(O2)
want_rev = G(TS) - G(H2O)
want_rxn = G(H2O) - G(H2) - 0.5 * G(O2)
bad = 0
fwd = rxn.get_G_act(u, T)
rev = rxn.get_G_act(u, T, True)              # units, T, rev - as get_delta_G(units, T, rev, act) and all *_act getters
rows = (('get_G_act(units, T)', fwd, want_fwd), ('get_G_act(units, T, True)', rev, want_rev),
        ('get_G_act(units, T) - get_G_act(units, T, True)', fwd - rev, want_rxn),
        ('get_delta_G(units, T, True, True)', rxn.get_delta_G(u, T, True, True), want_rev),
        ('get_H_act(units, T, True)', rxn.get_H_act(u, T, True),
         (TS.get_HoRT(T=T) - H2O.get_HoRT(T=T)) * RT))
for label, got, want in rows:
    ok = np.isclose(got, want, rtol=1e-10)
    print('%s %-50s = %14.6f   expected %14.6f' % ('ok   ' if ok else 'WRONG', label, got, want))
    bad += not ok
print('violations: %d' % bad)
sys.exit(1 if bad else 0)
