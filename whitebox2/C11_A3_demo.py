"""C11_A3: a reaction set whose species are told apart by phase (or have no name), through the real encoder and hook.
Exit 0 when every decoded reaction has the species and the reaction enthalpy of the original, exit 1 (prints WRONG) otherwise.
Run: PYTHONPATH=<tree> python C11_A3_demo.py"""
import json
import sys

import numpy as np

from pmutt.empirical.nasa import Nasa
from pmutt.io.json import pmuttEncoder, json_to_pmutt
from pmutt.reaction import Reaction, Reactions
from pmutt.statmech import StatMech, presets


def roundtrip(obj):
    return json.loads(json.dumps(obj, cls=pmuttEncoder), object_hook=json_to_pmutt)


# water, liquid and vapour: same name, different phase and polynomial (as in thermdat files with one name per phase)
h2o_l = Nasa(name='H2O', phase='L', elements={'H': 2, 'O': 1}, T_low=273., T_mid=500., T_high=600.,
             a_low=[9.0, 0., 0., 0., 0., -3.7e4, 0.], a_high=[9.0, 0., 0., 0., 0., -3.7e4, 0.])
h2o_g = Nasa(name='H2O', phase='G', elements={'H': 2, 'O': 1}, T_low=200., T_mid=1000., T_high=3500.,
             a_low=[4.2, 0., 0., 0., 0., -3.03e4, 0.], a_high=[4.2, 0., 0., 0., 0., -3.03e4, 0.])
vaporisation = Reaction(reactants=[h2o_l], reactants_stoich=[1.], products=[h2o_g], products_stoich=[1.])
# species given by their energies only (no names), as pmutt.statmech.lsr builds them
a = StatMech(U=-1., H=-1., F=-1., G=-1., **presets['constant'])
b = StatMech(U=-3., H=-3., F=-3., G=-3., **presets['constant'])
unnamed = Reaction(reactants=[a], reactants_stoich=[1.], products=[b], products_stoich=[1.])

rxns = Reactions(reactions=[vaporisation, unnamed])
dec = roundtrip(rxns)
assert type(dec) is Reactions and len(dec) == 2
bad = 0
for label, r0, r1 in (('H2O(l) = H2O(g)', rxns[0], dec[0]), ('unnamed species', rxns[1], dec[1])):
    h0 = r0.get_delta_HoRT(T=298.15)
    h1 = r1.get_delta_HoRT(T=298.15)
    ph0 = [getattr(s, 'phase', None) for s in r0.reactants + r0.products]
    ph1 = [getattr(s, 'phase', None) for s in r1.reactants + r1.products]
    same = np.isclose(h0, h1, rtol=1e-12, atol=0.) and ph0 == ph1 and \
        r0.products[0].to_dict() == r1.products[0].to_dict()
    print('%-18s delta_H/RT original %.6f decoded %.6f  phases %s -> %s  %s'
          % (label, h0, h1, ph0, ph1, 'same' if same else 'WRONG'))
    bad += not same
if bad:
    print('WRONG: decoding the reaction set replaced a species by another one of the same name')
sys.exit(1 if bad else 0)
