"""C07 A5: automatic ids.  The interface entry of the CTI file and the BEP entries of both files refer to reactions
and lateral interactions by id: every id they name must be the id of a reaction / interaction in the same file, and
all of them must be named.  Run with PYTHONPATH=<tree>."""
import re
import sys
import numpy as np
import yaml
from pmutt.empirical.nasa import Nasa
from pmutt.omkm.phase import IdealGas, InteractingInterface
from pmutt.omkm.reaction import SurfaceReaction, BEP
from pmutt.omkm.units import Units
from pmutt.mixture.cov import PiecewiseCovEffect
from pmutt.io.omkm import write_cti, write_thermo_yaml


def nasa(name, elements, hf, n_sites=None):
    a = np.array([3.5, 1e-3, 0., 0., 0., hf, 4.0])
    return Nasa(name=name, T_low=200., T_mid=1000., T_high=3000., a_low=a, a_high=a.copy(),
                elements=elements, n_sites=n_sites)


def build():
    H2 = nasa('H2', {'H': 2}, -1000.)
    sp = {n: nasa(n, e, h, 1) for n, e, h in (
        ('PT(S)', {'Pt': 1}, 0.), ('H(S)', {'H': 1, 'Pt': 1}, -3000.), ('N(S)', {'N': 1, 'Pt': 1}, -2000.),
        ('NH(S)', {'N': 1, 'H': 1, 'Pt': 1}, -4000.), ('NH2(S)', {'N': 1, 'H': 2, 'Pt': 1}, -5500.),
        ('NH3(S)', {'N': 1, 'H': 3, 'Pt': 1}, -9000.))}
    bep = BEP(name='NH_scission', slope=0.71, intercept=23.2, direction='cleavage', descriptor='delta_H')
    mk = lambda r, p, **k: SurfaceReaction(reactants=[sp[x] for x in r], reactants_stoich=[1.] * len(r),
                                           products=[sp[x] for x in p], products_stoich=[1.] * len(p), **k)
    tsk = dict(transition_state=[bep], transition_state_stoich=[1.], direction='cleavage')
    rx = [SurfaceReaction(reactants=[H2, sp['PT(S)']], reactants_stoich=[1., 2.], products=[sp['H(S)']],
                          products_stoich=[2.], is_adsorption=True),
          mk(['NH3(S)', 'PT(S)'], ['NH2(S)', 'H(S)'], **tsk), mk(['NH2(S)', 'PT(S)'], ['NH(S)', 'H(S)'], **tsk),
          mk(['NH(S)', 'PT(S)'], ['N(S)', 'H(S)'], **tsk)]
    li = [PiecewiseCovEffect(name_i='N(S)', name_j='N(S)', intervals=[0., 0.25], slopes=[0., -12.5]),
          PiecewiseCovEffect(name_i='H(S)', name_j='N(S)', intervals=[0., 0.5], slopes=[-1.5, -6.25])]
    gas = IdealGas(name='gas', species=[H2])
    surf = InteractingInterface(name='terrace', species=list(sp.values()), site_density=2.5e-9, phases=[gas],
                                reactions=rx, interactions=li)
    return dict(phases=[gas, surf], species=[H2] + list(sp.values()), reactions=rx, lateral_interactions=li)


def expand(entries):
    out = set()
    for e in entries:
        ends = [x.strip() for x in e.split(' to ')]
        if len(ends) == 1:
            out.add(ends[0])
        else:
            (h, a), (_, b) = ends[0].rsplit('_', 1), ends[1].rsplit('_', 1)
            out |= {'%s_%0*d' % (h, len(a), k) for k in range(int(a), int(b) + 1)}
    return out


def slot(text, key):
    m = re.search(key + r'=\[(.*?)\]', text, re.S)
    return expand(re.findall(r'"([^"]+)"', m.group(1))) if m else None


u = Units(quantity='mol', length='cm', act_energy='kcal/mol', energy='kcal')
cti = write_cti(units=u, T=500., **build())
rx_ids = set(re.findall(r'surface_reaction\(.*?id="([^"]+)"\)', cti, re.S))
li_ids = set(re.findall(r'lateral_interaction\(.*?id="([^"]+)"\)', cti, re.S))
iface = cti[cti.index('interacting_interface('):cti.index('# SPECIES')]
bepd = cti[cti.index('bep(id='):]
res = [('CTI interface reactions', slot(iface, 'reactions'), rx_ids),
       ('CTI interface interactions', slot(iface, 'interactions'), li_ids),
       ('CTI bep cleavage_reactions', slot(bepd, 'cleavage_reactions'), rx_ids - {sorted(rx_ids)[0]})]
txt = write_thermo_yaml(units=u, T=500., **build())
docs = {k: v for d in yaml.safe_load_all(txt.replace('\n\n-', '\n-')) if d for k, v in d.items()}
y_ids = {r['id'] for r in docs['reactions']}
res.append(('YAML bep cleavage-reactions', expand(docs['beps'][0]['cleavage-reactions']), y_ids - {sorted(y_ids)[0]}))
ok = True
for what, named, existing in res:
    good = named == existing
    ok = ok and good
    print('%-30s names %s; ids in the file: %s%s' % (what, sorted(named or []), sorted(existing),
                                                    '' if good else '   <-- MISMATCH'))
print('OK' if ok else 'WRONG: phase / BEP entries refer to ids no reaction or interaction of the file carries')
sys.exit(0 if ok else 1)
