"""C20 A1: liquid root of the van der Waals EOS, solve-and-substitute round trip.
Exit 0 when the property holds, exit 1 (prints WRONG) when it does not. Tree taken from PYTHONPATH."""
import sys
from pmutt.eos import vanDerWaalsEOS

co2 = vanDerWaalsEOS(a=0.364, b=4.27e-5)      # Tc = 303.8 K, Pc = 73.9 bar
bad = 0
for T, P, n in [(250., 1., 2.), (250., 30., 0.5), (500., 10., 2.)]:
    for gas in (True, False):
        label = 'T=%g K P=%g bar n=%g gas_phase=%s' % (T, P, n, gas)
        try:
            V = co2.get_V(T=T, P=P, n=n, gas_phase=gas)
            P_back = co2.get_P(T=T, V=V, n=n)
            T_back = co2.get_T(V=V, P=P, n=n)
            n_back = co2.get_n(V=V, P=P, T=T, gas_phase=gas)
        except Exception as e:
            print('WRONG  %s: %s: %s' % (label, type(e).__name__, e))
            bad += 1
            continue
        ok = abs(P_back / P - 1) < 1e-8 and abs(T_back / T - 1) < 1e-8 and abs(n_back / n - 1) < 1e-10
        print('%s  %s: V=%.6e m3, back P=%.10g T=%.10g n=%.10g' % ('ok   ' if ok else 'WRONG', label, V, P_back,
                                                                   T_back, n_back))
        bad += not ok
sys.exit(1 if bad else 0)
