"""C12_A4: convert_unit is wrapped in a memoising decorator whose key is the text of the arguments.  The text of an
array shows 8 significant digits and, above 1000 elements, only its ends, so different arrays share one cache entry.
Takes the tree from PYTHONPATH.  exit 1 / prints WRONG when the property is broken, exit 0 otherwise."""
import sys
import numpy as np
from pmutt.constants import convert_unit

bad = []


def check(label, got, want, rtol=1e-12):
    got, want = np.asarray(got, dtype=float), np.asarray(want, dtype=float)
    ok = got.shape == want.shape and np.allclose(got, want, rtol=rtol, atol=0.)
    worst = float(np.max(np.abs(got - want))) if got.shape == want.shape else float('nan')
    print('%-66s largest error %-12.6g %s' % (label, worst, '' if ok else '  <-- WRONG'))
    if not ok:
        bad.append(label)


# two temperature grids of 2001 points that agree at their ends only
T1 = np.linspace(300., 1000., 2001)
T2 = T1.copy()
T2[10:-10] += 25.
check("convert_unit(T1, 'K', 'C') against T1 - 273.15", convert_unit(T1, 'K', 'C'), T1 - 273.15)
check("convert_unit(T2, 'K', 'C') against T2 - 273.15", convert_unit(T2, 'K', 'C'), T2 - 273.15)
# two short arrays of energies that differ in the 9th digit
E1 = np.array([1.0, 2.0])
E2 = np.array([1.000000004, 2.000000004])
f = convert_unit(1., 'eV', 'J')
check("convert_unit(E1, 'eV', 'J') against E1*factor", convert_unit(E1, 'eV', 'J'), E1 * f)
check("convert_unit(E2, 'eV', 'J') against E2*factor", convert_unit(E2, 'eV', 'J'), E2 * f)
# invertible on the long grid
back = convert_unit(convert_unit(T2, 'K', 'F'), 'F', 'K')
check("F->K of K->F of T2 against T2", back, T2, rtol=1e-9)
if bad:
    print('WRONG: %d conversions return the result of another argument' % len(bad))
    sys.exit(1)
print('ok')
