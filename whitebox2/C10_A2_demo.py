"""C10_A2: references described by a descriptor dictionary other than the elements (functional groups); the species
that are adjusted carry that dictionary and no elemental composition (elements=None is the default of StatMech).
Property: 'over 1-5 descriptors (elements or another descriptor dictionary)', 'applying them to each reference species
reproduces its experimental enthalpy', 'adds to H and G of any species an energy that is linear in its composition'.
exit 1 / prints WRONG when a referenced species is not shifted, exit 0 otherwise.  Tree taken from PYTHONPATH."""
import sys
import warnings
from pmutt.empirical.references import Reference, References
from pmutt.statmech import StatMech, presets
from pmutt import constants as c

warnings.simplefilter('ignore')
T0 = 298.15
RT = c.R('J/mol/K') * T0

data = [  # name, groups, DFT energy / eV, experimental enthalpy of formation / kJ/mol
    ('ethanol', {'CH3': 1, 'CH2': 1, 'OH': 1}, -46.90, -234.8),
    ('methanol', {'CH3': 1, 'OH': 1}, -30.25, -201.0),
    ('ethane', {'CH3': 2}, -40.60, -83.8)]

ref_species = []
for name, groups, E, H in data:
    sm = StatMech(potentialenergy=E, **presets['electronic'])
    r = Reference(name=name, model=sm, T_ref=T0, HoRT_ref=H * 1000. / RT)
    r.groups = groups
    ref_species.append(r)
refs = References(references=ref_species, descriptor='groups')
print('offsets:', {k: round(float(v), 4) for k, v in refs.offset.items()})

bad = 0
for (name, groups, E, H), r in zip(data, ref_species):
    sp = StatMech(name=name, potentialenergy=E, references=refs, **presets['electronic'])
    sp.groups = groups                      # the composition the references are described by
    with_refs = sp.get_HoRT(T=T0)
    without = sp.get_HoRT(T=T0, use_references=False)
    expected_shift = -sum(refs.offset[g] * n for g, n in groups.items())
    ok = abs(with_refs - r.HoRT_ref) < 1e-8 * abs(r.HoRT_ref) and \
        abs((with_refs - without) - expected_shift) < 1e-8 * abs(expected_shift)
    dH = sp.get_H(T=500., units='kJ/mol') - sp.get_H(T=500., units='kJ/mol', use_references=False)
    ok = ok and abs(dH - expected_shift * RT / 1000.) < 1e-8 * abs(dH + 1.)
    print('%-9s H/RT(T_ref) with references = %12.5f  experimental = %12.5f  shift of H at 500 K = %10.3f kJ/mol '
          '(expected %10.3f)  %s' % (name, with_refs, r.HoRT_ref, dH, expected_shift * RT / 1000.,
                                      'ok' if ok else 'WRONG'))
    bad += not ok
sys.exit(1 if bad else 0)
