"""C05_A3: an element count of exactly 100 (quantifier: "counts 1-999").
Property: "identical names, phases and element counts"; "composition in columns 25-44, phase in column 45",
"records numbered 1-4 in column 80".  Exit 0 = right, exit 1 = WRONG.
"""
import sys

from pmutt.empirical.nasa import Nasa
from pmutt.io.thermdat import read_thermdat, write_thermdat
import os
import tempfile

a1 = [4.04618796e+00, -6.87238823e-04, 5.27316255e-06, -4.19869217e-09, 1.12691457e-12, -3.02864170e+04,
      -2.50354790e-01]
a2 = [2.41854323e+00, 3.35448922e-03, -9.66398101e-07, 1.34441829e-10, -7.18940063e-15, -2.97582484e+04,
      8.37839787e+00]
bad = False
for elements in ({'C': 100, 'H': 202}, {'Pt': 100, 'C': 1, 'O': 1}, {'C': 99, 'H': 200}, {'C': 101, 'H': 204}):
    sp = Nasa(name='SLAB', elements=elements, phase='S', T_low=200., T_mid=1000., T_high=3500., a_low=a1,
              a_high=a2)
    fd, path = tempfile.mkstemp(suffix='.thermdat')
    os.close(fd)
    try:
        write_thermdat([sp], filename=path, write_date=False)
        with open(path) as f_ptr:
            rec1 = f_ptr.readlines()[2]
        try:
            back = read_thermdat(path)
            got = back[0].elements if len(back) == 1 else '%d species' % len(back)
            phase = back[0].phase if len(back) == 1 else None
        except Exception as e:
            got, phase = '%s: %s' % (type(e).__name__, e), None
    finally:
        os.remove(path)
    ok = got == elements and phase == 'S' and len(rec1) == 81 and rec1[79] == '1' and rec1[44] == 'S'
    print(repr(rec1))
    print('   written %s, read back %s, phase column 45: %r, record length %d -> %s'
          % (elements, got, rec1[44], len(rec1) - 1, 'ok' if ok else 'WRONG'))
    bad = bad or not ok
sys.exit(1 if bad else 0)
