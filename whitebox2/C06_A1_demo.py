"""C06 A1: a mechanism on two catalyst sites whose reactions mention the adsorbates of the two sites alternately
(adsorption on the terrace, diffusion terrace -> step, reaction on the terrace): surf.inp must have ONE SITE block and
ONE BULK line per site, every adsorbate once under its own site.
Run: cd <tree> && PYTHONPATH=<tree> python C06_A1_demo.py   (exit 0 = right, exit 1 = WRONG)"""
import sys
from pmutt.empirical.nasa import Nasa
from pmutt.chemkin import CatSite
from pmutt.reaction import ChemkinReaction, Reactions
from pmutt.io import chemkin as ck


def nasa(name, phase, elements, h, s, cat_site=None, n_sites=None):
    a = [4., 0., 0., 0., 0., h, s]
    return Nasa(name=name, T_low=200., T_mid=1000., T_high=3000., a_low=a, a_high=a, phase=phase,
                elements=elements, cat_site=cat_site, n_sites=n_sites)


terr = CatSite(name='PT_TERRACE', site_density=2.1671e-09, density=21.45, bulk_specie='PT(B)')
step = CatSite(name='PT_STEP', site_density=4.4385e-10, density=21.45, bulk_specie='PT(B2)')
sp = {s.name: s for s in [
    nasa('H2', 'G', {'H': 2}, -1000., 10.),
    nasa('H(S)', 'S', {'H': 1, 'PT': 1}, -4000., 1., terr, 1),
    nasa('O(S)', 'S', {'O': 1, 'PT': 1}, -14000., 1.5, terr, 1),
    nasa('OH(S)', 'S', {'O': 1, 'H': 1, 'PT': 1}, -20000., 2., terr, 1),
    nasa('PT(S)', 'S', {'PT': 1}, 0., 0., terr, 1),
    nasa('H(T)', 'S', {'H': 1, 'PT': 1}, -4500., 1.1, step, 1),
    nasa('PT(T)', 'S', {'PT': 1}, 0., 0., step, 1),
    nasa('TS1', 'S', {'O': 1, 'H': 1, 'PT': 2}, -15000., 2.5, terr, 2),
    nasa('TS3', 'S', {'H': 1, 'PT': 2}, -3000., 1.3, terr, 2)]}
rx = Reactions([
    ChemkinReaction(reactants=[sp['H2'], sp['PT(S)']], reactants_stoich=[1, 2], products=[sp['H(S)']],
                    products_stoich=[2], is_adsorption=True, sticking_coeff=0.3, beta=0.),
    ChemkinReaction(reactants=[sp['H(S)'], sp['PT(T)']], reactants_stoich=[1, 1],
                    products=[sp['H(T)'], sp['PT(S)']], products_stoich=[1, 1],
                    transition_state=[sp['TS3']], transition_state_stoich=[1], beta=1.),
    ChemkinReaction(reactants=[sp['H(S)'], sp['O(S)']], reactants_stoich=[1, 1],
                    products=[sp['OH(S)'], sp['PT(S)']], products_stoich=[1, 1],
                    transition_state=[sp['TS1']], transition_state_stoich=[1], beta=1.)])
text = ck.write_surf(reactions=rx, T=500., P=1., act_method_name='get_G_act')
lines = [l for l in text.split('\n') if not l.startswith('!')]
block = lines[:lines.index('END') + 1]
print('\n'.join(block))
# take the site blocks apart: {site name: [adsorbates]} in file order, SITE and BULK lines counted
found, cur, n_site, n_bulk = [], None, {}, {}
for l in block:
    if l.startswith('SITE/'):
        cur = l.split('/')[1]
        n_site[cur] = n_site.get(cur, 0) + 1
    elif l.startswith('BULK'):
        b = l.split()[1].split('/')[0]
        n_bulk[b] = n_bulk.get(b, 0) + 1
    elif l.strip().endswith('/'):
        found.append((cur, l.strip().split('/')[0]))
want = sorted([('PT_TERRACE', 'PT(S)'), ('PT_TERRACE', 'H(S)'), ('PT_TERRACE', 'O(S)'), ('PT_TERRACE', 'OH(S)'),
               ('PT_STEP', 'PT(T)'), ('PT_STEP', 'H(T)')])
ok = n_site == {'PT_TERRACE': 1, 'PT_STEP': 1} and n_bulk == {'PT(B)': 1, 'PT(B2)': 1} and sorted(found) == want
print('SITE lines per site: %s (expected 1 each)' % n_site)
print('BULK lines per bulk species: %s (expected 1 each)' % n_bulk)
print('adsorbates found: %s' % found)
if not ok:
    print('WRONG')
    sys.exit(1)
print('right')
