"""C19 / A5: grids that start at zero (np.linspace(0, ...) is the usual way to write one). At P = 0 (or T = 0) the
energy of a reaction with a gas on both sides is inf - inf = NaN: that candidate has no energy there and the stable
phase is the lowest of the others - and the two-parameter scan must report the same phase as the one-parameter scan."""
import sys
import warnings
import numpy as np
from pmutt import constants as c
from pmutt.reaction import Reaction
from pmutt.reaction.phasediagram import PhaseDiagram

warnings.simplefilter('ignore')
np.seterr(all='ignore')


class Sp:
    """species with an ideal-gas like Gibbs energy depending on T and P"""
    def __init__(self, name, h, s, elements, gas=False):
        self.name, self.h, self.s, self.elements, self.gas = name, h, s, elements, gas
        self.phase = 'G' if gas else 'S'

    def get_GoRT(self, T=298.15, P=1., **kwargs):
        return self.h / T - self.s + (np.log(P) if self.gas else 0.)

    def get_G(self, units, T=298.15, **kwargs):
        return self.get_GoRT(T=T, **kwargs) * T * c.R('{}/K'.format(units))


sp = {'M': Sp('M', 0., 0., {'M': 1}), 'O2': Sp('O2', 0., 25., {'O': 2}, gas=True),
      'H2': Sp('H2', 0., 16., {'H': 2}, gas=True), 'H2O': Sp('H2O', -29000., 23., {'H': 2, 'O': 1}, gas=True),
      'MO': Sp('MO', -30000., 5., {'M': 1, 'O': 1}), 'MO2': Sp('MO2', -52000., 9., {'M': 1, 'O': 2})}
# two ways to oxidise M: with O2, and with steam (gas on both sides)
rx = [Reaction.from_string(s, sp) for s in ('M = M', 'M + 0.5O2 = MO', 'M + O2 = MO2', 'M + 2H2O = MO2 + 2H2')]
nf = [1., 1., 1.5, 1.5]
T_grid = [900., 1500.]
P_grid = np.linspace(0., 1., 5)
bad = 0
pd = PhaseDiagram(rx, norm_factors=list(nf))
for units in (None, 'kJ/mol'):
    want = np.array([[[r.get_delta_GoRT(T=t, P=p) / f * (c.R(units + '/K') * t if units else 1.)
                       for p in P_grid] for t in T_grid] for r, f in zip(rx, nf)])
    wst = np.nanargmin(want, axis=0)            # the lowest of the candidates that have an energy
    G2, st2 = pd.get_GoRT_2D('T', T_grid, 'P', P_grid, G_units=units)
    st2 = np.asarray(st2).astype(int)
    st1 = np.array([[int(v) for v in pd.get_GoRT_1D('P', P_grid, G_units=units, T=t)[1]] for t in T_grid])
    ok = np.allclose(G2, want, rtol=1e-10, equal_nan=True) and np.array_equal(st2, wst) and np.array_equal(st1, st2)
    print('units=%s energies at (T=900, P=0): %s' % (units, want[:, 0, 0]))
    print('   stable 2D=%s  1D=%s  expected=%s  %s' % (st2.tolist(), st1.tolist(), wst.tolist(), 'ok' if ok else 'WRONG'))
    bad += not ok
sys.exit(1 if bad else 0)
