"""C03 part B: Nasa.from_model / Shomate.from_model of the tree on PYTHONPATH give bit-identical species to the
original recipe (commit dcdf1e7) carried out by hand: sample Cp/R on linspace(T_low, T_high, n_T) (one temperature at
a time when the model does not answer the grid element by element), take H/RT and S/R at the middle of the window and
hand everything to from_data BY KEYWORD.  Spread: ideal-gas and adsorbate StatMech models, constant-Cp and zero-Cp
species, model given as an object or as a class, name/T_low/T_high taken from the model, random windows, n_T, T_mid
None/scalar/list, every Shomate unit.  Exit 0 = identical everywhere."""
import sys
import warnings
import numpy as np
from ase.build import molecule
from pmutt import _is_iterable
from pmutt.statmech import StatMech, presets, trans, vib, rot, elec
from pmutt.empirical.nasa import Nasa
from pmutt.empirical.shomate import Shomate

warnings.simplefilter('ignore')


def same(x, y):
    x, y = np.asarray(x), np.asarray(y)
    return x.shape == y.shape and bool(np.all(x == y))


def by_hand(cls, model, name, T_low, T_high, n_T, **extra):
    T = np.linspace(T_low, T_high, n_T)
    try:
        CpoR = model.get_CpoR(T=T)
    except ValueError:
        CpoR = np.array([model.get_CpoR(T=T_i) for T_i in T])
    else:
        if not _is_iterable(CpoR) or len(CpoR) != len(T):
            CpoR = np.array([model.get_CpoR(T=T_i) for T_i in T])
    T_mean = (T_low + T_high) / 2.
    return cls.from_data(name=name, T=T, CpoR=CpoR, T_ref=T_mean, HoRT_ref=model.get_HoRT(T=T_mean),
                         SoR_ref=model.get_SoR(T=T_mean), model=model, elements=getattr(model, 'elements', None),
                         **extra)


rng = np.random.default_rng(3)
gas = dict(name='H2O', atoms=molecule('H2O'), symmetrynumber=2, spin=0, potentialenergy=-14.22,
           vib_wavenumbers=[3825.434, 3710.264, 1582.432], elements={'H': 2, 'O': 1})
models = [StatMech(**gas, **presets['idealgas']),
          StatMech(name='CO*', potentialenergy=-2.1, vib_wavenumbers=[2050., 420., 380., 370., 90., 85.],
                   **presets['harmonic']),
          StatMech(name='He', trans_model=trans.FreeTrans, n_degrees=3, molecular_weight=4.0),       # constant Cp
          StatMech(name='site', potentialenergy=-1.5, spin=1, **presets['electronic'])]           # zero Cp
for k in range(4):
    models.append(StatMech(name='ads%d' % k, potentialenergy=float(rng.uniform(-5, 0)),
                           vib_wavenumbers=list(rng.uniform(10., 4500., size=int(rng.integers(1, 12)))),
                           **presets['harmonic']))
n_cases = n_bad = 0


def cmp_nasa(a, b):
    return same(a.a_low, b.a_low) and same(a.a_high, b.a_high) and a.T_mid == b.T_mid and a.T_low == b.T_low \
        and a.T_high == b.T_high and a.name == b.name and a.model is b.model and a.elements == b.elements


def cmp_sho(a, b):
    return same(a.a, b.a) and a.units == b.units and a.T_low == b.T_low and a.T_high == b.T_high \
        and a.name == b.name and a.model is b.model and a.elements == b.elements


for case in range(120):
    m = models[case % len(models)]
    T_low = float(rng.uniform(100., 1500.))
    T_high = float(rng.uniform(T_low + 300., 3000.))
    n_T = int(rng.integers(15, 201))
    T_mid = [None, float(rng.uniform(T_low + 100., T_high - 100.)),
             sorted(rng.uniform(T_low + 100., T_high - 100., size=3).tolist())][case % 3]
    units = ['J/mol/K', 'cal/mol/K', 'eV/K', 'kJ/mol/K', 'kcal/mol/K', 'Eh/K'][case % 6]
    got = Nasa.from_model(model=m, name='sp%d' % case, T_low=T_low, T_high=T_high, n_T=n_T, T_mid=T_mid)
    want = by_hand(Nasa, m, 'sp%d' % case, T_low, T_high, n_T, T_mid=T_mid)
    ok1 = cmp_nasa(got, want)
    got = Shomate.from_model(model=m, name='sp%d' % case, T_low=T_low, T_high=T_high, n_T=n_T, units=units)
    want = by_hand(Shomate, m, 'sp%d' % case, T_low, T_high, n_T, units=units)
    ok2 = cmp_sho(got, want)
    n_cases += 2
    if not (ok1 and ok2):
        n_bad += 1
        print('DIFFERENT: case %d (%s) nasa %s shomate %s' % (case, m.name, ok1, ok2))

# name and window taken from the model
m = StatMech(**gas, **presets['idealgas'])
m.T_low, m.T_high = 250., 2250.
ok = cmp_nasa(Nasa.from_model(model=m), by_hand(Nasa, m, 'H2O', 250., 2250., 50, T_mid=None)) and \
    cmp_sho(Shomate.from_model(model=m), by_hand(Shomate, m, 'H2O', 250., 2250., 50, units='J/mol/K'))
n_cases += 2
if not ok:
    n_bad += 1
    print('DIFFERENT: name/T_low/T_high from the model')

# model given as a class (the form used by the test-suite): compare with the same model built first
kw = dict(trans_model=trans.FreeTrans, n_degrees=3, vib_model=vib.HarmonicVib, elec_model=elec.GroundStateElec,
          rot_model=rot.RigidRotor, potentialenergy=-14.2209, atoms=molecule('H2O'), symmetrynumber=2, spin=0,
          vib_wavenumbers=np.array([3825.434, 3710.264, 1582.432]))
obj = StatMech(name='H2O', elements={'H': 2, 'O': 1}, **kw)
a = Nasa.from_model(name='H2O', elements={'H': 2, 'O': 1}, phase='g', model=StatMech, T_low=100., T_mid=1610.97,
                    T_high=5000., **kw)
b = by_hand(Nasa, obj, 'H2O', 100., 5000., 50, T_mid=1610.97)
c_ = Shomate.from_model(name='H2O', elements={'H': 2, 'O': 1}, phase='g', model=StatMech, T_low=500., T_high=1700.,
                        **kw)
d = by_hand(Shomate, obj, 'H2O', 500., 1700., 50, units='J/mol/K')
ok = same(a.a_low, b.a_low) and same(a.a_high, b.a_high) and a.T_mid == b.T_mid and same(c_.a, d.a) \
    and a.phase == 'g' and c_.phase == 'g'
n_cases += 2
if not ok:
    n_bad += 1
    print('DIFFERENT: model given as a class')
print('%d species compared with the original recipe, %d differ' % (n_cases, n_bad))
sys.exit(1 if n_bad else 0)
