"""C09 / A4: a BEP transition state yields forward and reverse barriers whose difference is the reaction enthalpy
(delta descriptors), the same barrier whether taken from the relation or from the reaction's transition-state
enthalpy - for every slope in [0, 1] and intercept in [0, 60] kcal/mol, exothermic steps included.
Exit 1 / WRONG when E_act(fwd) - E_act(rev) != delta H."""
import sys
import numpy as np
from pmutt import constants as c
from pmutt.statmech import StatMech, presets
from pmutt.reaction import Reaction
from pmutt.reaction.bep import BEP


def adsorbate(name, E, *wavenumbers):
    return StatMech(name=name, potentialenergy=E, vib_wavenumbers=list(wavenumbers), **presets['harmonic'])


T = 500.
bad = []
for desc in ('delta_H', 'rev_delta_H', 'delta_E', 'rev_delta_E'):
    for slope, icpt in ((0.3, 0.), (0.5, 5.), (0.9, 20.), (0.5, 20.)):
        bep = BEP(slope=slope, intercept=icpt, name='bep', descriptor=desc)
        sp = {'A': adsorbate('A', -0.2, 450., 1200., 3100.), 'B': adsorbate('B', -0.4, 300., 900.),
              'C': adsorbate('C', -1.1, 250., 700., 1500., 2900.), 'bep': bep}
        rxn = Reaction.from_string('A + B = bep = 2C', sp)          # strongly exothermic step
        Ef = bep.get_E_act(units='kcal/mol', reaction=rxn, rev=False, T=T)
        Er = bep.get_E_act(units='kcal/mol', reaction=rxn, rev=True, T=T)
        d = (rxn.get_delta_H if desc.endswith('H') else rxn.get_delta_E)(units='kcal/mol', T=T)
        via_f = rxn.get_delta_H(units='kcal/mol', T=T, act=True)
        ok = np.isclose(Ef - Er, d, rtol=1e-10) and np.isclose(via_f, Ef, rtol=1e-10)
        print('%-11s slope=%.1f intercept=%4.1f: E_fwd=%9.4f E_rev=%9.4f  E_fwd-E_rev=%9.4f  reaction %s=%9.4f  '
              'H_TS-H_IS=%9.4f %s' % (desc, slope, icpt, Ef, Er, Ef - Er, desc[-1], d, via_f, '' if ok else '<-- WRONG'))
        if not ok:
            bad.append((desc, slope, icpt))
if bad:
    print('WRONG: forward minus reverse BEP barrier is not the reaction enthalpy/energy for %d cases' % len(bad))
    sys.exit(1)
print('ok')
