"""C08 B1 (equivalence): _get_specie_kwargs with the except clause naming UnboundLocalError (what Python raises for the
unassigned local `specie_specific_kwargs`) instead of its base class NameError.

The tree's function is compared with a verbatim copy of the original on a spread of inputs (results and exceptions),
and reaction values with and without blocks are compared with sums over the species.  Exit 0 on both trees.
"""
import itertools
import sys
import numpy as np
import pmutt
from pmutt.empirical.nasa import Nasa
from pmutt.reaction import Reaction, ChemkinReaction


def original(specie_name, **kwargs):
    specie_kwargs = kwargs.copy()
    # Remove any keys related to other species
    for key in kwargs.keys():
        if 'kwargs' in key:
            temp_kwargs = specie_kwargs.pop(key, {})
            if key == '{}_kwargs'.format(specie_name):
                specie_specific_kwargs = temp_kwargs
    # See if there was an entry for the specific species
    try:
        specie_kwargs.update(specie_specific_kwargs)
    except (KeyError, TypeError, NameError):
        pass
    return specie_kwargs


def outcome(f, name, kw):
    try:
        return ('value', f(name, **kw))
    except Exception as e:                                  # noqa
        return ('raised', type(e).__name__)


class Weird:
    """has keys() but fails on item access: dict.update raises KeyError"""
    def keys(self):
        return ['a']

    def __getitem__(self, k):
        raise KeyError(k)


names = ['H2', 'H2O', 'H2O_TS', 'PT(S)', 'h2o', '', 'kwargs', 5]
blocks = [{'P': 2.}, {'T': 800., 'P': 3.}, {}, None, 7, [('P', 4.)], 'ab', 'abc', [1, 2], Weird(), {'H2_kwargs': {'x': 1}}]
shared = [{}, {'T': 500.}, {'T': 500., 'P': 1.}, {'T': 500., 'V': 2., 'include_ZPE': True}]
bad = n = 0
for nm, sh in itertools.product(names, shared):
    keysets = [[], ['H2_kwargs'], ['H2O_kwargs', 'H2_kwargs'], ['%s_kwargs' % nm], ['%s_kwargs' % nm, 'O2_kwargs'],
               ['kwargs'], ['my_kwargs_x', '%s_kwargs' % nm]]
    for ks in keysets:
        for combo in itertools.product(blocks, repeat=min(len(ks), 2)):
            for order in (0, 1):
                kw = {}
                blk = {k: combo[i % len(combo)] for i, k in enumerate(ks)} if ks else {}
                parts = [list(sh.items()), list(blk.items())]
                for part in (parts if order == 0 else parts[::-1]):
                    kw.update(part)
                a, b = outcome(original, nm, dict(kw)), outcome(pmutt._get_specie_kwargs, nm, dict(kw))
                n += 1
                if a != b:
                    bad += 1
                    print('DIFFERENT for %r %r: original %r, tree %r' % (nm, kw, a, b))

# reaction level
def nasa(name, a):
    return Nasa(name=name, T_low=200., T_mid=1000., T_high=3500., elements={'H': 2}, phase='G', a_low=a, a_high=a)
H2 = nasa('H2', [2.34433112E+00, 7.98052075E-03, -1.94781510E-05, 2.01572094E-08, -7.37611761E-12, -9.17935173E+02, 6.83010238E-01])
O2 = nasa('O2', [3.78245636E+00, -2.99673416E-03, 9.84730201E-06, -9.68129509E-09, 3.24372837E-12, -1.06394356E+03, 3.65767573E+00])
H2O = nasa('H2O', [4.19864056E+00, -2.03643410E-03, 6.52040211E-06, -5.48797062E-09, 1.77197817E-12, -3.02937267E+04, -8.49032208E-01])
for cls in (Reaction, ChemkinReaction):
    rxn = cls(reactants=[H2, O2], reactants_stoich=[1., 0.5], products=[H2O], products_stoich=[1.])
    for T in (300., 500., 900.):
        for blk in ({}, {'H2O_kwargs': {'T': 800.}}, {'H2_kwargs': {'T': 350.}, 'O2_kwargs': {'T': 450.}}, {'zz_kwargs': {'T': 1.}}):
            t = lambda nm: blk.get(nm + '_kwargs', {}).get('T', T)
            for X in ('HoRT', 'SoR', 'GoRT', 'CpoR'):
                want = getattr(H2O, 'get_' + X)(T=t('H2O')) - getattr(H2, 'get_' + X)(T=t('H2')) \
                    - 0.5 * getattr(O2, 'get_' + X)(T=t('O2'))
                got = getattr(rxn, 'get_delta_' + X)(T=T, **blk)
                n += 1
                if not np.isclose(got, want, rtol=1e-12, atol=1e-12):
                    bad += 1
                    print('DIFFERENT %s delta_%s T=%s %r: %r vs %r' % (cls.__name__, X, T, blk, got, want))
print('%d comparisons, %d differences' % (n, bad))
sys.exit(1 if bad else 0)
