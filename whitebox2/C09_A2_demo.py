"""C09 / A2: the pre-exponential factor of a Chemkin surface step WITHOUT the entropic contribution
(include_entropy=False - what write_surf asks for whenever the activation energy is a Gibbs energy) still scales as
(site density)^(1 - n_surf):  A = (kB/h) / (effective site density)^(n_surf-1).  Exit 1 / WRONG when the scaling is lost."""
import sys
import numpy as np
from pmutt import constants as c
from pmutt.empirical.nasa import Nasa
from pmutt.chemkin import CatSite
from pmutt.reaction import ChemkinReaction


def nasa(name, H, S, phase='G', cat_site=None, cp=3.5):
    a = np.array([cp, 0., 0., 0., 0., H, S])
    return Nasa(name=name, T_low=100., T_mid=1000., T_high=3000., a_low=a, a_high=a, phase=phase, cat_site=cat_site)


T = 500.
kbh = c.kb('J/K') / c.h('J s')
site = CatSite(name='RU(S)', site_density=2.5e-9, density=12.1, bulk_specie='RU(B)')
sp = {'H2': nasa('H2', 0., 10.),
      'RU(S)': nasa('RU(S)', 0., 0., 'S', site, cp=0.),
      'H(S)': nasa('H(S)', -3000., 1., 'S', site, cp=1.),
      'O(S)': nasa('O(S)', -2000., 1., 'S', site, cp=1.),
      'OH(S)': nasa('OH(S)', -4000., 2., 'S', site, cp=1.5),
      'TS(S)': nasa('TS(S)', 2000., 6., 'S', site, cp=2.5)}
bad = []
for rstr, nsurf in (('H(S) = TS(S) = H(S)', 1),
                    ('H(S) + O(S) = TS(S) + RU(S) = OH(S) + RU(S)', 2),
                    ('H(S) + O(S) = OH(S) + RU(S)', 2),
                    ('H2 + 2RU(S) = TS(S) + RU(S) = 2H(S)', 2),
                    ('2H(S) + O(S) = TS(S) + 2RU(S) = OH(S) + H(S) + RU(S)', 3)):
    rxn = ChemkinReaction.from_string(rstr, sp)
    for op, eff in (('sum', nsurf * 2.5e-9), ('min', 2.5e-9), ('max', 2.5e-9), ('mean', 2.5e-9)):
        got = rxn.get_A(T=T, include_entropy=False, sden_operation=op)
        want = kbh / eff**(nsurf - 1)
        ok = np.isclose(got, want, rtol=1e-9)
        if op == 'sum' or not ok:
            print('%-55s n_surf=%d op=%-4s A(include_entropy=False) = %.6e  expected (kB/h)/sden^(n_surf-1) = %.6e %s'
                  % (rstr, nsurf, op, got, want, '' if ok else '  <-- WRONG'))
        if not ok:
            bad.append((rstr, op))
if bad:
    print('WRONG: %d pre-exponential factors without entropy are not scaled by the site density' % len(bad))
    sys.exit(1)
print('ok')
