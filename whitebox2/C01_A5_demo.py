"""C01 A5: an imaginary mode is replaced by imaginary_substitute - the value given, whatever number type the
wavenumbers were typed in (integers are what users type: [3825, 3710, 1582, -200]).  The model is compared with the
textbook harmonic-oscillator sums over the modes that count.  exit 1 / WRONG otherwise."""
import sys
import numpy as np
from pmutt import constants as c
from pmutt.statmech.vib import HarmonicVib, QRRHOVib


def textbook(nus, T):
    x = np.array([c.h('J s') * c.c('cm/s') * nu / c.kb('J/K') for nu in nus]) / T
    return (np.sum(x / 2. + x / np.expm1(x)), np.sum(x / np.expm1(x) - np.log1p(-np.exp(-x))),
            np.sum(x**2 * np.exp(x) / np.expm1(x)**2))


bad = 0
sub = 12.5
for given in ([3825, 3710, 1582, -200], [3825., 3710., 1582., -200.], (3825, 3710, 1582, -200),
              np.array([3825, 3710, 1582, -200])):
    count = [float(w) if w > 0 else sub for w in given]
    for T in (100., 298.15, 2000.):
        vib = HarmonicVib(given, imaginary_substitute=sub)
        got = (vib.get_UoRT(T=T), vib.get_SoR(T=T), vib.get_CvoR(T=T))
        want = textbook(count, T)
        ok = np.allclose(got, want, rtol=1e-9)
        print('HarmonicVib(%-40r, sub=%g) T=%7.2f  U/RT,S/R,Cv/R = %s textbook %s  %s'
              % (given, sub, T, np.round(got, 5), np.round(want, 5), 'ok' if ok else 'WRONG'))
        bad += not ok
    a = QRRHOVib(given, imaginary_substitute=sub).get_SoR(T=298.15)
    b = QRRHOVib(count).get_SoR(T=298.15)
    ok = abs(a - b) < 1e-9
    print('QRRHOVib S/R %.6f vs model of the modes that count %.6f  %s' % (a, b, 'ok' if ok else 'WRONG'))
    bad += not ok
sys.exit(1 if bad else 0)
