"""C08 B2 (equivalence): _get_states picks the end states by indexing a pair with the truth value of `rev`
(True/False are the integers 1/0) instead of an if/else.  Compared with a verbatim copy of the original for every kind
of flag, and on reaction values for the four (rev, act) combinations.  Exit 0 on both trees.
"""
import itertools
import sys
import numpy as np
from ase.build import molecule
from pmutt.statmech import StatMech, presets
from pmutt import reaction as rxn_mod
from pmutt.reaction import Reaction
from pmutt.omkm.reaction import SurfaceReaction


def original(rev, act):
    if rev:
        initial_state = 'products'
        final_state = 'reactants'
    else:
        initial_state = 'reactants'
        final_state = 'products'
    # Overwrites the final state if necessary
    if act:
        final_state = 'transition state'
    return initial_state, final_state


def outcome(f, *a):
    try:
        return ('value', f(*a))
    except Exception as e:                                  # noqa
        return ('raised', type(e).__name__)


flags = [True, False, 0, 1, 2, -1, 0.0, 2.5, None, '', 'no', [], [0], {}, {'a': 1}, np.bool_(True), np.bool_(False),
         np.int64(0), np.int64(3), np.float64(0.), np.array(True), np.array([False]), np.array([1, 2]), np.array([]),
         float('nan'), object()]
bad = n = 0
for r, a in itertools.product(flags, flags):
    x, y = outcome(original, r, a), outcome(rxn_mod._get_states, r, a)
    n += 1
    if x != y:
        bad += 1
        print('DIFFERENT _get_states(%r, %r): original %r, tree %r' % (r, a, x, y))

ig = presets['idealgas']
H2O = StatMech(name='H2O', atoms=molecule('H2O'), symmetrynumber=2, vib_wavenumbers=[3825.434, 3710.2642, 1582.432],
               potentialenergy=-6.7598, spin=0., **ig)
H2 = StatMech(name='H2', atoms=molecule('H2'), symmetrynumber=2, vib_wavenumbers=[4306.1793],
              potentialenergy=-14.2209, spin=0., **ig)
O2 = StatMech(name='O2', atoms=molecule('O2'), symmetrynumber=2, vib_wavenumbers=[2205.], potentialenergy=-9.862407,
              spin=1., **ig)
TS = StatMech(name='H2O_TS', atoms=molecule('H2O'), symmetrynumber=1., vib_wavenumbers=[4000., 3900., 1600.],
              potentialenergy=-5.7598, spin=0., **ig)
for cls in (Reaction, SurfaceReaction):
    rxn = cls(reactants=[H2, O2], reactants_stoich=[1., 0.5], products=[H2O], products_stoich=[1.],
              transition_state=[TS], transition_state_stoich=[1.])
    for T, P in ((300., 1.), (650., 7.)):
        for X in ('q', 'CvoR', 'CpoR', 'UoRT', 'HoRT', 'SoR', 'FoRT', 'GoRT', 'EoRT'):
            st = {s: getattr(rxn, 'get_%s_state' % X)(state=s, T=T, P=P) for s in ('reactants', 'products', 'ts')}
            for rev, act in itertools.product((False, True, 0, 1, np.bool_(True)), repeat=2):
                i = 'products' if rev else 'reactants'
                f = 'ts' if act else ('reactants' if rev else 'products')
                want = st[f] / st[i] if X == 'q' else st[f] - st[i]
                got = getattr(rxn, 'get_delta_' + X)(rev=rev, act=act, T=T, P=P)
                n += 1
                if got != want:
                    bad += 1
                    print('DIFFERENT %s.get_delta_%s(rev=%r, act=%r): %r vs %r' % (cls.__name__, X, rev, act, got, want))
        for rev, act in itertools.product((False, True), repeat=2):
            n += 1
            i = 'products' if rev else 'reactants'
            f = 'ts' if act else ('reactants' if rev else 'products')
            want = np.exp(-(rxn.get_GoRT_state(state=f, T=T, P=P) - rxn.get_GoRT_state(state=i, T=T, P=P)))
            if rxn.get_Keq(rev=rev, act=act, T=T, P=P) != want:
                bad += 1
                print('DIFFERENT Keq', rev, act)
print('%d comparisons, %d differences' % (n, bad))
sys.exit(1 if bad else 0)
