"""C07 A4: the same model written twice, each time in another unit system (first the CTI file in mol and cm, then the
thermo YAML file in molecules and m): the pre-exponential factor of a surface step must be in the unit system of the
file it stands in.  Run with PYTHONPATH=<tree>."""
import re
import sys
import numpy as np
import yaml
from pmutt import constants as c
from pmutt.empirical.nasa import Nasa
from pmutt.omkm.phase import IdealGas, InteractingInterface
from pmutt.omkm.reaction import SurfaceReaction
from pmutt.omkm.units import Units
from pmutt.io.omkm import write_cti, write_thermo_yaml


def nasa(name, elements, hf, n_sites=None):
    a = np.array([3.5, 1e-3, 0., 0., 0., hf, 4.0])
    return Nasa(name=name, T_low=200., T_mid=1000., T_high=3000., a_low=a, a_high=a.copy(),
                elements=elements, n_sites=n_sites)


PT_S = nasa('PT(S)', {'Pt': 1}, 0., 1)
H_S = nasa('H(S)', {'H': 1, 'Pt': 1}, -3000., 1)
NH_S = nasa('NH(S)', {'N': 1, 'H': 1, 'Pt': 1}, -4000., 1)
NH2_S = nasa('NH2(S)', {'N': 1, 'H': 2, 'Pt': 1}, -5500., 1)
sden = 2.5e-9      # mol/cm2
surf = InteractingInterface(name='terrace', species=[PT_S, H_S, NH_S, NH2_S], site_density=sden, phases=[])
rxn = SurfaceReaction(reactants=[NH2_S, PT_S], reactants_stoich=[1., 1.], products=[NH_S, H_S],
                      products_stoich=[1., 1.])


def A_cti(text):
    return float(re.search(r'\[\s*([-+0-9.eE]+),', text[text.index('surface_reaction'):]).group(1))


def A_yaml(text):
    docs = [d for d in yaml.safe_load_all(text.replace('\n\n-', '\n-')) if d and 'reactions' in d]
    return docs[0]['reactions'][0]['rate-constant']['A']


kbh = c.kb('J/K') / c.h('J s')
want_mol_cm = kbh / (2 * sden)                                  # per (mol/cm2)
want_molec_m = kbh / (2 * sden * c.Na * 1e4)                    # per (molecules/m2)
got1 = A_cti(write_cti(reactions=[rxn], units=Units(quantity='mol', length='cm'), T=500.))
got2 = A_yaml(write_thermo_yaml(reactions=[rxn], units=Units(quantity='molec', length='m'), T=500.))
print('CTI  (mol, cm):   A = %.5e, expected %.5e' % (got1, want_mol_cm))
print('YAML (molec, m):  A = %.5e, expected %.5e' % (got2, want_molec_m))
ok = abs(got1 / want_mol_cm - 1) < 1e-4 and abs(got2 / want_molec_m - 1) < 1e-4
print('OK' if ok else 'WRONG: the second file carries a pre-exponential factor that is not in its unit system')
sys.exit(0 if ok else 1)
