"""C03 (shared state between fits): two zero-Cp species fitted one after the other with Shomate.from_model /
from_data; each must reproduce ITS OWN reference enthalpy and entropy at T_ref.  Exit 1 / prints WRONG otherwise."""
import sys
import warnings
import numpy as np
from pmutt.statmech import StatMech, presets
from pmutt.empirical.shomate import Shomate

warnings.simplefilter('ignore')
bad = False

# (a) from_model: two electronic-only (zero heat capacity) species, e.g. two surface sites / lattice references
m1 = StatMech(name='A', potentialenergy=-1.5, spin=0, **presets['electronic'])
m2 = StatMech(name='B', potentialenergy=-3.0, spin=1, **presets['electronic'])
T_low, T_high = 300., 1200.
T_ref = (T_low + T_high) / 2.
s1 = Shomate.from_model(model=m1, name='A', T_low=T_low, T_high=T_high, n_T=40)
h1_before, S1_before = s1.get_HoRT(T=T_ref), s1.get_SoR(T=T_ref)
s2 = Shomate.from_model(model=m2, name='B', T_low=T_low, T_high=T_high, n_T=40)
for sp, m in ((s1, m1), (s2, m2)):
    dH = abs(sp.get_HoRT(T=T_ref) - m.get_HoRT(T=T_ref))
    dS = abs(sp.get_SoR(T=T_ref) - m.get_SoR(T=T_ref))
    print('from_model %s: H/RT(T_ref) fit %.6f source %.6f | S/R(T_ref) fit %.6f source %.6f'
          % (sp.name, sp.get_HoRT(T=T_ref), m.get_HoRT(T=T_ref), sp.get_SoR(T=T_ref), m.get_SoR(T=T_ref)))
    if dH > 1e-8 or dS > 1e-8:
        bad = True
print('species A right after its own fit: H/RT(T_ref) = %.6f, S/R(T_ref) = %.6f' % (h1_before, S1_before))

# (b) from_data, every fitting unit
T = np.linspace(200., 900., 15)
for units in ('J/mol/K', 'cal/mol/K', 'eV/K'):
    a = Shomate.from_data(name='a', T=T, CpoR=np.zeros(15), T_ref=500., HoRT_ref=-10., SoR_ref=2.5, units=units)
    b = Shomate.from_data(name='b', T=T, CpoR=np.zeros(15), T_ref=350., HoRT_ref=-50., SoR_ref=7.5, units=units)
    ha, sa = a.get_HoRT(T=500.), a.get_SoR(T=500.)
    print('from_data %-9s first species: H/RT(500 K) = %.6f (given -10), S/R(500 K) = %.6f (given 2.5)' % (units, ha, sa))
    if abs(ha + 10.) > 1e-8 or abs(sa - 2.5) > 1e-8:
        bad = True
print('WRONG: a fitted species lost its reference enthalpy/entropy when another species was fitted' if bad else 'OK')
sys.exit(1 if bad else 0)
