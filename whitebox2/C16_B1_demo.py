"""C16 B1: the amounts are handed out in an array of their own (np.array(sol.x)) instead of the solver's array
Equivalence demo: the composition returned by the tree on PYTHONPATH is compared, bit for bit, with a reference
implementation embedded here (the algorithm of pmutt/equilibrium/_equilibrium.py at dcdf1e7, calling scipy directly)
on a spread of networks, feeds, temperatures and pressures, including inputs on which the solver gives up (the
warning must be the same too) and repeated calls on one object. Exit 0 when everything agrees, 1 otherwise."""
import os
import sys
import warnings
from itertools import repeat
import numpy as np
from scipy.optimize import minimize
import pmutt
from pmutt import constants as c
from pmutt.io.thermdat import read_thermdat
from pmutt.equilibrium import Equilibrium

TD = os.path.join(os.path.dirname(pmutt.__file__), 'tests', 'equilibrium', 'thermdat_equilibrium_unittest.txt')
model = read_thermdat(TD, 'dict')
model_list = read_thermdat(TD, 'list')


class Ref:
    """Equilibrium as of dcdf1e7"""

    def __init__(self, model, network):
        self.model = model
        self.elements = []
        self.species = list(network.keys())
        feed = np.array(list(network.values()))
        self.mol_elem = np.zeros([len(self.species), 0])
        for i, x in enumerate(self.species):
            ele = self.model[x].elements
            for y in ele:
                try:
                    self.elements.index(y)
                except ValueError:
                    self.elements.append(y)
                    if len(self.elements) > np.size(self.mol_elem, 1):
                        self.mol_elem = np.append(self.mol_elem, np.zeros([len(self.species), 1]), 1)
                self.mol_elem[i, self.elements.index(y)] = self.model[x].elements[y]
        self.elements = list(np.array(self.elements)[sum(self.mol_elem, 0) > 0])
        self.mol_elem = self.mol_elem[:, sum(self.mol_elem, 0) > 0]
        self.ele_feed = feed.dot(self.mol_elem)

    def _objective(self, x, *args):
        s = 0.0
        nT = sum(x)
        g = np.array(args[0])
        p = args[1]
        for i in range(len(x)):
            s += x[i]*(g[i] + np.log(x[i]*p/nT))
        return s

    def _objective_jac(self, x, *args):
        s = np.zeros_like(x)
        nT = sum(x)
        g = np.array(args[0])
        p = args[1]
        for i in range(len(x)):
            s[i] = g[i] + np.log(x[i]*p/nT)
        return s

    def get_net_comp(self, T, P):
        guess = list(repeat(1.0, len(self.species)))
        b = [1e-20, sum(self.ele_feed)]
        bounds = list(repeat(b, len(self.species)))
        con = {'type': 'eq', 'fun': lambda x: x.dot(self.mol_elem) - self.ele_feed,
               'jac': lambda x: self.mol_elem.T}
        gibbs = [self.model[x].get_GoRT(T=T) for x in self.species]
        sol = minimize(self._objective, guess, args=(gibbs, P*1.01325), jac=self._objective_jac, method='SLSQP',
                       options={'ftol': 1e-14, 'maxiter': 5000}, bounds=bounds, constraints=con)
        msg = None
        if not sol.success:
            msg = ('Gibbs energy minimization did not converge ({}). The composition returned may not be the '
                   'equilibrium composition.'.format(sol.message))
        return self.species, sol.x, sol.x/np.sum(sol.x), msg


def call(obj, T, P):
    with warnings.catch_warnings(record=True) as rec:
        warnings.simplefilter('always')
        r = obj.get_net_comp(T=T, P=P)
    return r, [str(w.message) for w in rec if issubclass(w.category, RuntimeWarning)
               and 'converge' in str(w.message)]


names = list(model)
rng = np.random.default_rng(16)
cases = [({'CH3CH2CH3': 1, 'H2O': 0.7, 'H2': 0, 'CH2CHCH3': 0, 'CH4': 0, 'CHCH': 0, 'CH2CH2': 0, 'CH3CH3': 0,
           'CO2': 0, 'CO': 0}, [(500, 1.0), (800., 0.05), (1500., 100.)]),
         ({'CH4': 1, 'H2O': 2, 'CO': 0, 'H2': 0, 'CO2': 0}, [(1000., 1.), (300., 0.01), (1000., 1.)]),
         ({'CH2CHCH3': 1.0, 'CH2CH2': 0.0, 'H2O': 2.0}, [(500., 1.), (700., 1.)]),         # solver gives up
         ({'H2O': 1.0, 'CH3CH3': 2.0}, [(1500., 10.)]),                                     # solver gives up
         ({'CH4': 1e-8, 'H2O': 1e-8, 'CO': 0, 'H2': 0, 'CO2': 0, 'CHCH': 0}, [(1000., 1.)])]
for _ in range(40):
    k = int(rng.integers(2, 11))
    sp = [str(s) for s in rng.choice(names, k, replace=False)]
    feed = {s: (float(rng.choice([0, 0, 0.5, 1, 2, 10])) if rng.random() < .7 else float(10**rng.uniform(-3, 2)))
            for s in sp}
    conds = [(float(rng.choice([300, 400, 500, 700, 1000, 1200, 1500])), float(10**rng.uniform(-2, 2)))
             for _ in range(2)]
    cases.append((feed, conds))
bad = 0
n = 0
for i, (network, conds) in enumerate(cases):
    ref = Ref(model, network)
    if len(ref.elements) == 0 or np.any(ref.ele_feed <= 0):
        continue                                    # outside the quantifier (an element missing in the feed)
    eq = Equilibrium(model_list if i % 3 == 2 else model, network)
    for T, P in conds:
        n += 1
        with warnings.catch_warnings():
            warnings.simplefilter('ignore')
            species, moles, frac, msg = ref.get_net_comp(T, P)
        r, msgs = call(eq, T, P)
        same = (list(r.species) == species and isinstance(r.moles, np.ndarray) and r.moles.dtype == moles.dtype
                and np.array_equal(r.moles, moles) and np.array_equal(r.mole_frac, frac)
                and r.T == T and r.P == P and msgs == ([msg] if msg else []))
        if not same:
            bad += 1
            print('DIFFERENT', network, T, P, r.moles, moles, msgs, msg)
print('%d calls compared, %d differ' % (n, bad))
sys.exit(1 if bad else 0)
