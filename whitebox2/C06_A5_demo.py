"""C06 A5: gas.inp written twice from the same reaction objects, at the same temperature and two pressures (two runs of
a pressure series).  The pre-exponential factor written must be the model's value at the requested conditions:
kB/h * exp(dS_act(T, P)/R) (entropy route, use_q=False: NASA polynomials have no partition function), and the
entropy of a gas species depends on the pressure.
Run: cd <tree> && PYTHONPATH=<tree> python C06_A5_demo.py   (exit 0 = right, exit 1 = WRONG)"""
import sys
import numpy as np
from pmutt import constants as c
from pmutt.empirical.nasa import Nasa
from pmutt.reaction import ChemkinReaction, Reactions
from pmutt.io import chemkin as ck


def nasa(name, elements, h, s):
    a = [4., 0., 0., 0., 0., h, s]
    return Nasa(name=name, T_low=200., T_mid=1000., T_high=3000., a_low=a, a_high=a, phase='G', elements=elements)


H2, O2, H2O = nasa('H2', {'H': 2}, -1000., 10.), nasa('O2', {'O': 2}, -900., 12.), nasa('H2O', {'H': 2, 'O': 1}, -30000., 11.)
TS = nasa('TS2', {'O': 2, 'H': 4}, 5000., 30.)
rxn = ChemkinReaction(reactants=[H2, O2], reactants_stoich=[2, 1], products=[H2O], products_stoich=[2],
                      transition_state=[TS], transition_state_stoich=[1], beta=1.)
rset = Reactions([rxn])
T = 600.
bad = False
for P in (1., 10.):
    text = ck.write_gas(nasa_species=[H2, O2, H2O], reactions=rset, T=T, P=P, act_method_name='get_E_act',
                        use_q=False, float_format=' .6E')
    line = [l for l in text.split('\n') if l.startswith('2H2+O2=2H2O')][0]
    A_written = float(line.split()[1])
    dS = TS.get_SoR(T=T, P=P) - 2. * H2.get_SoR(T=T, P=P) - O2.get_SoR(T=T, P=P)
    A_model = c.kb('J/K') / c.h('J s') * np.exp(dS)
    ok = abs(A_written - A_model) <= 1e-5 * A_model
    bad = bad or not ok
    print('T=%g K P=%4g bar  %s   A written %.6E, model kB/h exp(dS_act/R) = %.6E  %s'
          % (T, P, line, A_written, A_model, 'ok' if ok else 'WRONG'))
if bad:
    print('WRONG')
    sys.exit(1)
print('right')
