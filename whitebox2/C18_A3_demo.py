"""C18 A3: four- and five-digit suffixes under one prefix, the five-digit id listed first."""
import sys
from pmutt.cantera import _get_omkm_range


def expand(entries):
    out = set()
    for e in entries:
        e = e.strip('"')
        if ' to ' in e:
            a, b = e.split(' to ')
            ha, fa = a.rsplit('_', 1)
            hb, fb = b.rsplit('_', 1)
            assert ha == hb
            for k in range(int(fa), int(fb) + 1):
                # every member is spelled like the ends of the range
                out.add('%s_%s' % (ha, str(k).zfill(len(fa)) if len(fa) == len(fb) else str(k)))
        else:
            out.add(e)
    return out


class R:
    def __init__(self, id):
        self.id = id


bad = 0
cases = [['r_10000', 'r_9999'],
         ['r_10001', 'r_10000', 'r_9999', 'r_9998'],
         ['s_12000', 's_0002', 's_0003', 'r_0001'],
         ['r_9998', 'r_9999', 'r_10000', 'r_10001']]      # control: ascending (an instance of the checker)
for ids in cases:
    for objs in (ids, [R(i) for i in ids]):
        lst = _get_omkm_range(objs, format='list')
        st = _get_omkm_range(objs)
        got = expand(lst)
        ok = got == set(ids) and st == '[' + ', '.join(lst) + ']'
        print('%s %s -> %s%s' % ('ok   ' if ok else 'WRONG', ids, st, '' if ok else
                                 '   renamed/lost: %s, not given: %s' % (sorted(set(ids) - got), sorted(got - set(ids)))))
        bad += not ok
sys.exit(1 if bad else 0)
