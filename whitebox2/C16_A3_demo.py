"""C16 A3: solver tolerance ftol loosened from 1e-14 to 1e-10.
For every species present in non-trace amounts (mole fraction > 1e-6) the chemical potential g_i + ln(x_i P/n) must be
a linear combination of the element columns (mu = A.lambda): this is 'every reaction among species present in
non-trace amounts is at equilibrium'. Exit 1 / 'WRONG' when the residual exceeds 1e-4 (in units of RT) although
nothing was signalled."""
import os
import sys
import warnings
import numpy as np
import pmutt
from pmutt.io.thermdat import read_thermdat
from pmutt.equilibrium import Equilibrium

TD = os.path.join(os.path.dirname(pmutt.__file__), 'tests', 'equilibrium', 'thermdat_equilibrium_unittest.txt')
model = read_thermdat(TD, 'dict')
cases = [
    ({'H2': 10.0, 'H2O': 0.5, 'CH3CH2CH3': 0.0, 'CH3CH3': 10.0, 'CO2': 2.0, 'CH2CHCH3': 0.5, 'CO': 0.0, 'CH4': 0.0,
      'CHCH': 0.0, 'CH2CH2': 0.5}, 300., 1.),
    ({'CH2CH2': 10.0, 'CO': 2.0, 'CH4': 1.0, 'CH3CH3': 10.0, 'CH2CHCH3': 0.0, 'CO2': 0.0, 'H2O': 0.0,
      'CH3CH2CH3': 1.0}, 1000., 0.1),
    ({'CH2CH2': 0.5, 'H2': 2.0, 'CH3CH3': 10.0, 'CH2CHCH3': 10.0, 'CHCH': 2.0, 'CH4': 10.0, 'CH3CH2CH3': 0.0},
     300., 1.),
    # the stored test of the package, for comparison (fine with both tolerances)
    ({'CH3CH2CH3': 1, 'H2O': 0.7, 'H2': 0, 'CH2CHCH3': 0, 'CH4': 0, 'CHCH': 0, 'CH2CH2': 0, 'CH3CH3': 0, 'CO2': 0,
      'CO': 0}, 500., 1.),
]
wrong = False
for network, T, P in cases:
    eq = Equilibrium(model, network)
    with warnings.catch_warnings(record=True) as rec:
        warnings.simplefilter('always')
        r = eq.get_net_comp(T=T, P=P)
    signalled = any('converge' in str(w.message) for w in rec)
    n = np.asarray(r.moles, float)
    y = n/n.sum()
    g = np.array([model[s].get_GoRT(T=T) for s in r.species])
    mu = g + np.log(y*P*1.01325)
    keep = y > 1e-6
    A = eq.mol_elem[keep]
    lam = np.linalg.lstsq(A, mu[keep], rcond=None)[0]
    res = np.max(np.abs(A.dot(lam) - mu[keep]))
    G = float(np.sum(n*mu))
    print('%d species T=%g P=%g: total G/RT=%.6f, largest (deltaG + RT ln Q)/RT among non-trace species %.2e, '
          'signalled=%s' % (len(network), T, P, G, res, signalled))
    print('   mole fractions', dict(zip(r.species, np.round(y, 6))))
    if res > 1e-4 and not signalled:
        print('   WRONG: reactions among non-trace species are not at equilibrium and nothing was signalled')
        wrong = True
sys.exit(1 if wrong else 0)
