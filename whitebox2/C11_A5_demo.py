"""C11_A5: a transition state (one imaginary frequency, written as a negative wavenumber) through the real encoder/hook.
Exit 0 when the decoded vibrational model carries the wavenumbers of the original, exit 1 (prints WRONG) otherwise.
Run: PYTHONPATH=<tree> python C11_A5_demo.py"""
import json
import sys

from pmutt.io.json import pmuttEncoder, json_to_pmutt
from pmutt.statmech import StatMech
from pmutt.statmech.elec import GroundStateElec
from pmutt.statmech.vib import HarmonicVib


def roundtrip(obj):
    return json.loads(json.dumps(obj, cls=pmuttEncoder), object_hook=json_to_pmutt)


bad = 0
wavenumbers = [-1218.5, 422.1, 790.3, 1564.9, 3650.2]
for label, sub in (('imaginary mode ignored', None), ('imaginary mode replaced by 50 1/cm', 50.)):
    ts = StatMech(name='TS_OH-H', elements={'O': 1, 'H': 2},
                  vib_model=HarmonicVib(vib_wavenumbers=wavenumbers, imaginary_substitute=sub),
                  elec_model=GroundStateElec(potentialenergy=-14.2))
    dec = roundtrip(ts)
    assert type(dec) is StatMech and type(dec.vib_model) is HarmonicVib
    got = [float(w) for w in dec.vib_model.vib_wavenumbers]
    n_imag0 = sum(w < 0. for w in ts.vib_model.vib_wavenumbers)
    n_imag1 = sum(w < 0. for w in got)
    # what a user does next with a loaded transition state: choose another substitute
    ts.vib_model.imaginary_substitute = 100.
    ts.vib_model.vib_wavenumbers = ts.vib_model.vib_wavenumbers
    dec.vib_model.imaginary_substitute = 100.
    dec.vib_model.vib_wavenumbers = dec.vib_model.vib_wavenumbers
    g0, g1 = ts.get_GoRT(T=500.), dec.get_GoRT(T=500.)
    same = got == wavenumbers and g0 == g1
    print('%-36s wavenumbers %s -> %s; imaginary modes %d -> %d; G/RT(500 K) with substitute 100: %.6f -> %.6f  %s'
          % (label, wavenumbers, got, n_imag0, n_imag1, g0, g1, 'same' if same else 'WRONG'))
    bad += not same
# real frequencies only: unaffected
h2o = HarmonicVib(vib_wavenumbers=[1594.6, 3657.1, 3755.9])
assert list(roundtrip(h2o).vib_wavenumbers) == [1594.6, 3657.1, 3755.9]
sys.exit(1 if bad else 0)
