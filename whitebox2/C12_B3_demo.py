"""C12_B3: V0 takes the gas constant as R('m3 Pa/mol/K') instead of R('J/mol/K') - the same number (8.3144598) under
the key whose units cancel as written.  V0 returns bit-for-bit what it returned before, for every unit.
Takes the tree from PYTHONPATH and compares with the expression as written at dcdf1e7; exit 0 on both trees, exit 1
on any difference.  (Cross-tree check of everything C12 observes: C12_B_dump.py prints the same digest for both.)"""
import sys
from pmutt.constants import V0, R, T0, P0, convert_unit, type_dict

assert R('m3 Pa/mol/K') == R('J/mol/K') == 8.3144598
bad = n = 0
for u in list(type_dict) + ['particle', 'no such unit']:
    try:
        want = R('J/mol/K') * T0('K') / P0('Pa') * convert_unit(initial='m3', final=u)
    except Exception as e:
        want = (type(e), str(e))
    try:
        got = V0(u)
    except Exception as e:
        got = (type(e), str(e))
    n += 1
    if not (type(got) is type(want) and got == want):
        bad += 1
        print('DIFFERENT V0(%r): %r vs %r' % (u, got, want))
print('%d comparisons, %d differences' % (n, bad))
sys.exit(1 if bad else 0)
