"""C12_A1: absolute temperatures are clipped at zero before they are converted.
Takes the tree from PYTHONPATH.  exit 1 / prints WRONG when the property is broken, exit 0 otherwise."""
import sys
import numpy as np
from pmutt.constants import convert_unit

bad = []


def check(label, got, want):
    ok = np.allclose(got, want, rtol=1e-12, atol=1e-9)
    print('%-52s got %-28r want %r %s' % (label, got, want, '' if ok else '  <-- WRONG'))
    if not ok:
        bad.append(label)


# a temperature difference of -10 K is -18 R, a reading of -10 K is -283.15 C (affine maps of the number)
check("convert_unit(-10., 'K', 'R')", convert_unit(-10., 'K', 'R'), -18.)
check("convert_unit(-10., 'K', 'C')", convert_unit(-10., 'K', 'C'), -283.15)
check("convert_unit(-10., 'R', 'F')", convert_unit(-10., 'R', 'F'), -469.67)
# reflexive
check("convert_unit(-10., 'K', 'K')", convert_unit(-10., 'K', 'K'), -10.)
# invertible: C -> K -> C
t = -300.
check("C->K->C of -300.", convert_unit(convert_unit(t, 'C', 'K'), 'K', 'C'), t)
# transitive: F -> R -> K against F -> K
t = -500.
check("F->R->K of -500. against F->K", convert_unit(convert_unit(t, 'F', 'R'), 'R', 'K'), convert_unit(t, 'F', 'K'))
# arrays, element by element
a = np.array([-20., 0., 20.])
check("convert_unit([-20, 0, 20], 'K', 'R')", convert_unit(a, 'K', 'R').tolist(), [-36., 0., 36.])
if bad:
    print('WRONG: %d conversions of negative numbers are not the affine map' % len(bad))
    sys.exit(1)
print('ok')
