"""C07 A3: the reactor YAML file on disk must carry what the returned text carries (every supplied operating value
with its unit, nothing else).  Run with PYTHONPATH=<tree>."""
import os
import sys
import tempfile
import yaml
from pmutt.omkm.units import Units
from pmutt.io.omkm import write_yaml

kw = dict(reactor_type='cstr', temperature_mode='isothermal', V=1.5, T=650., P=2., flow_rate=3.,
          end_time=100., transient=False, units=Units(length='cm', pressure='atm', time='s'))
want = {'reactor': {'type': 'cstr', 'temperature_mode': 'isothermal', 'volume': '1.5 cm3', 'temperature': 650.0,
                    'pressure': '2.0 atm'},
        'inlet_gas': {'flow_rate': '3.0 cm3/s'},
        'simulation': {'end_time': '100.0 s', 'transient': False}}
text = yaml.safe_load(write_yaml(**kw))
with tempfile.TemporaryDirectory() as d:
    path = os.path.join(d, 'reactor.yaml')
    write_yaml(filename=path, **kw)
    raw = open(path).read()
    try:
        disk = yaml.safe_load(raw)
    except yaml.YAMLError as e:
        disk = 'does not load: %s' % str(e).splitlines()[0]
print('returned text ->', text)
print('file on disk  ->', disk)
ok = text == want and disk == want
if not ok:
    print('first lines of the file:')
    print('\n'.join(raw.splitlines()[:4]))
print('OK' if ok else 'WRONG: the file on disk does not carry the supplied operating values')
sys.exit(0 if ok else 1)
