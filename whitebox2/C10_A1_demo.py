"""C10_A1: unnamed reference species appended one after the other, then refit.
Property: 'any sequence of appending references and refitting' + 'applying them to each reference species reproduces
its experimental enthalpy ... whenever the references determine the offsets uniquely'.
exit 1 / prints WRONG when the appended references are not reproduced, exit 0 otherwise.  Tree taken from PYTHONPATH."""
import sys
import warnings
from pmutt.empirical.references import Reference, References
from pmutt.statmech import StatMech, presets
from pmutt import constants as c

warnings.simplefilter('ignore')
T0 = 298.15


def ref(elements, E_dft_eV, H_exp_kJ, name=None):
    sm = StatMech(potentialenergy=E_dft_eV, **presets['electronic'])
    return Reference(name=name, elements=elements, model=sm, T_ref=T0,
                     HoRT_ref=H_exp_kJ * 1000. / (c.R('J/mol/K') * T0))


# three reference species, three elements, full rank: the offsets are uniquely determined.
# None of them is given a name (name=None is the default of Reference/EmpiricalBase).
H2 = ref({'H': 2}, -6.77, 0.)
H2O = ref({'H': 2, 'O': 1}, -14.22, -241.8)
CH4 = ref({'C': 1, 'H': 4}, -24.04, -74.6)

refs = References(references=[H2])
for extra in (H2O, CH4):
    refs.append(extra)
    refs.fit_HoRT_offset()

bad = 0
print('number of references in the set:', len(refs), '(expected 3)')
print('offsets:', refs.offset)
for nm, sp in (('H2', H2), ('H2O', H2O), ('CH4', CH4)):
    adjusted = sp.model.get_HoRT(T=T0) + refs.get_HoRT(descriptors=sp.elements, T=T0)
    ok = abs(adjusted - sp.HoRT_ref) < 1e-8 * max(1., abs(sp.HoRT_ref))
    print('%-4s adjusted H/RT = %12.6f   experimental = %12.6f   %s' % (nm, adjusted, sp.HoRT_ref,
                                                                     'ok' if ok else 'WRONG'))
    bad += not ok
sys.exit(1 if bad else 0)
