"""C19 / A2: every tabulated energy must be the reaction's OWN delta G/RT divided by ITS normalisation factor, and
the stable phase the arg-min over the reactions - one-parameter scan compared with the reactions themselves and with
the two-parameter scan of the same diagram."""
import sys
import numpy as np
from pmutt import constants as c
from pmutt.reaction import Reaction
from pmutt.reaction.phasediagram import PhaseDiagram


class Sp:
    """species with an ideal-gas like Gibbs energy depending on T and P"""
    def __init__(self, name, h, s, elements, gas=False):
        self.name, self.h, self.s, self.elements, self.gas = name, h, s, elements, gas
        self.phase = 'G' if gas else 'S'

    def get_GoRT(self, T=298.15, P=1., **kwargs):
        return self.h / T - self.s + (np.log(P) if self.gas else 0.)

    def get_G(self, units, T=298.15, **kwargs):
        return self.get_GoRT(T=T, **kwargs) * T * c.R('{}/K'.format(units))


sp = {'M': Sp('M', 0., 0., {'M': 1}), 'O2': Sp('O2', 0., 25., {'O': 2}, gas=True),
      'MO': Sp('MO', -30000., 5., {'M': 1, 'O': 1}), 'MO2': Sp('MO2', -52000., 9., {'M': 1, 'O': 2}),
      'M2O': Sp('M2O', -36000., 7., {'M': 2, 'O': 1})}
rx = [Reaction.from_string(s, sp) for s in ('M = M', 'M + 0.5O2 = MO', 'M + O2 = MO2', '2M + 0.5O2 = M2O')]
nf = [1., 1., 1.5, 2.]
T_grid = [600., 1200., 1800., 2400.]
bad = 0
for n in (1, 2, 4):
    pd = PhaseDiagram(rx[:n], norm_factors=nf[:n])
    for units in (None, 'kJ/mol'):
        G, st = pd.get_GoRT_1D('T', T_grid, G_units=units, P=1e-6)
        want = np.array([[r.get_delta_GoRT(T=t, P=1e-6) / f * (c.R(units + '/K') * t if units else 1.)
                          for t in T_grid] for r, f in zip(rx[:n], nf[:n])])
        wst = np.argmin(want, axis=0)
        G2, st2 = pd.get_GoRT_2D('T', T_grid, 'P', [1e-6], G_units=units)
        ok = np.allclose(G, want, rtol=1e-10) and [int(v) for v in st] == [int(v) for v in wst] and \
            np.allclose(G, np.asarray(G2)[:, :, 0], rtol=1e-10) and \
            [int(v) for v in st] == [int(v) for v in np.asarray(st2)[:, 0]]
        print('%d reactions units=%s: stable 1D=%s 2D=%s expected=%s; first row %s expected %s  %s' % (
            n, units, [int(v) for v in st], [int(v) for v in np.asarray(st2)[:, 0]], [int(v) for v in wst],
            np.round(G[0], 3), np.round(want[0], 3), 'ok' if ok else 'WRONG'))
        bad += not ok
sys.exit(1 if bad else 0)
