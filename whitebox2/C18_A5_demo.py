"""C18 A5: tokens that contain a hyphen between letters must stay in one piece when a value is wrapped."""
import sys
from pmutt.io.cantera import obj_to_cti

bad = 0
cases = [(['CO-Pt(S)', 'OH-Pt(S)', 'top-fcc', 'bridge-hcp', 'COOH-trans(S)', 'COOH-cis(S)', 'HCOO-bidentate(S)',
           'CH3O-top(S)', 'formate-mono(S)', 'water-dimer(S)'], 40, 60),
         (['site-%02d-terrace' % k for k in range(12)], 30, 30),
         (['H2O(S)', 'CO(S)', 'OH(S)', 'COOH(S)', 'HCOO(S)', 'CH3O(S)', 'CH2O(S)', 'CHO(S)', 'CO2(S)'], 40, 60)]  # control
for toks, line_len, max_line_len in cases:
    out = obj_to_cti(toks, line_len=line_len, max_line_len=max_line_len)
    got = out.replace('"""', ' ').split()
    ok = got == toks
    print('%s line_len=%d max_line_len=%d: %d tokens in, %d pieces out%s'
          % ('ok   ' if ok else 'WRONG', line_len, max_line_len, len(toks), len(got),
             '' if ok else '; broken tokens: %s' % [g for g in got if g not in toks][:6]))
    if not ok:
        print('\n'.join('      |' + l for l in out.split('\n')[:4]))
    bad += not ok
sys.exit(1 if bad else 0)
