"""C01 A2: every Debye crystal must report its own values, whatever was evaluated before.  Cv/R = 3 K(theta_D/T) with
K(x) = 3/x^3 int_0^x t^4 e^t/(e^t-1)^2 dt (textbook, integrated here independently), Cv = d(T*U)/dT, and the
high-temperature limit Cv -> 3R.  exit 1 / WRONG when a crystal's values depend on another crystal evaluated earlier."""
import sys
import numpy as np
from scipy.integrate import quad
from pmutt.statmech.vib import DebyeVib


def cv_textbook(theta, T):
    x = theta / T
    return 3. * 3. / x**3 * quad(lambda t: t**4 * np.exp(t) / np.expm1(t)**2, 0., x)[0]


bad = 0
T = 300.
# two solids in one script (e.g. Pb, theta_D = 105 K, and diamond, theta_D = 1860 K), same temperature
for theta in (105., 428., 1860.):
    crystal = DebyeVib(debye_temperature=theta, interaction_energy=0.)
    got = crystal.get_CvoR(T=T)
    want = cv_textbook(theta, T)
    ok = abs(got - want) < 1e-6
    print('theta_D=%6.0f K  T=%5.0f K  Cv/R = %.6f  textbook %.6f  %s' % (theta, T, got, want, 'ok' if ok else 'WRONG'))
    bad += not ok
    # Cv = d(T U)/dT by central differences on the same object
    dT = 0.5
    num = ((T + dT) * crystal.get_UoRT(T=T + dT) - (T - dT) * crystal.get_UoRT(T=T - dT)) / (2 * dT)
    ok = abs(num - got) < 1e-3
    print('                              d(T*U/RT)/dT = %.6f vs Cv/R = %.6f  %s' % (num, got, 'ok' if ok else 'WRONG'))
    bad += not ok
# order must not matter: the same crystal evaluated first and evaluated after another one
a = DebyeVib(debye_temperature=1860., interaction_energy=-7.4).get_SoR(T=500.)
DebyeVib(debye_temperature=105., interaction_energy=-2.0).get_SoR(T=650.)
DebyeVib(debye_temperature=105., interaction_energy=-2.0).get_SoR(T=500.)
b = DebyeVib(debye_temperature=1860., interaction_energy=-7.4).get_SoR(T=500.)
c = DebyeVib(debye_temperature=428., interaction_energy=-3.4).get_SoR(T=500.)
ok = abs(a - b) < 1e-12 and abs(c - a) > 1e-3
print('S/R(diamond, 500 K) first %.6f, again %.6f; S/R(Al, 500 K) %.6f  %s' % (a, b, c, 'ok' if ok else 'WRONG'))
bad += not ok
sys.exit(1 if bad else 0)
