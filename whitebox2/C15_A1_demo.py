"""C15_A1: a sheet with 12 vib_wavenumber columns (pandas suffixes .1 ... .11, inside the "1-30 times" of the
quantifier). Expected: every non-empty vib_wavenumber cell of the row ends up, in column order, in
record['vib_wavenumbers'] and no key 'vib_wavenumber.<i>' exists. Tree is taken from PYTHONPATH."""
import os
import sys
import tempfile
import warnings

import openpyxl

warnings.filterwarnings('ignore')
from pmutt.io.excel import read_excel

NVIB = 12
wb = openpyxl.Workbook()
ws = wb.active
ws.title = 'species'
ws.append(['name', 'phase'] + ['vib_wavenumber'] * NVIB + ['potentialenergy'])
ws.append(['comment row'] + [None] * (NVIB + 2))
row1 = [3100.5 + 10 * i for i in range(NVIB)]
row2 = [500.25 + i for i in range(NVIB)]
row2[3] = None      # an empty cell in the middle
ws.append(['C2H6', 'G'] + row1 + [-40.5])
ws.append(['C2H4', 'G'] + row2 + [-32.1])
path = os.path.join(tempfile.mkdtemp(), 'book.xlsx')
wb.save(path)

out = read_excel(path, sheet_name='species')
want = [{'name': 'C2H6', 'phase': 'G', 'vib_wavenumbers': row1, 'potentialenergy': -40.5},
        {'name': 'C2H4', 'phase': 'G', 'vib_wavenumbers': [v for v in row2 if v is not None],
         'potentialenergy': -32.1}]
bad = 0
if len(out) != len(want):
    print('WRONG: %d records for %d rows' % (len(out), len(want)))
    bad = 1
for i, (got, exp) in enumerate(zip(out, want)):
    if got != exp:
        bad = 1
        print('WRONG row %d:' % (i + 1))
        print('   got      keys %s' % sorted(got))
        print('   got      vib_wavenumbers (%d) %s' % (len(got.get('vib_wavenumbers', [])), got.get('vib_wavenumbers')))
        print('   expected vib_wavenumbers (%d) %s' % (len(exp['vib_wavenumbers']), exp['vib_wavenumbers']))
if not bad:
    print('OK: %d wavenumbers per row in column order, no stray keys' % NVIB)
sys.exit(bad)
