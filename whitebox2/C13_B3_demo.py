"""C13_B3: the result buffers of the array branches of Nasa/Nasa9.get_CpoR/get_HoRT/get_SoR are allocated with
np.empty(len(T), dtype=np.double) instead of being zero-filled first (every element is assigned in the loop).
Prints every value with full precision (diff the output of the two trees) and checks each against the scalar calls.
exit 0 on both trees.  Tree is taken from PYTHONPATH."""
import sys
import warnings
import numpy as np
from pmutt.empirical import GasPressureAdj
from pmutt.empirical.nasa import Nasa, Nasa9, SingleNasa9
from pmutt.mixture.cov import PiecewiseCovEffect

warnings.simplefilter('ignore')
A_LOW = [4.04618796e+00, -2.34746343e-03, 7.46806220e-06, -6.40166207e-09, 2.05109613e-12, -3.03156920e+04, 0.242]
A_HIGH = [2.41854323e+00, 3.35448922e-03, -9.66398101e-07, 1.34441829e-10, -7.18940063e-15, -2.97582484e+04, 8.37]
A9a = [2.210371497e+04, -3.818461820e+02, 6.082738360e+00, -8.530914410e-03, 1.384646189e-05, -9.625793620e-09,
       2.519705809e-12, 7.108460860e+02, -1.076003744e+01]
A9b = [5.877124060e+05, -2.239249073e+03, 6.066949220e+00, -6.139685500e-04, 1.491806679e-07, -1.923105485e-11,
       1.061954386e-15, 1.283210415e+04, -1.586640027e+01]


def build(kind, **kw):
    if kind == 'Nasa':
        return Nasa(name='A', T_low=200., T_mid=1000., T_high=3500., a_low=A_LOW, a_high=A_HIGH,
                    elements={'H': 2, 'O': 1}, **kw)
    return Nasa9(name='A', nasas=[SingleNasa9(T_low=200., T_high=1000., a=A9a),
                                  SingleNasa9(T_low=1000., T_high=6000., a=A9b)], elements={'H': 2, 'O': 1}, **kw)


def misc(order):
    out = []
    for tok in [t for t in order.split(',') if t]:
        out.append(GasPressureAdj() if tok == 'adj' else PiecewiseCovEffect(
            name_i='A', name_j='B' if tok == 'cov' else 'C', intervals=[0., 0.3, 0.6], slopes=[-20., -35., 10.]))
    return out or None


rng = np.random.RandomState(3)
bad = 0
for kind in ('Nasa', 'Nasa9'):
    for phase, order in (('G', ''), ('S', 'cov'), ('G', 'cov,cov2'), (None, ''), ('S', 'cov,adj,cov2')):
        sp = build(kind, phase=phase, misc_models=misc(order))
        for n in (1, 2, 3, 7, 50):
            Tf = np.sort(rng.uniform(250., 3400., n))
            for T in (Tf, Tf[::-1].copy(), Tf.tolist(), tuple(Tf.tolist()), np.round(Tf).astype(int),
                      [int(t) for t in np.round(Tf)], np.float32(Tf)):
                P, x = float(10 ** rng.uniform(-3, 2)), float(rng.uniform(0., 1.))
                for q in ('get_CpoR', 'get_HoRT', 'get_SoR', 'get_GoRT'):
                    got = getattr(sp, q)(T=T, P=P, x=x)
                    want = np.array([np.atleast_1d(getattr(sp, q)(T=float(Ti), P=P, x=x))[0] for Ti in T])
                    print(kind, phase, order, type(T).__name__, getattr(T, 'dtype', None), n, q,
                          type(got).__name__, getattr(got, 'dtype', None), np.shape(got), np.atleast_1d(got).tolist())
                    tol = 1e-5 if getattr(T, 'dtype', None) == np.float32 else 1e-12   # float32 arithmetic
                    if not np.allclose(np.atleast_1d(got), want, rtol=tol, atol=tol):
                        print('WRONG', want.tolist())
                        bad += 1
                for q, u in (('get_Cp', 'J/mol/K'), ('get_H', 'kJ/mol'), ('get_S', 'cal/g/K'), ('get_G', 'eV')):
                    if isinstance(T, (list, tuple)) and q in ('get_H', 'get_G'):
                        continue        # "* T" of the package needs an array here, on both trees
                    got = getattr(sp, q)(T=T, units=u, P=P, x=x, S_elements=(q in ('get_S', 'get_G')))
                    print(' ', q, u, np.atleast_1d(got).tolist())
sys.exit(1 if bad else 0)
