"""C09 / B2 (equivalence): the clamped activation quantities of ChemkinReaction and SurfaceReaction on a spread of
reactions (exothermic / endothermic, with / without transition state, submerged and high barriers), temperatures,
pressures, directions and unit systems.  Every value is compared with max(0, barrier through the TS, reaction change)
computed from the unclamped base-class deltas; the digest printed at the end is identical on the original and on the
refactored tree (bitwise equal floats).  Exit 0 on both trees."""
import hashlib
import itertools
import sys
import numpy as np
from pmutt import constants as c
from pmutt.empirical import GasPressureAdj
from pmutt.empirical.nasa import Nasa
from pmutt.chemkin import CatSite
from pmutt.reaction import Reaction, ChemkinReaction
from pmutt.omkm.reaction import SurfaceReaction
from pmutt.omkm.phase import InteractingInterface, IdealGas


def nasa(name, H, S, phase='G', cat_site=None, cp=3.5, gas=False):
    a = np.array([cp, 1e-3, 0., 0., 0., H, S])
    return Nasa(name=name, T_low=100., T_mid=1000., T_high=3000., a_low=a, a_high=a, phase=phase, cat_site=cat_site,
                misc_models=[GasPressureAdj()] if gas else None)


def species(chemkin, HTS):
    site = CatSite(name='RU(S)', site_density=2.5e-9, density=12.1, bulk_specie='RU(B)') if chemkin else None
    ph = 'S' if chemkin else 'G'
    sp = {'H2': nasa('H2', 0., 10., gas=True),
          'RU(S)': nasa('RU(S)', 0., 0., ph, site, cp=0.),
          'H(S)': nasa('H(S)', -3000., 1., ph, site, cp=1.),
          'O(S)': nasa('O(S)', -2000., 1., ph, site, cp=1.),
          'OH(S)': nasa('OH(S)', -4000., 2., ph, site, cp=1.5),
          'TS(S)': nasa('TS(S)', HTS, 6., ph, site, cp=2.5)}
    if not chemkin:
        IdealGas(name='gas', species=[sp['H2']])
        InteractingInterface(name='ru', species=[sp[k] for k in sp if k != 'H2'], site_density=2.5e-9)
    return sp


STEPS = ('H2 + 2RU(S) = TS(S) + RU(S) = 2H(S)', 'H2 + 2RU(S) = 2H(S)', '2H(S) = TS(S) + RU(S) = H2 + 2RU(S)',
         'H(S) + O(S) = TS(S) + RU(S) = OH(S) + RU(S)', 'OH(S) + RU(S) = H(S) + O(S)', 'H(S) = TS(S) = H(S)')
out, bad = [], 0
for cls, HTS, step in itertools.product((ChemkinReaction, SurfaceReaction), (-9000., -3000., 2000., 9000.), STEPS):
    rxn = cls.from_string(step, species(cls is ChemkinReaction, HTS))
    has_ts = rxn.transition_state is not None
    for T, P, rev in itertools.product((250., 500., 1200.), (0.01, 1., 100.), (False, True)):
        for X, x in (('HoRT', 'H'), ('GoRT', 'G')):
            got = getattr(rxn, 'get_%s_act' % X)(T=T, P=P, rev=rev)
            d = getattr(Reaction, 'get_delta_' + X)
            ref = max(0., d(rxn, T=T, P=P, rev=rev, act=has_ts), d(rxn, T=T, P=P, rev=rev, act=False))
            bad += not (got == ref)
            out.append(got)
            for u in ('kcal/mol', 'J/mol', 'eV', 'kJ/mol'):
                gd = getattr(rxn, 'get_%s_act' % x)(units=u, T=T, P=P, rev=rev)
                bad += not np.isclose(gd, ref * c.R(u + '/K') * T, rtol=1e-13, atol=0.)
                out.append(gd)
print('%d values, %d differ from max(0, barrier through TS, reaction change)' % (len(out), bad))
print('digest', hashlib.sha256(np.array(out, dtype=float).tobytes()).hexdigest())
sys.exit(1 if bad else 0)
