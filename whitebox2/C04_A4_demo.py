"""C04_A4: Gibbs energy of activation of an adsorption / desorption step, pressure left at its default on both forms.
Run with PYTHONPATH=<tree>.  Exit 1 / prints WRONG when get_G_act(units, T) != get_GoRT_act(T) * R(units) * T."""
import sys
import numpy as np
from pmutt import constants as c
from pmutt.empirical.nasa import Nasa
from pmutt.omkm.reaction import SurfaceReaction

bad = 0


def nasa(name, elements, h, s, phase):
    a = np.array([3.5, 1.e-3, 0., 0., 0., h, s])
    return Nasa(name=name, elements=elements, a_low=a, a_high=a, T_low=200., T_mid=1000., T_high=3000., phase=phase)


co = nasa('CO', {'C': 1, 'O': 1}, -1.4e4, 25., 'G')          # gas: carries the ideal-gas pressure adjustment
site = nasa('PT(S)', {'Pt': 1}, 0., 0., 'S')
co_s = nasa('CO(S)', {'C': 1, 'O': 1, 'Pt': 1}, -2.4e4, 2., 'S')
rxn = SurfaceReaction(reactants=[co, site], reactants_stoich=[1., 1.], products=[co_s], products_stoich=[1.])
for T in (400., 700.):
    for units in ('kcal/mol', 'kJ/mol', 'eV'):
        RT = c.R('%s/K' % units) * T
        for rev in (False, True):
            got = rxn.get_G_act(units=units, T=T, rev=rev)                 # default pressure
            want = rxn.get_GoRT_act(T=T, rev=rev) * RT                     # the same, dimensionless form
            ok = np.isclose(got, want, rtol=1e-10, atol=1e-12)
            print('T=%g get_G_act(%s, rev=%s) = %r; get_GoRT_act(rev=%s)*R*T = %r  %s'
                  % (T, units, rev, got, rev, want, 'ok' if ok else 'WRONG'))
            bad += not ok
            # an explicit pressure acts identically on both forms (unchanged by the patch)
            assert np.isclose(rxn.get_G_act(units=units, T=T, rev=rev, P=5.),
                              rxn.get_GoRT_act(T=T, rev=rev, P=5.) * RT)
print('WRONG' if bad else 'all right')
sys.exit(1 if bad else 0)
