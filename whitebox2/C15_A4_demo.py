"""C15_A4: one workbook, two worksheets ('refs' and 'species'), read one after the other as every pMuTT example
does. Each call must return the records of the worksheet it names ("any sheet name"). Tree is taken from PYTHONPATH."""
import os
import sys
import tempfile
import warnings

import openpyxl

warnings.filterwarnings('ignore')
from pmutt.io.excel import read_excel

wb = openpyxl.Workbook()
ws = wb.active
ws.title = 'refs'
ws.append(['name', 'phase', 'element.H', 'element.O', 'T_ref', 'HoRT_ref'])
ws.append(['comment row', None, None, None, None, None])
ws.append(['H2', 'G', 2, None, 298.15, 0.5])
ws.append(['O2', 'G', None, 2, 298.15, 0.25])
ws2 = wb.create_sheet('species')
ws2.append(['name', 'phase', 'formula', 'potentialenergy', 'vib_wavenumber', 'vib_wavenumber'])
ws2.append(['comment row', None, None, None, None, None])
ws2.append(['H2O', 'G', 'H2O', -14.25, 3657.5, 1595.5])
ws2.append(['OH', 'S', 'OH', -7.5, 3600.5, None])
ws2.append(['O', 'S', 'O', -2.25, 450.5, None])
path = os.path.join(tempfile.mkdtemp(), 'book.xlsx')
wb.save(path)

refs = read_excel(path, sheet_name='refs')
species = read_excel(path, sheet_name='species')
want_refs = [{'name': 'H2', 'phase': 'G', 'elements': {'H': 2}, 'T_ref': 298.15, 'HoRT_ref': 0.5},
             {'name': 'O2', 'phase': 'G', 'elements': {'O': 2}, 'T_ref': 298.15, 'HoRT_ref': 0.25}]
want_species = [{'name': 'H2O', 'phase': 'G', 'elements': {'H': 2, 'O': 1}, 'potentialenergy': -14.25,
                 'vib_wavenumbers': [3657.5, 1595.5]},
                {'name': 'OH', 'phase': 'S', 'elements': {'O': 1, 'H': 1}, 'potentialenergy': -7.5,
                 'vib_wavenumbers': [3600.5]},
                {'name': 'O', 'phase': 'S', 'elements': {'O': 1}, 'potentialenergy': -2.25, 'vib_wavenumbers': [450.5]}]
bad = 0
for label, got, want in (('refs', refs, want_refs), ('species', species, want_species)):
    ok = got == want
    print('%s sheet %-8s -> %d records, names %s (expected %d records, names %s)' % (
        'ok   ' if ok else 'WRONG', label, len(got), [r.get('name') for r in got], len(want),
        [r['name'] for r in want]))
    bad = bad or not ok
sys.exit(1 if bad else 0)
