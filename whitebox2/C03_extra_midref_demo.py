"""C03 A1: Nasa9.from_model must reproduce the model's H/RT and S/R at the reference temperature it uses, and track
the source.  Exit 1 / prints WRONG if the fitted NASA-9 species is off."""
import sys
import warnings
import numpy as np
from ase.build import molecule
from pmutt.statmech import StatMech, presets
from pmutt.empirical.nasa import Nasa9

warnings.simplefilter('ignore')
h2o = StatMech(name='H2O', atoms=molecule('H2O'), symmetrynumber=2, spin=0, potentialenergy=-14.22,
               vib_wavenumbers=[3825.434, 3710.264, 1582.432], **presets['idealgas'])
bad = False
for (T_low, T_high, n_int) in ((200., 3000., 2), (100., 3000., 3), (300., 2000., 2)):
    fit = Nasa9.from_model(name='H2O', model=h2o, T_low=T_low, T_high=T_high, n_interval=n_int, n_T=50)
    worst_H = worst_S = 0.
    for T in np.linspace(T_low, T_high, 41):
        worst_H = max(worst_H, abs(fit.get_HoRT(T=T) - h2o.get_HoRT(T=T)))
        worst_S = max(worst_S, abs(fit.get_SoR(T=T) - h2o.get_SoR(T=T)))
    T_mean = (T_low + T_high) / 2.
    dH = abs(fit.get_HoRT(T=T_mean) - h2o.get_HoRT(T=T_mean))
    dS = abs(fit.get_SoR(T=T_mean) - h2o.get_SoR(T=T_mean))
    print('window %5.0f-%5.0f K, %d intervals: |dH/RT|(T_mean)=%.2e |dS/R|(T_mean)=%.2e   max over window: '
          '|dH/RT|=%.2e |dS/R|=%.2e' % (T_low, T_high, n_int, dH, dS, worst_H, worst_S))
    if worst_H > 5e-3 or worst_S > 5e-3:
        bad = True
print('WRONG: fitted NASA-9 species does not track / anchor to the source model' if bad else 'OK')
sys.exit(1 if bad else 0)
