"""C05_B3: coefficients of records 2-4 written by one helper with '% .8E' % coeff instead of '{: 2.8E}'.format.

The script observes write_thermdat / read_thermdat and their helpers on a spread of inputs (random collections inside
and outside the quantifier, every option, hand-made and damaged files, the private helpers called directly) and
compares a digest of everything observed - texts, file bytes, species read back, exception types and messages - with
the digest obtained from the unchanged tree dcdf1e7.  Exit 0 = same behaviour.  Tree taken from PYTHONPATH.
"""
GOLDEN = 'f966942edb476fe29d29862250f9c84d391ca48bb3daeb8c81798c1efad2e2ef'
import hashlib
import os
import random
import string
import sys
import tempfile

import numpy as np

import pmutt.io.thermdat as td
from pmutt.empirical.nasa import Nasa


class _FixedNow:
    @staticmethod
    def now():
        import datetime as _dt
        return _dt.datetime(2024, 2, 29, 13, 5, 7)


td.datetime = _FixedNow          # the date stamp must not depend on the day the script runs

rng = random.Random(20260928)
PRINTABLE = [c for c in string.printable if c.isprintable() and c != ' ']
SYMBOLS = ['H', 'C', 'O', 'N', 'Pt', 'Cu', 'Zr', 'He', 'S', 'Ar', 'E', 'D', 'Ni', 'Ru']


def rand_name():
    kind = rng.randrange(8)
    n = rng.choice([1, 2, 3, 5, 6, 8, 12, 15])
    base = ''.join(rng.choice(PRINTABLE) for _ in range(n))
    if kind == 0:
        base = ('END' + base)[:15]
    elif kind == 1:
        base = (base[:4] + 'THERMO' + base)[:15]
    elif kind == 2:
        base = (str(rng.randrange(1000)) + base)[:15]
    elif kind == 3:
        base = rng.choice(['END', 'THERMO', 'H2O', 'CH4(S)', 'ENDO', '1E5', '300', '!X', 'A!B', 'nan', 'THERMOALL'])
    return base


def rand_coef():
    k = rng.randrange(10)
    if k == 0:
        return 0.0
    if k == 1:
        return rng.choice([-0.0, 1e-30, -1e-30, 1e30, -1e30, 9.999999995e+09, -9.999999996e-01])
    return rng.choice([-1, 1]) * rng.uniform(1, 10) * 10.0 ** rng.randint(-30, 29)


def rand_species(i):
    n_el = rng.randint(1, 4)
    syms = rng.sample(SYMBOLS, n_el + 2)
    items = [(s, rng.choice([1, 2, 9, 10, 12, 99, 100, 101, 500, 999])) for s in syms[:n_el]]
    for s in syms[n_el:]:
        if rng.random() < 0.4:
            items.insert(rng.randrange(len(items) + 1), (s, 0))
    T_low = rng.choice([1.0, 200, 298.15, 300.0, 99.9])
    T_mid = rng.choice([1000., 1000.6, 493.9, 1388.05])
    T_high = rng.choice([3000., 3500.4, 6000, 9999.9])
    a_low = [rand_coef() for _ in range(7)]
    a_high = [rand_coef() for _ in range(7)]
    if rng.random() < 0.3:
        a_low, a_high = np.array(a_low), np.array(a_high)
    notes = rng.choice([None, '', 'NIST', 'TPD 2015', 'NIST-JANAF98', 'x'])
    return Nasa(name=rand_name(), elements=dict(items), phase=rng.choice(['G', 'S', 'L', 'g', '1']),
                T_low=T_low, T_mid=T_mid, T_high=T_high, a_low=a_low, a_high=a_high, notes=notes)


def describe(sp):
    return (sp.name, sp.phase, sorted(sp.elements.items()), repr(float(sp.T_low)), repr(float(sp.T_high)),
            repr(float(sp.T_mid)), [repr(float(x)) for x in sp.a_low], [repr(float(x)) for x in sp.a_high],
            getattr(sp, 'notes', None), type(sp.a_low).__name__)


def attempt(fn, *a, **k):
    try:
        return ('ok', fn(*a, **k))
    except Exception as e:      # the kind of failure is part of the behaviour
        return ('raised', type(e).__name__, str(e).replace(str(k.get('filename', '\0')), '<file>'))


def read_all(path, log):
    for fmt in ('list', 'tuple', 'dict', 'frame'):
        r = attempt(td.read_thermdat, filename=path, format=fmt)
        if r[0] == 'ok':
            out = r[1]
            if isinstance(out, dict):
                log.append(('read', fmt, type(out).__name__, [(k, describe(v)) for k, v in out.items()]))
            else:
                log.append(('read', fmt, type(out).__name__, [describe(v) for v in out]))
        else:
            log.append(('read', fmt) + tuple(str(x).replace(path, '<file>') for x in r))


def main():
    log = []
    fd, path = tempfile.mkstemp(suffix='.thermdat')
    os.close(fd)
    try:
        # 1. files written by pMuTT for a spread of collections and options
        for case in range(120):
            n = rng.choice([1, 1, 2, 3, 5, 12])
            species = [rand_species(i) for i in range(n)]
            if rng.random() < 0.2:
                species.append(species[0])
            coll = species if rng.random() < 0.6 else {('k%d' % i if rng.random() < 0.3 else s.name): s
                                                        for i, s in enumerate(species)}
            kw = {'write_date': rng.random() < 0.4}
            if rng.random() < 0.3:
                kw['supp_txt'] = rng.choice(['! species fitted in this work', '! LEGEND of phases\n! THERMO data\n',
                                             '!\n\n! END\n', '! ' + 'x' * 90 + ' END'])
            if rng.random() < 0.3:
                other = td.write_thermdat([rand_species(99)], write_date=False)
                kw['supp_data'] = ''.join(other.splitlines(True)[2:6]) if rng.random() < 0.5 else \
                    ''.join(other.splitlines(True)[2:6]).rstrip('\n')
            if rng.random() < 0.2:
                kw['newline'] = rng.choice(['\n', '\r\n'])
            text = attempt(td.write_thermdat, coll, **{k: v for k, v in kw.items() if k != 'newline'})
            log.append(('text', case, text))
            res = attempt(td.write_thermdat, coll, filename=path, **kw)
            log.append(('file-result', case, res))
            with open(path, 'rb') as f_ptr:
                log.append(('file', case, f_ptr.read()))
            read_all(path, log)
        # 2. hand-made files: comments, blank lines, keyword look-alikes, damaged records
        good = td.write_thermdat([rand_species(0), rand_species(1)], write_date=False).splitlines(True)
        variants = [
            good,
            ['! THERMO\n', '!END\n'] + good,
            good[:2] + ['\n', '   \n', '!' + ' ' * 85 + '\n'] + good[2:],
            good[:2] + ['THERMO' + 'x' * 80 + '\n'] + good[2:],
            good[:2] + ['END OF HEADER\n'] + good[2:],
            good[:6] + ['END\n'] + good[6:],
            good[:2] + [good[2].replace(good[2][:3], '!AB')] + good[3:],
            good[:2] + [' ' + good[2][1:]] + good[3:],
            good[:5] + good[6:],
            good[:3] + [good[3][:79] + '7\n'] + good[4:],
            good[:2] + ['100 200 300\n', '100 200 300 400\n'] + good[2:],
            [ln.rstrip('\n') + '\r\n' for ln in good],
            good + ['\n', '\n'],
            [],
            ['THERMO\n'],
        ]
        for k, lines in enumerate(variants):
            with open(path, 'w', newline='') as f_ptr:
                f_ptr.writelines(lines)
            log.append(('variant', k))
            read_all(path, log)
        # 3. the private helpers on their own
        for line in good[2:10] + ['THERMO ALL\n', '       100       500      1500\n', 'END', '! c\n', 'a b c d  1\n']:
            for name in ('_get_fields', '_is_temperature_header', '_read_line_num', '_read_line1'):
                r = attempt(getattr(td, name), line)
                log.append((name, line, repr(r)))
        for name, idx, seed in (('_read_line2', 3, {}), ('_read_line3', 4, {'a_high': np.zeros(7)}),
                                ('_read_line4', 5, {'a_low': np.zeros(7)})):
            r = attempt(getattr(td, name), good[idx], dict(seed))
            log.append((name, repr(r)))
        sp = rand_species(5)
        for name in ('_write_line1', '_write_line2', '_write_line3', '_write_line4'):
            log.append((name, attempt(getattr(td, name), sp)))
        short = Nasa(name='X', elements={'H': 1}, phase='G', T_low=1., T_mid=2., T_high=3., a_low=[1., 2., 3.],
                     a_high=[1., -2., 3., 4., 5., 6.])
        for name in ('_write_line2', '_write_line3', '_write_line4'):
            log.append((name, 'short', attempt(getattr(td, name), short)))
        odd = Nasa(name='X', elements={'H': 1}, phase='G', T_low=1., T_mid=2., T_high=3.,
                   a_low=[1, 2, 3, float('nan'), float('inf'), -float('inf'), 1e-300],
                   a_high=np.array([1e300, -1e-300, 5e-324, 1e100, -1e-100, 0, 7], dtype=np.float64))
        for name in ('_write_line2', '_write_line3', '_write_line4'):
            log.append((name, 'odd', attempt(getattr(td, name), odd)))
    finally:
        os.remove(path)
    return hashlib.sha256(repr(log).encode()).hexdigest(), len(log)


digest, n = main()
print('behaviour digest over %d observations: %s' % (n, digest))
if GOLDEN is None:
    sys.exit(0)
if digest != GOLDEN:
    print('WRONG: differs from the behaviour of the original tree (%s)' % GOLDEN)
    sys.exit(1)
print('same as the original tree')
