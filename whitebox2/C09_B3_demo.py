"""C09 / B3 (equivalence): BEP barriers, offsets and bookkeeping for all eight descriptors, both directions, a grid of
slopes / intercepts / temperatures / unit systems, for BEP relations that are constructed, modified afterwards
(bep.slope = ..., bep.intercept = ...), serialised and rebuilt.  Every barrier is compared with
(slope or slope-1)*descriptor + intercept evaluated by hand; the digest printed at the end is identical on the
original and on the refactored tree.  Exit 0 on both trees."""
import hashlib
import itertools
import json
import sys
import numpy as np
from pmutt import constants as c
from pmutt.statmech import StatMech, presets
from pmutt.io.json import pmuttEncoder, json_to_pmutt
from pmutt.reaction import Reaction
from pmutt.reaction.bep import BEP
from pmutt.omkm.reaction import BEP as OmkmBEP


def adsorbate(name, E, *wavenumbers):
    return StatMech(name=name, potentialenergy=E, vib_wavenumbers=list(wavenumbers), **presets['harmonic'])


DESC = ('delta_H', 'rev_delta_H', 'reactants_H', 'products_H', 'delta_E', 'rev_delta_E', 'reactants_E', 'products_E')
out, bad = [], 0
for cls, desc in itertools.product((BEP, OmkmBEP), DESC):
    bep = cls(slope=0.5, intercept=10., name='bep', descriptor=desc)
    sp = {'A': adsorbate('A', -1.2, 450., 1200., 3100.), 'B': adsorbate('B', -0.4, 300., 900.),
          'C': adsorbate('C', -1.1, 250., 700., 1500., 2900.), 'bep': bep}
    rxn = Reaction.from_string('A + B = bep = 2C', sp)
    for slope, icpt in itertools.product((0., 0.3, 1.), (0., 17.5, 60.)):
        bep.slope = slope           # attributes are public: users set them after construction
        bep.intercept = icpt
        assert bep.slope == slope and bep.intercept == icpt
        d = bep.to_dict()
        assert d['slope'] == slope and d['intercept'] == icpt
        clone = json_to_pmutt(json.loads(json.dumps(bep, cls=pmuttEncoder)))
        assert type(clone) is cls and clone.slope == slope and clone.intercept == icpt and clone == bep
        for T, rev in itertools.product((300., 650.), (False, True)):
            val = bep._get_descriptor_val(reaction=rxn, T=T)
            adj = (slope if rev else slope - 1.) if 'rev_delta' in desc else (slope - 1. if rev else slope)
            for u in ('kcal/mol', 'J/mol', 'eV'):
                got = bep.get_E_act(units=u, reaction=rxn, rev=rev, T=T)
                ref = (adj * val + icpt) * c.R(u + '/K') / c.R('kcal/mol/K')
                bad += not (got == ref)
                out.append(got)
            out += [bep.get_EoRT_act(reaction=rxn, rev=rev, T=T), bep.get_UoRT(reaction=rxn, T=T),
                    bep.get_HoRT(reaction=rxn, T=T), bep.get_GoRT(reaction=rxn, T=T),
                    rxn.get_delta_HoRT(T=T, rev=rev, act=True), rxn.get_delta_H(units='eV', T=T, rev=rev, act=True),
                    rxn.get_A(T=T, rev=rev)]
print('%d values, %d barriers differ from (slope or slope-1)*descriptor + intercept' % (len(out), bad))
print('digest', hashlib.sha256(np.array(out, dtype=float).tobytes()).hexdigest())
sys.exit(1 if bad else 0)
