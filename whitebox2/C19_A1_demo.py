"""C19 / A1: one phase diagram asked twice for the same grid under other fixed conditions.
The tabulated energies must be the reactions' own delta G/RT at the conditions of THIS request divided by the
normalisation factors (times RT with units), and the stable phase the arg-min over them."""
import sys
import numpy as np
from pmutt import constants as c
from pmutt.reaction import Reaction
from pmutt.reaction.phasediagram import PhaseDiagram


class Sp:
    """species with an ideal-gas like Gibbs energy depending on T and P"""
    def __init__(self, name, h, s, elements, gas=False):
        self.name, self.h, self.s, self.elements, self.gas = name, h, s, elements, gas
        self.phase = 'G' if gas else 'S'

    def get_GoRT(self, T=298.15, P=1., **kwargs):
        return self.h / T - self.s + (np.log(P) if self.gas else 0.)

    def get_G(self, units, T=298.15, **kwargs):
        return self.get_GoRT(T=T, **kwargs) * T * c.R('{}/K'.format(units))


sp = {'M': Sp('M', 0., 0., {'M': 1}), 'O2': Sp('O2', 0., 25., {'O': 2}, gas=True),
      'MO': Sp('MO', -30000., 5., {'M': 1, 'O': 1}), 'MO2': Sp('MO2', -52000., 9., {'M': 1, 'O': 2}),
      'M2O': Sp('M2O', -36000., 7., {'M': 2, 'O': 1})}
rx = [Reaction.from_string(s, sp) for s in ('M = M', 'M + 0.5O2 = MO', 'M + O2 = MO2', '2M + 0.5O2 = M2O')]
nf = [1., 1., 1., 2.]
pd = PhaseDiagram(rx, norm_factors=list(nf))
T_grid = [600., 900., 1200., 1500., 1800.]
bad = 0


def expect(units, **cond):
    G = np.array([[r.get_delta_GoRT(**dict(cond, T=t)) / n * (c.R(units + '/K') * t if units else 1.)
                   for t in T_grid] for r, n in zip(rx, nf)])
    return G, np.argmin(G, axis=0)


for units in (None, 'kJ/mol'):
    for P in (1., 1e-12, 1e-25):
        G, st = pd.get_GoRT_1D('T', T_grid, G_units=units, P=P)
        wG, wst = expect(units, P=P)
        ok = np.allclose(G, wG, rtol=1e-10) and list(st) == list(wst)
        print('units=%s P=%g  stable=%s expected=%s  G[2]=%s expected=%s  %s' % (
            units, P, [int(v) for v in st], [int(v) for v in wst], np.round(G[2], 3), np.round(wG[2], 3), 'ok' if ok else 'WRONG'))
        bad += not ok
sys.exit(1 if bad else 0)
