"""C04_A5: entropy of a gas-phase Shomate species requested in the units its polynomial is stored in, at a pressure
other than 1 bar.  Run with PYTHONPATH=<tree>.
Exit 1 / prints WRONG when get_S(units, T, P) != get_SoR(T, P) * R(units)."""
import sys
import numpy as np
from pmutt import constants as c
from pmutt.empirical.shomate import Shomate

bad = 0
# H2O(g), NIST webbook, 500-1700 K
a = np.array([30.09200, 6.832514, 6.793435, -2.534480, 0.082139, -250.8810, 223.3967, -241.8264])
h2o = Shomate(name='H2O', elements={'H': 2, 'O': 1}, phase='G', T_low=500., T_high=1700., a=a, units='J/mol/K')
for T in (600., np.array([700., 900.])):
    for P in (1., 10.):
        for units in ('J/mol/K', 'kJ/mol/K', 'cal/mol/K', 'J/g/K'):
            M = 18.015 if '/g/' in units else 1.
            want = h2o.get_SoR(T=T, P=P) * c.R(units.replace('/g/', '/mol/')) / M
            got = h2o.get_S(T=T, units=units, P=P)
            ok = np.allclose(got, want, rtol=1e-9)
            print('T=%s P=%g get_S(%s) = %r; get_SoR*R = %r  %s' % (T, P, units, got, want, 'ok' if ok else 'WRONG'))
            bad += not ok
print('WRONG' if bad else 'all right')
sys.exit(1 if bad else 0)
