"""C13_A4 (refused by the checker, exit 2): GasPressureAdj.get_SoR returns 0 when P is "close" to the reference
pressure (np.isclose, rtol 1e-5).  Inside that window S(P) - S(1 bar) is 0 instead of -ln(P/bar) (up to 1e-5 in S/R).
Tree is taken from PYTHONPATH.  exit 1 / WRONG when the property is broken."""
import sys
import numpy as np
from pmutt.empirical.nasa import Nasa, Nasa9, SingleNasa9
from pmutt.empirical.shomate import Shomate

A_LOW = [4.04618796e+00, -2.34746343e-03, 7.46806220e-06, -6.40166207e-09, 2.05109613e-12, -3.03156920e+04, 0.242]
A_HIGH = [2.41854323e+00, 3.35448922e-03, -9.66398101e-07, 1.34441829e-10, -7.18940063e-15, -2.97582484e+04, 8.37]
A9 = [2.210371497e+04, -3.818461820e+02, 6.082738360e+00, -8.530914410e-03, 1.384646189e-05, -9.625793620e-09,
      2.519705809e-12, 7.108460860e+02, -1.076003744e+01]
ASH = np.array([30.09200, 6.832514, 6.793435, -2.534480, 0.082139, -250.8810, 223.3967, -241.8264])
species = [Nasa(name='H2O', phase='G', T_low=200., T_mid=1000., T_high=3500., a_low=A_LOW, a_high=A_HIGH),
           Nasa9(name='H2O', phase='gas', nasas=[SingleNasa9(T_low=200., T_high=1000., a=A9)]),
           Shomate(name='H2O', phase='g', T_low=298., T_high=1700., a=ASH)]
bad = 0
for sp in species:
    for T in (500., np.array([400., 650.])):
        S1 = np.atleast_1d(sp.get_SoR(T=T, P=1.))
        G1 = np.atleast_1d(sp.get_GoRT(T=T, P=1.))
        for P in (1e-3, 0.5, 0.999992, 1.000008, 1.00002, 10., 100.):
            dS = np.atleast_1d(sp.get_SoR(T=T, P=P)) - S1
            dG = np.atleast_1d(sp.get_GoRT(T=T, P=P)) - G1
            ok = np.allclose(dS, -np.log(P), rtol=0., atol=1e-9) and np.allclose(dG, np.log(P), rtol=0., atol=1e-9)
            print('%-8s T=%-14s P=%-9r S(P)-S(1 bar)=%s  -ln P=%.6e  %s'
                  % (type(sp).__name__, np.atleast_1d(T).tolist(), P, dS.tolist(), -np.log(P), 'ok' if ok else 'WRONG'))
            bad += not ok
sys.exit(1 if bad else 0)
