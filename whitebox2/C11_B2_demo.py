"""C11_B2: _pmuttBase.to_dict spells the class as str(type(self)) instead of str(self.__class__).
Equivalence battery: prints/digests a canonical transcript of what the JSON layer does on a spread of inputs (every
serialisable class with nesting, through json.dumps(cls=pmuttEncoder)/json.loads(object_hook=json_to_pmutt), a second
cycle, the direct json_to_pmutt(to_dict()) path, objects the encoder must refuse incl. exception type/message/context,
the hook on non-documents, type_to_class and remove_class on odd arguments, equality, the generic to_dict).
The digest below was recorded on the unchanged tree dcdf1e7; exit 0 = the tree on PYTHONPATH behaves identically,
exit 1 = some line differs (run with -v to see the transcript).
Run: PYTHONPATH=<tree> python C11_B2_demo.py [-v]"""

import hashlib
import warnings
import json
import sys

import numpy as np

from pmutt.chemkin import CatSite
from pmutt.empirical import GasPressureAdj
from pmutt.empirical.nasa import Nasa, Nasa9, SingleNasa9
from pmutt.empirical.references import Reference, References
from pmutt.empirical.shomate import Shomate
from pmutt.eos import IdealGasEOS, vanDerWaalsEOS
from pmutt.io.json import pmuttEncoder, json_to_pmutt, remove_class, type_to_class
from pmutt.mixture.cov import PiecewiseCovEffect
from pmutt.omkm.reaction import SurfaceReaction, BEP as omkmBEP
from pmutt.reaction import Reaction, ChemkinReaction, Reactions
from pmutt.reaction.bep import BEP
from pmutt.reaction.phasediagram import PhaseDiagram
from pmutt.statmech import StatMech, EmptyMode, ConstantMode, presets
from pmutt.statmech.elec import GroundStateElec
from pmutt.statmech.lsr import LSR, ExtendedLSR
from pmutt.statmech.nucl import EmptyNucl
from pmutt.statmech.rot import RigidRotor
from pmutt.statmech.trans import FreeTrans
from pmutt.statmech.vib import HarmonicVib, QRRHOVib, EinsteinVib, DebyeVib


warnings.simplefilter('ignore')


def transcript():
    out = []
    site = CatSite(name='Pt', site_density=2.5e-9, density=21.4, bulk_specie='PT(B)')

    def nasa(name, phase='G', **kw):
        return Nasa(name=name, T_low=200., T_mid=1000., T_high=3000., a_low=np.arange(7) * 1e-3 + 1.,
                    a_high=np.arange(7) * 2e-3 + 1., elements={'H': 2, 'O': 1}, phase=phase, notes={'src': 'x'}, **kw)

    def statmech(name, refs=None, misc=None):
        return StatMech(name=name, trans_model=FreeTrans(n_degrees=3, molecular_weight=18.),
                        vib_model=HarmonicVib([-300., 1594.6, 3657.1], imaginary_substitute=50.),
                        rot_model=RigidRotor(symmetrynumber=2, rot_temperatures=[40.1, 20.9, 13.4], geometry='nonlinear'),
                        elec_model=GroundStateElec(potentialenergy=-14.2, spin=0.), nucl_model=EmptyNucl(),
                        elements={'H': 2, 'O': 1}, smiles='O', notes='n', references=refs, misc_models=misc)
    cov = PiecewiseCovEffect(name_i='CO(S)', name_j='CO(S)', intervals=[0., 0.3, 0.6], slopes=[0., -10., -30.], name='c1')
    ref = Reference(T_ref=298.15, HoRT_ref=-97.6, name='H2O', elements={'H': 2, 'O': 1}, phase='G',
                    model=statmech('H2O_ref'))
    refs = References(offset={'H': 1.5, 'O': -2.5}, references=[ref], descriptor='elements', T_ref=298.15)

    def rxn(cls, **kw):
        return cls(reactants=[nasa('A', 'S', cat_site=site, n_sites=1), nasa('B')], reactants_stoich=[1., 2.],
                   products=[nasa('C', 'S', cat_site=site, n_sites=2)], products_stoich=[1.],
                   transition_state=[nasa('TS', 'S', cat_site=site)], transition_state_stoich=[1.], **kw)
    objs = [
        FreeTrans(n_degrees=3, molecular_weight=18.), HarmonicVib([1594.6, 3657.1]), QRRHOVib([100., 2000.]),
        EinsteinVib(einstein_temperature=150., interaction_energy=-1.), DebyeVib(215., -3.),
        RigidRotor(symmetrynumber='C2v', rot_temperatures=[40.1, 20.9, 13.4], geometry='nonlinear'),
        GroundStateElec(potentialenergy=-14.2, spin=1.), EmptyNucl(), EmptyMode(),
        ConstantMode(q=2., H=1., notes='c'), GasPressureAdj(), cov, site, IdealGasEOS(), vanDerWaalsEOS(a=0.55, b=3e-5),
        statmech('H2O'), statmech('H2O_b', refs=refs, misc=[GasPressureAdj()]),
        StatMech(name='Pt', **presets['electronic'], potentialenergy=-5.),
        nasa('H2O'), nasa('CO(S)', 'S', cat_site=site, n_sites=1, misc_models=[cov]),
        nasa('H2O_m', model=statmech('H2O_m')), nasa('x', 'G', add_gas_P_adj=False),
        SingleNasa9(T_low=200., T_high=1000., a=np.arange(9) * 1.),
        Nasa9(name='n9', nasas=[SingleNasa9(200., 1000., np.arange(9) * 1.), SingleNasa9(1000., 6000., np.arange(9) * 2.)],
              elements={'O': 2}, phase='G'),
        Shomate(name='sh', T_low=298., T_high=500., a=np.arange(8) * 1., units='J/mol/K', elements={'C': 1}, phase='G'),
        ref, refs, References(offset={'CH3': 1.}, descriptor='notes', T_ref=300.),
        BEP(slope=0.5, intercept=20., name='b', descriptor='rev_delta_H', elements={'H': 1}, notes='bn'),
        omkmBEP(slope=0.5, intercept=20., name='b2', direction='cleavage'),
        rxn(Reaction), rxn(Reaction, notes='kept?'), rxn(ChemkinReaction, beta=0., is_adsorption=True, sticking_coeff=0.2),
        rxn(SurfaceReaction, id='r_0001', Ea=0., beta=0., A=1e13, direction='cleavage', use_motz_wise=True),
        rxn(SurfaceReaction, id=7, is_adsorption=True),
        Reactions(reactions=[rxn(Reaction), rxn(ChemkinReaction)]),
        PhaseDiagram(reactions=[rxn(Reaction), rxn(Reaction)]),
        PhaseDiagram(reactions=[rxn(Reaction)], norm_factors=np.array([2.])),
        LSR(slope=0.3, intercept=0., reaction=rxn(Reaction), surf_species=statmech('s'), gas_species=statmech('g'), notes='l'),
        LSR(slope=0.3, intercept=1., reaction=-20., surf_species=-3., gas_species=0.),
        ExtendedLSR(slopes=[0.3, 0.7], intercept=1., reactions=[-20., rxn(Reaction)], notes='e'),
    ]
    for obj in objs + [objs[:3], {'a': objs[3], 'b': [objs[4]]}]:
        label = type(obj).__name__
        try:
            text = json.dumps(obj, cls=pmuttEncoder)
            dec = json.loads(text, object_hook=json_to_pmutt)
            text2 = json.dumps(dec, cls=pmuttEncoder)
            out.append('%s | %s | %s | same=%s' % (label, type(dec).__name__, text, text2 == text))
            if hasattr(obj, 'to_dict'):
                d = obj.to_dict()
                snap = json.dumps(d, cls=pmuttEncoder)
                direct = json_to_pmutt(d)
                out.append('   direct %s unchanged=%s again=%s' % (type(direct).__name__,
                                                                   json.dumps(d, cls=pmuttEncoder) == snap,
                                                                   json.dumps(direct, cls=pmuttEncoder)))
        except Exception as e:      # noqa
            out.append('%s | raises %s: %s | context %s' % (label, type(e).__name__, e, type(e.__context__).__name__))

    # objects the encoder cannot write
    class NoToDict:
        pass

    class BrokenToDict:
        def to_dict(self):
            return self.missing

    class RaisingToDict:
        def to_dict(self):
            raise ValueError('boom')

    class NoneToDict:
        def to_dict(self):
            return None
    for bad in (NoToDict(), BrokenToDict(), RaisingToDict(), NoneToDict(), np.arange(3), {1, 2}, 3 + 4j, np.int64(3)):
        for call in ('dumps', 'default'):
            try:
                r = json.dumps(bad, cls=pmuttEncoder) if call == 'dumps' else pmuttEncoder().default(bad)
                out.append('%s(%s) -> %r' % (call, type(bad).__name__, r))
            except Exception as e:      # noqa
                out.append('%s(%s) raises %s: %s | context %s | cause %s' % (
                    call, type(bad).__name__, type(e).__name__, e, type(e.__context__).__name__, type(e.__cause__).__name__))
    # the hook on things that are not serialised objects
    plain = [{'family': 'alcohol', 'n': 3}, {'class': 'oxygenate'}, {'class': 3}, {'class': ['a']}, {}, None, 3, 'text',
             [1, 2], [{'class': "<class 'pmutt.statmech.EmptyMode'>"}], {'class': "<class 'pmutt.reaction.network.Network'>"},
             {'type': 'nasa', '_id': 5, 'class': None}, {'class': "<class 'pmutt.statmech.EmptyMode'>", '_id': 1, 'type': 't'}]
    for p in plain:
        snap = repr(p)
        try:
            r = json_to_pmutt(p)
            out.append('hook(%s) -> %s same_object=%s unchanged=%s' % (snap, type(r).__name__, r is p, repr(p) == snap))
        except Exception as e:      # noqa
            out.append('hook(%s) raises %s: %s' % (snap, type(e).__name__, e))
    for key in ("<class 'pmutt.omkm.reaction.BEP'>", "<class 'pmutt.reaction.bep.BEP'>", 'BEP', 3, None, ('a',), ['a']):
        try:
            out.append('type_to_class(%r) -> %s' % (key, type_to_class(key)))
        except Exception as e:      # noqa
            out.append('type_to_class(%r) raises %s: %s' % (key, type(e).__name__, e))
    d = {'class': 'c', 'type': 't', '_id': 1, 'x': [1]}
    r = remove_class(d)
    out.append('remove_class -> %r, argument now %r, new dict %s, shares values %s' % (r, d, r is not d, r['x'] is d['x']))
    # equality and the generic pair
    a, b = EmptyMode(), EmptyMode()
    out.append('eq %s %s %s' % (a == b, a == {'class': "<class 'pmutt.statmech.EmptyMode'>"}, a == 3))
    v = vanDerWaalsEOS(a=1., b=2.)
    out.append('generic %r keys %s vars %s' % (v.to_dict(), list(v.to_dict()), list(vars(v))))
    return out


if __name__ == '__main__':
    lines = transcript()
    digest = hashlib.sha256('\n'.join(lines).encode()).hexdigest()
    if '-v' in sys.argv:
        print('\n'.join(lines))
    print(len(lines), digest)
    EXPECTED = 'e2088898cc8e8b9be025e50fcac872fbd34661c7facfecabd8d1be8159a44fa4'
    if digest != EXPECTED:
        print('DIFFERENT from the unchanged tree (expected %s)' % EXPECTED)
        sys.exit(1)
    print('SAME behaviour as the unchanged tree on all %d transcript lines' % len(lines))
