"""C07 A2: two BEP relations that have no name yet (write_thermo_yaml names them b_0000, b_0001): both must be in the
file, each with its own slope/intercept and its member reactions.  Run with PYTHONPATH=<tree>."""
import sys
import numpy as np
import yaml
from pmutt.empirical.nasa import Nasa
from pmutt.omkm.phase import IdealGas, InteractingInterface
from pmutt.omkm.reaction import SurfaceReaction, BEP
from pmutt.omkm.units import Units
from pmutt.io.omkm import write_thermo_yaml


def nasa(name, elements, hf, n_sites=None):
    a = np.array([3.5, 1e-3, 0., 0., 0., hf, 4.0])
    return Nasa(name=name, T_low=200., T_mid=1000., T_high=3000., a_low=a, a_high=a.copy(),
                elements=elements, n_sites=n_sites)


PT_S = nasa('PT(S)', {'Pt': 1}, 0., 1)
H_S = nasa('H(S)', {'H': 1, 'Pt': 1}, -3000., 1)
N_S = nasa('N(S)', {'N': 1, 'Pt': 1}, -2000., 1)
NH_S = nasa('NH(S)', {'N': 1, 'H': 1, 'Pt': 1}, -4000., 1)
NH2_S = nasa('NH2(S)', {'N': 1, 'H': 2, 'Pt': 1}, -5500., 1)
surf = InteractingInterface(name='terrace', species=[PT_S, H_S, N_S, NH_S, NH2_S], site_density=2.5e-9, phases=[])
bep_nh = BEP(slope=0.71, intercept=23.2, direction='cleavage', descriptor='delta_H')     # N-H scission
bep_h = BEP(slope=0.29, intercept=8.7, direction='synthesis', descriptor='delta_H')      # a second relation
r1 = SurfaceReaction(reactants=[NH2_S, PT_S], reactants_stoich=[1., 1.], products=[NH_S, H_S], products_stoich=[1., 1.],
                     transition_state=[bep_nh], transition_state_stoich=[1.], direction='cleavage')
r2 = SurfaceReaction(reactants=[N_S, H_S], reactants_stoich=[1., 1.], products=[NH_S, PT_S], products_stoich=[1., 1.],
                     transition_state=[bep_h], transition_state_stoich=[1.], direction='synthesis')
txt = write_thermo_yaml(reactions=[r1, r2], units=Units(act_energy='kcal/mol', quantity='mol'), T=500.)
docs = [d for d in yaml.safe_load_all(txt.replace('\n\n-', '\n-')) if d]
beps = [d for d in docs if 'beps' in d]
beps = beps[0]['beps'] if beps else []
print('reactions:', [(r.id, r.bep.name) for r in (r1, r2)])
print('beps section:', beps)
slopes = sorted(b['slope'] for b in beps)
ok = slopes == [0.29, 0.71] and len({b['id'] for b in beps}) == 2
print('OK' if ok else 'WRONG: the model has two BEP relations (slopes 0.71 and 0.29); the file carries %d' % len(beps))
sys.exit(0 if ok else 1)
