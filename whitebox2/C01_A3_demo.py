"""C01 A3: the species total equals the sum (product for q) of the contributions it reports in verbose form - under
every option combination, here verbose=True together with use_references=False.  exit 1 / WRONG otherwise."""
import sys
import numpy as np
from ase.build import molecule
from pmutt.statmech import StatMech, presets
from pmutt.empirical.references import Reference, References

H2 = Reference(name='H2', elements={'H': 2}, atoms=molecule('H2'), symmetrynumber=2, spin=0., potentialenergy=-6.77,
               vib_wavenumbers=[4342.], HoRT_ref=0., T_ref=298.15, **presets['idealgas'])
O2 = Reference(name='O2', elements={'O': 2}, atoms=molecule('O2'), symmetrynumber=2, spin=1., potentialenergy=-9.86,
               vib_wavenumbers=[2205.], HoRT_ref=0., T_ref=298.15, **presets['idealgas'])
H2O_ref = Reference(name='H2O', elements={'H': 2, 'O': 1}, atoms=molecule('H2O'), symmetrynumber=2, spin=0., potentialenergy=-14.22,
                    vib_wavenumbers=[3825.434, 3710.2642, 1582.432], HoRT_ref=-97.606, T_ref=298.15,
                    **presets['idealgas'])
refs = References(references=[H2, O2, H2O_ref])
sp = StatMech(name='H2O2', elements={'H': 2, 'O': 2}, atoms=molecule('H2O2'), symmetrynumber=2, spin=0., potentialenergy=-18.1,
              vib_wavenumbers=[3599., 3608., 1402., 1266., 877., 371.], references=refs, **presets['idealgas'])

bad = 0
for T in (200., 298.15, 800.):
    for name in ('get_HoRT', 'get_UoRT', 'get_GoRT', 'get_FoRT', 'get_SoR', 'get_CpoR'):
        for use_refs in (True, False):
            parts = getattr(sp, name)(T=T, P=1., verbose=True, use_references=use_refs)
            total = getattr(sp, name)(T=T, P=1., use_references=use_refs)
            ok = abs(np.sum(parts) - total) < 1e-9 * max(1., abs(total))
            if not ok or (name == 'get_HoRT' and T == 298.15):
                print('T=%7.2f %-8s use_references=%-5s total %14.6f  sum(verbose) %14.6f  references entry %12.6f  %s'
                      % (T, name, use_refs, total, np.sum(parts), parts[5], 'ok' if ok else 'WRONG'))
            bad += not ok
print('%d combination(s) where the total is not the sum of the verbose contributions' % bad)
sys.exit(1 if bad else 0)
