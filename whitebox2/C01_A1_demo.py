"""C01 A1: real low-frequency modes must be used as given; only imaginary (negative) entries are replaced by
imaginary_substitute.  Textbook harmonic-oscillator sums over the modes that count are compared with the model.
exit 1 / prints WRONG when the model disagrees with the textbook sum."""
import sys
import numpy as np
from pmutt import constants as c
from pmutt.statmech.vib import HarmonicVib, QRRHOVib


def textbook(nus, T):
    x = np.array([c.h('J s') * c.c('cm/s') * nu / c.kb('J/K') for nu in nus]) / T
    U = np.sum(x / 2. + x / np.expm1(x))
    S = np.sum(x / np.expm1(x) - np.log1p(-np.exp(-x)))
    Cv = np.sum(x**2 * np.exp(x) / np.expm1(x)**2)
    return U, S, Cv


bad = 0
# a floppy molecule: two soft real modes (20 and 35 1/cm, inside 10-4500), one imaginary mode, substitute 50 1/cm
given = [20., 35., 1200., 3000., -150.]
count = [20., 35., 1200., 3000., 50.]          # what must be summed: the imaginary entry replaced, nothing else
for T in (100., 298.15, 1000.):
    vib = HarmonicVib(given, imaginary_substitute=50.)
    got = (vib.get_UoRT(T=T), vib.get_SoR(T=T), vib.get_CvoR(T=T))
    want = textbook(count, T)
    ok = np.allclose(got, want, rtol=1e-9)
    print('HarmonicVib T=%7.2f  U/RT,S/R,Cv/R = %s  textbook %s  %s'
          % (T, np.round(got, 6), np.round(want, 6), 'ok' if ok else 'WRONG'))
    bad += not ok
# same species with and without a substitute must agree on the REAL modes: S(sub) - S(no sub) == S of one 50 1/cm mode
T = 298.15
s_sub = HarmonicVib(given, imaginary_substitute=50.).get_SoR(T=T)
s_nos = HarmonicVib(given).get_SoR(T=T)
s_one = HarmonicVib([50.]).get_SoR(T=T)
ok = abs((s_sub - s_nos) - s_one) < 1e-9
print('S(sub) - S(no sub) = %.6f, one 50 1/cm mode = %.6f  %s' % (s_sub - s_nos, s_one, 'ok' if ok else 'WRONG'))
bad += not ok
# quasi-RRHO shares the filter: a model built from the modes that count must give the same numbers
q1 = QRRHOVib(given, imaginary_substitute=50.)
q2 = QRRHOVib(count)
for name in ('get_UoRT', 'get_SoR', 'get_CvoR'):
    a, b = getattr(q1, name)(T=T), getattr(q2, name)(T=T)
    ok = abs(a - b) < 1e-9
    print('QRRHOVib.%s %.6f vs %.6f  %s' % (name, a, b, 'ok' if ok else 'WRONG'))
    bad += not ok
sys.exit(1 if bad else 0)
