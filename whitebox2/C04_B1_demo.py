"""C04_B1: ChemkinReaction.get_H_act on a spread of reactions, temperatures, directions and units: bit-for-bit equal to
get_HoRT_act * R(units) * T (the pristine definition).  Run with PYTHONPATH=<tree>; exit 0 on the pristine and on the
refactored tree.  The printed digest is the same on both trees."""
import sys
import hashlib
import itertools
import numpy as np
from pmutt import constants as c
from pmutt.empirical.nasa import Nasa
from pmutt.reaction import ChemkinReaction

rng = np.random.RandomState(4)
bad = n = 0
digest = hashlib.sha256()


def nasa(name, elements, h, s, phase='S'):
    a = np.array([3.5 + rng.rand(), 1.e-3 * rng.rand(), 1e-7 * rng.rand(), 0., 0., h, s])
    return Nasa(name=name, elements=elements, a_low=a, a_high=a, T_low=200., T_mid=1000., T_high=3000., phase=phase)


UNITS = ['J/mol', 'kJ/mol', 'cal/mol', 'kcal/mol', 'eV', 'Ha', 'Eh', 'L atm/mol', 'cm3 kPa/mol', 'L torr/mol']
for trial in range(60):
    hA, hB, hC, hT = rng.uniform(-4e4, 1e4, 4)
    A = nasa('A', {'C': 1, 'O': 1}, hA, 5 * rng.rand(), phase='G' if trial % 3 == 0 else 'S')
    B = nasa('B', {'O': 1}, hB, 5 * rng.rand())
    Cc = nasa('C', {'C': 1, 'O': 2}, hC, 5 * rng.rand())
    TS = nasa('TS', {'C': 1, 'O': 2}, hT, 5 * rng.rand())
    nu = float(rng.choice([1., 2., 0.5]))
    for with_ts in (True, False):
        kw = dict(reactants=[A, B], reactants_stoich=[nu, nu], products=[Cc], products_stoich=[nu])
        if with_ts:
            kw.update(transition_state=[TS], transition_state_stoich=[nu])
        rxn = ChemkinReaction(**kw)
        for T, rev, units in itertools.product((250., 298.15, 500., 1234.5, 2999.), (False, True), UNITS):
            extra = {'P': float(rng.choice([0.1, 1., 20.]))} if trial % 2 else {}
            got = rxn.get_H_act(units=units, T=T, rev=rev, **extra)
            want = rxn.get_HoRT_act(T=T, rev=rev, **extra) * c.R('%s/K' % units) * T
            n += 1
            digest.update(np.float64(got).tobytes())
            if not (got == want and type(got) is type(want)):
                bad += 1
                print('DIFFERENT', trial, with_ts, T, rev, units, repr(got), repr(want))
# error behaviour: unsupported unit, duplicated option
for call in (lambda: rxn.get_H_act(units='furlong', T=300.), lambda: rxn.get_H_act(units='J/mol', T=300., act=True)):
    try:
        call()
        digest.update(b'no error')
    except Exception as e:
        digest.update(type(e).__name__.encode())
print('%d comparisons, %d different, digest %s' % (n, bad, digest.hexdigest()[:16]))
sys.exit(1 if bad else 0)
