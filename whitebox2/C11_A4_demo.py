"""C11_A4: a Debye solid (alone and inside a StatMech species) that has been USED before it is saved.
Exit 0 when the used object still round-trips through the real encoder and hook, exit 1 (prints WRONG) otherwise.
Run: PYTHONPATH=<tree> python C11_A4_demo.py"""
import json
import sys

from pmutt.io.json import pmuttEncoder, json_to_pmutt
from pmutt.statmech import StatMech
from pmutt.statmech.vib import DebyeVib


def roundtrip(obj):
    return json.loads(json.dumps(obj, cls=pmuttEncoder), object_hook=json_to_pmutt)


bad = 0
for label, make in (('DebyeVib', lambda: DebyeVib(debye_temperature=215., interaction_energy=1.)),
                    ('StatMech[DebyeVib]', lambda: StatMech(name='Au', elements={'Au': 1},
                                                            vib_model=DebyeVib(debye_temperature=215.,
                                                                               interaction_energy=1.)))):
    fresh = make()
    dec = roundtrip(fresh)                      # a freshly built object (what the unit tests and the checker look at)
    assert type(dec) is type(fresh)
    used = make()
    h = used.get_HoRT(T=300.)                   # history: one getter call before saving
    try:
        dec = roundtrip(used)
        same = type(dec) is type(used) and dec.get_HoRT(T=300.) == h and dec.to_dict() == make().to_dict()
        msg = 'decoded, H/RT(300 K) %.9f -> %.9f' % (h, dec.get_HoRT(T=300.))
    except Exception as e:                      # noqa
        same = False
        msg = 'raises %s: %s' % (type(e).__name__, e)
    print('%-20s after get_HoRT: %s  %s' % (label, msg, 'same' if same else 'WRONG'))
    bad += not same
sys.exit(1 if bad else 0)
