"""C04_B3: _get_R_adj with a debug log line.  Per-mass and molar getters of several species classes, bit for bit equal to
twin * R(molar) / (M * g->mass unit) as the pristine code computes it; error behaviour without a composition.
Run with PYTHONPATH=<tree>; exit 0 on the pristine and on the refactored tree, same digest on both."""
import sys
import hashlib
import warnings
import numpy as np
from pmutt import constants as c, get_molecular_weight, _get_R_adj
from pmutt.statmech import StatMech, presets
from pmutt.statmech.vib import HarmonicVib
from pmutt.empirical.nasa import Nasa
from pmutt.empirical.shomate import Shomate

bad = 0
digest = hashlib.sha256()


def expect_R(units, elements):
    parts = units.split('/')
    mass = [p for p in parts if p in ('g', 'kg', 'amu', 'lbs')]
    if not mass:
        return c.R(units)
    return c.R(units.replace('/' + mass[0], '/mol')) / c.convert_unit(num=get_molecular_weight(elements),
                                                                      initial='g', final=mass[0])


COMPS = [{'H': 2, 'O': 1}, {'C': 1, 'O': 2}, {'Pt': 1, 'C': 1, 'O': 1}, {1: 2, 8: 1}, {'H': 2.0, 'O': 0.5}, 'CH3OH']
UNITS = ['J/mol/K', 'kJ/mol/K', 'cal/mol/K', 'eV/K', 'Ha/K', 'L atm/mol/K', 'J/g/K', 'kJ/kg/K', 'cal/g/K',
         'kcal/kg/K', 'J/kg/K', 'kJ/g/K', 'L atm/kg/K', 'J/lbs/K', 'J/amu/K']
for el in COMPS:
    for u in UNITS:
        got, want = _get_R_adj(units=u, elements=el), expect_R(u, el)
        if got != want or type(got) is not type(want):
            bad += 1
            print('DIFFERENT', el, u, got, want)
        digest.update(repr(got).encode())
for u in ('J/g/K', 'kJ/kg/K'):
    try:
        _get_R_adj(units=u, elements=None)
        bad += 1
    except AttributeError as e:
        digest.update(repr(e.args).encode())
try:
    _get_R_adj(units='J/g/K', elements={'Xx': 1})
    bad += 1
except KeyError as e:
    digest.update(repr(e.args).encode())
a = np.array([3.5, 1.e-3, 0., 0., 0., -3.0e4, 2.])
nasa = Nasa(name='CO2', elements={'C': 1, 'O': 2}, a_low=a, a_high=a, T_low=200., T_mid=1000., T_high=3000., phase='G')
sho = Shomate(name='H2O', elements={'H': 2, 'O': 1}, phase='G', T_low=500., T_high=1700., units='J/mol/K',
              a=np.array([30.092, 6.832514, 6.793435, -2.53448, 0.082139, -250.881, 223.3967, -241.8264]))
sm = StatMech(name='H2O*', elements={'H': 2, 'O': 1}, potentialenergy=-1., vib_wavenumbers=[3800., 3650., 1600.],
              **presets['harmonic'])
for sp in (nasa, sho, sm):
    for u in UNITS[:13]:
        R = expect_R(u, sp.elements)
        for T in (600., 1500.):
            kw = {'P': 2.} if sp is not sm else {}
            pairs = [(sp.get_S(T=T, units=u, **kw), sp.get_SoR(T=T, **kw) * R),
                     (sp.get_H(T=T, units=u[:-2]), sp.get_HoRT(T=T) * T * R),
                     (sp.get_G(T=T, units=u[:-2], S_elements=True, **kw),
                      sp.get_GoRT(T=T, S_elements=True, **kw) * T * R)]
            for got, want in pairs:
                if got != want:
                    bad += 1
                    print('DIFFERENT', sp.name, u, T, got, want)
                digest.update(np.float64(got).tobytes())
vib = HarmonicVib(vib_wavenumbers=[1000., 500.])
digest.update(np.float64(vib.get_S(units='cal/mol/K', T=400.)).tobytes())
try:
    vib.get_S(units='J/g/K', T=400.)
    bad += 1
except AttributeError:
    pass
print('%d different, digest %s' % (bad, digest.hexdigest()[:16]))
sys.exit(1 if bad else 0)
